---------------------------- MODULE MergeTrace ----------------------------
(***************************************************************************)
(* Trace validation for C03/C04/C05: the outcome of the REAL merger        *)
(* (merger.ExtendMergerFunc / SanitizeNodeMergerFunc, and NewGateway) for  *)
(* a set of service schemas listed in some order must be what Merge.tla    *)
(* prescribes for the SET.                                                  *)
(*   {"ev":"Set","svcs":[...]}                                              *)
(*   {"ev":"Result","perm":[2,1],"merger":"extend","ok":true,"panic":false, *)
(*    "schema":{..},"routes":{..},"nodeTypes":[..],"urls":[..]}             *)
(***************************************************************************)
EXTENDS Merge, Json, IOUtils

CONSTANT Enforce
E(p) == p \in Enforce

Trace == ndJsonDeserialize(IOEnv.VERIF_TRACE)

VARIABLES S, l
mvars == <<S, l>>

Init == S = <<>> /\ l = 1
T == Trace[l]
IsEvent(e) == l <= Len(Trace) /\ Trace[l].ev = e /\ l' = l + 1
Refused(what) == Print(<<"@@REFUSED", l, what>>, TRUE)

TSet == IsEvent("Set") /\ S' = T.svcs

Expected(r) == LET M == Merged(S) IN
               IF r.merger = "sanitize" THEN [M EXCEPT !.hasNode = FALSE] ELSE M

ResultOK(r) ==
   /\ E("C03") => (Mergeable(S) => /\ r.ok
                                   /\ r.merger # "gateway" => /\ View(r.schema) = Expected(r)
                                                              /\ r.valid)    \* a valid GraphQL schema
   /\ E("C04") => (Mergeable(S) /\ r.ok /\ r.merger # "gateway" => RoutesOK(S, r))
   /\ E("C05") => /\ ~r.panic                                   \* an error, never a panic
                  /\ ~Mergeable(S) => ~r.ok                     \* conflicts are rejected, in every order
                  /\ Mergeable(S) => r.ok                       \* and only conflicts

(* where the produced schema differs from the union (first difference, for the report only) *)
Diff(a, b) ==
   IF DOMAIN a.types # DOMAIN b.types
   THEN "types: missing " \o ToString(DOMAIN b.types \ DOMAIN a.types) \o " invented " \o ToString(DOMAIN a.types \ DOMAIN b.types)
   ELSE IF \E t \in DOMAIN a.types : a.types[t] # b.types[t]
   THEN LET t == CHOOSE x \in DOMAIN a.types : a.types[x] # b.types[x]
            x == a.types[t] y == b.types[t]
        IN "type " \o t \o ": " \o
           (IF x.kind # y.kind THEN "kind"
            ELSE IF x.node # y.node THEN "implements Node"
            ELSE IF DOMAIN x.fields # DOMAIN y.fields THEN "fields: missing " \o ToString(DOMAIN y.fields \ DOMAIN x.fields) \o " invented " \o ToString(DOMAIN x.fields \ DOMAIN y.fields)
            ELSE IF x.fields # y.fields THEN "field signature"
            ELSE IF x.values # y.values THEN "enum values"
            ELSE IF x.members # y.members THEN "union members"
            ELSE "interfaces")
   ELSE IF \E r \in RootNames : a.roots[r] # b.roots[r]
   THEN LET r == CHOOSE x \in RootNames : a.roots[x] # b.roots[x]
        IN "root " \o r \o ": missing " \o ToString(DOMAIN b.roots[r] \ DOMAIN a.roots[r]) \o " invented " \o ToString(DOMAIN a.roots[r] \ DOMAIN b.roots[r])
   ELSE IF a.hasNode # b.hasNode THEN "node entry point"
   ELSE "directives"

Why(r) == IF Mergeable(S) THEN (IF ~r.ok THEN "mergeable-set-rejected"
                                ELSE IF E("C03") /\ r.merger # "gateway" /\ View(r.schema) # Expected(r)
                                     THEN "schema-differs-from-union: " \o Diff(View(r.schema), Expected(r))
                                ELSE IF E("C03") /\ ~r.valid THEN "merged schema is not valid"
                                ELSE IF E("C04") THEN "routes"
                                ELSE "other")
          ELSE ToString(Conflicts(S))

TResult == IsEvent("Result") /\ (IF ResultOK(T) THEN TRUE ELSE Refused(Why(T))) /\ UNCHANGED S

Next == TSet \/ TResult
TraceSpec == Init /\ [][Next]_mvars

TraceAccepted ==
   LET d == TLCGet("stats").diameter IN
   IF d - 1 = Len(Trace) THEN TRUE ELSE Print(<<"@@REJECTED-AT-LINE", d>>, FALSE)
=============================================================================
