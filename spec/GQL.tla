-------------------------------- MODULE GQL --------------------------------
(***************************************************************************)
(* The abstract GraphQL shared by the data-path specifications: tagged     *)
(* values, schemas, entity graphs, operations, and                          *)
(*   Ref(W, op)  - what ONE GraphQL server exposing the merged schema over  *)
(*                 the union of the services' data returns (the GraphQL     *)
(*                 execution algorithm: CollectFields with type conditions  *)
(*                 and @skip/@include, merging of same-key selections, list *)
(*                 mapping, null handling, argument/variable coercion with  *)
(*                 defaults);                                               *)
(*   Norm(v)     - the one tolerated difference of C01: bottom-up removal   *)
(*                 of keys whose value is an empty object or a non-empty    *)
(*                 list of empty objects.                                   *)
(* The encodings are those of harness/world/world.go (JSON <-> TLA+).       *)
(***************************************************************************)
EXTENDS Integers, Sequences, FiniteSets, TLC

Has(r, k) == k \in DOMAIN r
SVal(x) == [t |-> "s", v |-> x, y |-> "s"]     \* scalars travel as strings with a type tag (harness/world: S)
ZVal == [t |-> "z"]
Absent == [t |-> "absent"]
MinOf(S) == CHOOSE x \in S : \A y \in S : x <= y

RECURSIVE JoinStr(_, _)
JoinStr(seq, sep) == IF seq = <<>> THEN ""
                     ELSE IF Len(seq) = 1 THEN seq[1]
                     ELSE seq[1] \o sep \o JoinStr(Tail(seq), sep)

(* ---------------------------------------------------------------- arguments *)
(* C = [vars |-> provided variable values, vdefs |-> variable definitions] *)
RECURSIVE ResolveArg(_, _)
ResolveArg(e, C) ==
   CASE e.t = "lit" -> e.v
     [] e.t = "var" -> IF Has(C.vars, e.n) THEN C.vars[e.n]
                       ELSE IF Has(C.vdefs, e.n) /\ Has(C.vdefs[e.n], "def") THEN C.vdefs[e.n].def
                       ELSE Absent
     [] e.t = "lst" -> [t |-> "lst", v |-> [i \in DOMAIN e.v |-> LET x == ResolveArg(e.v[i], C) IN IF x = Absent THEN ZVal ELSE x]]
     [] e.t = "io"  -> [t |-> "io", k |-> e.k, v |-> [k \in DOMAIN e.v |-> ResolveArg(e.v[k], C)]]

RECURSIVE RenderArgVal(_)
RenderArgVal(v) ==
   CASE v.t = "s" -> v.v
     [] v.t = "e" -> v.v
     [] v.t = "i" -> ToString(v.v)
     [] v.t = "b" -> IF v.v THEN "TRUE" ELSE "FALSE"
     [] v.t = "z" -> "~"
     [] v.t = "lst" -> "[" \o JoinStr([i \in DOMAIN v.v |-> RenderArgVal(v.v[i])], ",") \o "]"
     [] v.t = "io" -> LET ks == SelectSeq(v.k, LAMBDA k : Has(v.v, k) /\ v.v[k] # Absent)
                      IN "{" \o JoinStr([i \in DOMAIN ks |-> ks[i] \o "=" \o RenderArgVal(v.v[ks[i]])], ",") \o "}"

(* the value of declared argument a of a field selection: explicit, else the schema default, else null *)
ArgValue(a, sel, C) ==
   LET given == IF Has(sel.args, a.name) THEN ResolveArg(sel.args[a.name], C) ELSE Absent
   IN IF given # Absent THEN given ELSE IF Has(a, "def") THEN a.def ELSE ZVal

FnKey(fd, sel, names, C) ==
   JoinStr([i \in DOMAIN names |->
               LET a == fd.args[CHOOSE j \in DOMAIN fd.args : fd.args[j].name = names[i]]
               IN RenderArgVal(ArgValue(a, sel, C))], "|")

DirsOK(dirs, C) ==
   \A i \in DOMAIN dirs :
      LET b == ResolveArg(dirs[i]["if"], C) IN
      /\ dirs[i].n = "include" => b = [t |-> "b", v |-> TRUE]
      /\ dirs[i].n = "skip"    => b # [t |-> "b", v |-> TRUE]

(* ---------------------------------------------------------------- execution *)
TypeMatches(W, rt, on) ==
   \/ on = "" \/ on = rt
   \/ Has(W.types, on) /\ W.types[on].kind \in {"INTERFACE", "UNION"}
        /\ \E i \in DOMAIN W.types[on].members : W.types[on].members[i] = rt

RECURSIVE Collect(_, _, _, _)
Collect(W, rt, sels, C) ==
   IF sels = <<>> THEN <<>>
   ELSE LET s == Head(sels)
            rest == Collect(W, rt, Tail(sels), C)
        IN IF ~DirsOK(s.dirs, C) THEN rest
           ELSE IF s.k = "F" THEN <<s>> \o rest
           ELSE IF TypeMatches(W, rt, s.on) THEN Collect(W, rt, s.sub, C) \o rest
           ELSE rest

RECURSIVE MergedSubs(_, _)
MergedSubs(fs, key) ==
   IF fs = <<>> THEN <<>>
   ELSE (IF Head(fs).key = key THEN Head(fs).sub ELSE <<>>) \o MergedSubs(Tail(fs), key)

RECURSIVE ExecObj(_, _, _, _, _), ExecField(_, _, _, _, _, _), Complete(_, _, _, _)

ExecObj(W, C, ty, f, sels) ==
   LET fs == Collect(W, ty, sels, C)
       keys == {fs[i].key : i \in DOMAIN fs}
   IN [t |-> "m",
       v |-> [k \in keys |->
                LET first == fs[MinOf({i \in DOMAIN fs : fs[i].key = k})]
                IN ExecField(W, C, ty, f, first, MergedSubs(fs, k))]]

ExecField(W, C, ty, f, sel, sub) ==
   IF sel.name = "__typename" THEN SVal(ty)
   ELSE IF ty = "Query" /\ sel.name = "node"
   THEN \* the Relay entry point: the entity with that id, or null
        LET idv == IF Has(sel.args, "id") THEN ResolveArg(sel.args["id"], C) ELSE Absent
        IN IF idv # Absent /\ idv.t = "s" /\ Has(W.ents, idv.v)
           THEN ExecObj(W, C, W.ents[idv.v].ty, W.ents[idv.v].f, sub) ELSE ZVal
   ELSE LET raw == f[sel.name]
            val == IF raw.t = "fn"
                   THEN LET key == FnKey(W.types[ty].fields[sel.name], sel, raw.args, C)
                        IN IF Has(raw.by, key) THEN raw.by[key] ELSE raw["else"]
                   ELSE raw
        IN Complete(W, C, val, sub)

Complete(W, C, v, sub) ==
   CASE v.t = "z" -> ZVal
     [] v.t = "s" -> v
     [] v.t = "r" -> ExecObj(W, C, W.ents[v.id].ty, W.ents[v.id].f, sub)
     [] v.t = "o" -> ExecObj(W, C, v.ty, v.f, sub)
     [] v.t = "l" -> [t |-> "l", v |-> [i \in DOMAIN v.v |-> Complete(W, C, v.v[i], sub)]]

RootName(kind) == CASE kind = "mutation" -> "Mutation" [] kind = "subscription" -> "Subscription" [] OTHER -> "Query"

Ctx(op) == [vars |-> op.vars, vdefs |-> op.varDefs]

Ref(W, op) == ExecObj(W, Ctx(op), RootName(op.kind), W.roots[RootName(op.kind)], op.sel)

(* ---------------------------------------------------------------- Norm *)
IsEmptyObj(x) == x.t = "m" /\ DOMAIN x.v = {}
Prunable(x) == \/ IsEmptyObj(x)
               \/ x.t = "l" /\ Len(x.v) > 0 /\ \A i \in DOMAIN x.v : IsEmptyObj(x.v[i])

RECURSIVE Norm(_)
Norm(x) ==
   CASE x.t = "m" -> LET nv == [k \in DOMAIN x.v |-> Norm(x.v[k])]
                         keep == {k \in DOMAIN nv : ~Prunable(nv[k])}
                     IN [t |-> "m", v |-> [k \in keep |-> nv[k]]]
     [] x.t = "l" -> [t |-> "l", v |-> [i \in DOMAIN x.v |-> Norm(x.v[i])]]
     [] OTHER -> x

(* leaves of a response value, for "nothing fabricated" (C09) *)
RECURSIVE Leaves(_)
Leaves(x) ==
   CASE x.t = "m" -> UNION {Leaves(x.v[k]) : k \in DOMAIN x.v}
     [] x.t = "l" -> UNION {Leaves(x.v[i]) : i \in DOMAIN x.v}
     [] x.t = "s" -> {x.v}
     [] OTHER -> {}
=============================================================================
