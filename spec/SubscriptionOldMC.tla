--------------------------- MODULE SubscriptionOldMC ---------------------------
EXTENDS SubscriptionImplOld
MCClient == { <<>>, <<"stop">>, <<"stop", "stop">>, <<"stop", "terminate">>, <<"stop", "garbage">>, <<"stop", "reset">>,
              <<"terminate">>, <<"garbage">>, <<"reset">> }
MCUpstream == { <<>>, <<"data">>, <<"data", "data">>, <<"data", "complete">>, <<"complete">>, <<"drop">>, <<"data", "drop">> }
NoAct == <<cscript, uscript, cpos, upos, hpc, lpc, cpc, rpc, kpc, inDict, mu, isClosed, cIsClosed, chClosed, clientGone,
           upClosed, rval, delivered, emitted, crashed>>
=============================================================================
