SPECIFICATION FairSpec
CONSTANTS
  ClientScripts <- MCClient
  UpstreamScripts <- MCUpstream
  StartFails <- MCStartFails
  Forceable = FALSE
VIEW NoAct
INVARIANTS TypeOK NoLeak DeliveredPrefix
PROPERTIES EventuallyGone
CHECK_DEADLOCK FALSE
