SPECIFICATION TSpec
POSTCONDITION TraceAccepted
CHECK_DEADLOCK FALSE
