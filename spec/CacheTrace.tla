----------------------------- MODULE CacheTrace -----------------------------
(***************************************************************************)
(* Trace validation for C14: every request of a history is sent to a       *)
(* gateway with the caching planner and to a gateway with the plain        *)
(* planner over the same services; the contract is that the two            *)
(* observations (response, and per service the bag of sub-requests with    *)
(* operation name, keyword, text and variables) are equal.                 *)
(*  {"ev":"Step","cached":"...","plain":"...","cachedReqs":"..","plainReqs":".."} *)
(***************************************************************************)
EXTENDS Integers, Sequences, TLC, Json, IOUtils
Trace == ndJsonDeserialize(IOEnv.VERIF_TRACE)
VARIABLE l
Refused(what) == Print(<<"@@REFUSED", l, what>>, TRUE)
StepOK(s) == s.cached = s.plain /\ s.cachedReqs = s.plainReqs
TStep == /\ l <= Len(Trace) /\ Trace[l].ev = "Step" /\ l' = l + 1
         /\ (IF StepOK(Trace[l]) THEN TRUE ELSE Refused(IF Trace[l].cached # Trace[l].plain THEN "response" ELSE "sub-requests"))
TOther == l <= Len(Trace) /\ Trace[l].ev # "Step" /\ l' = l + 1
TraceSpec == l = 1 /\ [][TStep \/ TOther]_l
TraceAccepted ==
   LET d == TLCGet("stats").diameter IN
   IF d - 1 = Len(Trace) THEN TRUE ELSE Print(<<"@@REJECTED-AT-LINE", d>>, FALSE)
=============================================================================
