INIT Init
NEXT Next
INVARIANT OutcomeTotal
CHECK_DEADLOCK FALSE
