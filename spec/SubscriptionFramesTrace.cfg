SPECIFICATION TSpec
CONSTANTS
  Writers = {"A", "B", "C"}
  Mode = "any"
  MaxFrames = 1000000
CONSTRAINT WellFormed
INVARIANT NotAccepted
CHECK_DEADLOCK FALSE
