---------------------------- MODULE UploadTrace ----------------------------
(* Trace validation for C19: Upload(client files) then SvcReq* then Resp; see Upload.tla *)
EXTENDS Upload, IOUtils
Trace == ndJsonDeserialize(IOEnv.VERIF_TRACE)
VARIABLES client, l
Refused(what) == Print(<<"@@REFUSED", l, what>>, TRUE)
T == Trace[l]
TInit == client = <<>> /\ l = 1 /\ tree = <<>> /\ todo = <<>> /\ found = <<>>
TUpload == l <= Len(Trace) /\ T.ev = "Upload" /\ l' = l + 1 /\ client' = T.clientFiles /\ UNCHANGED evars
TSvcReq == /\ l <= Len(Trace) /\ T.ev = "SvcReq" /\ l' = l + 1
           /\ (IF SvcReqOK(client, T) THEN TRUE ELSE Refused(ToJson(Expected(client, T))))
           /\ UNCHANGED <<client, evars>>
TResp == /\ l <= Len(Trace) /\ T.ev = "Resp" /\ l' = l + 1
         /\ (IF T.status = 200 /\ T.ok THEN TRUE ELSE Refused("response"))
         /\ UNCHANGED <<client, evars>>
TOther == l <= Len(Trace) /\ T.ev \notin {"Upload", "SvcReq", "Resp"} /\ l' = l + 1 /\ UNCHANGED <<client, evars>>
TraceSpec == TInit /\ [][TUpload \/ TSvcReq \/ TResp \/ TOther]_<<client, l, evars>>
TraceAccepted ==
   LET d == TLCGet("stats").diameter IN
   IF d - 1 = Len(Trace) THEN TRUE ELSE Print(<<"@@REJECTED-AT-LINE", d>>, FALSE)
=============================================================================
