--------------------------- MODULE MapReduceImpl ---------------------------
(***************************************************************************)
(* C20 - common.AsyncMapReduce as the code is written (common/helpers.go): *)
(* N worker goroutines, one reducer goroutine, the caller; a WaitGroup,    *)
(* three unbuffered channels (resChan, errChan, doneChan) closed by the     *)
(* caller's deferred calls.  One action per step between two hook points   *)
(* of the `verif` instrumentation, so that every behaviour of this spec is *)
(* a schedule that can be forced on the real code, and every hook trace of *)
(* the real code can be checked against it.                                *)
(*                                                                         *)
(*   worker i : start -WStart-> mapping -WMapped-> sendRes | sendErr       *)
(*                    -RRecvRes/RRecvErr (rendezvous with reducer)-> done  *)
(*   reducer  : select -RRecvRes(i)-> gotRes -RReduceStart-> reducing      *)
(*                     -RReduceEnd-> reduced -RWgDone-> select             *)
(*              select -RRecvErr(i)-> gotErr -RErrAppend-> erred -RWgDone->*)
(*              select -MSignal (rendezvous with caller)-> exit            *)
(*   caller   : wait -MWait (wg = 0)-> waited -MSignal-> signalled         *)
(*                   -MReturn (deferred closes)-> returned                 *)
(***************************************************************************)
EXTENDS Integers, Sequences, FiniteSets, TLC

CONSTANT N
Items == 0 .. N - 1

VARIABLES outcome,   \* outcome[i] \in {"ok","err"}: what the user's map function does for item i
          wpc,       \* worker program counters
          rpc, rcur, \* reducer program counter and the item it is handling
          mpc,       \* caller program counter
          wg,        \* WaitGroup counter
          closed,    \* channels closed (all three are closed together at return)
          acc, errs, \* the accumulator (as the sequence of reduced items) and the error list (sequence of items)
          act,       \* the action that led to this state, with its arguments (for replay generation)
          crashed,   \* a Go runtime panic happened (send on closed channel, negative WaitGroup)
          ist, busy, order, returned, ret   \* observation state of MapReduceAbs

implvars == <<outcome, wpc, rpc, rcur, mpc, wg, closed, acc, errs, crashed, act>>
absvars  == <<ist, busy, order, returned, ret>>
vars     == <<implvars, absvars>>

Abs == INSTANCE MapReduceAbs

Init == /\ outcome \in [Items -> {"ok", "err"}]
        /\ wpc = [i \in Items |-> "start"]
        /\ rpc = "select" /\ rcur = -1
        /\ mpc = "wait"
        /\ wg = N
        /\ closed = FALSE
        /\ acc = <<>> /\ errs = <<>>
        /\ crashed = FALSE
        /\ act = <<"Init">>
        /\ Abs!AbsInit

-----------------------------------------------------------------------------
(* workers *)
WStart(i) == /\ act' = <<"WStart", i>>
             /\ wpc[i] = "start"
             /\ wpc' = [wpc EXCEPT ![i] = "mapping"]
             /\ Abs!EffMapStart(i)
             /\ UNCHANGED <<outcome, rpc, rcur, mpc, wg, closed, acc, errs, crashed>>

WMapped(i) == /\ act' = <<"WMapped", i, outcome[i]>>
              /\ wpc[i] = "mapping"
              /\ wpc' = [wpc EXCEPT ![i] = IF outcome[i] = "ok" THEN "sendRes" ELSE "sendErr"]
              /\ Abs!EffMapEnd(i, outcome[i])
              /\ UNCHANGED <<outcome, rpc, rcur, mpc, wg, closed, acc, errs, crashed>>

(* a worker still trying to send after the caller closed the channels panics *)
WSendOnClosed(i) == /\ act' = <<"WSendOnClosed", i>>
                    /\ wpc[i] \in {"sendRes", "sendErr"} /\ closed
                    /\ crashed' = TRUE
                    /\ wpc' = [wpc EXCEPT ![i] = "panicked"]
                    /\ UNCHANGED <<outcome, rpc, rcur, mpc, wg, closed, acc, errs, absvars>>

(* reducer *)
RRecvRes(i) == /\ act' = <<"RRecvRes", i>>
               /\ rpc = "select" /\ wpc[i] = "sendRes" /\ ~closed
               /\ wpc' = [wpc EXCEPT ![i] = "done"]
               /\ rpc' = "gotRes" /\ rcur' = i
               /\ UNCHANGED <<outcome, mpc, wg, closed, acc, errs, crashed, absvars>>

RReduceStart == /\ act' = <<"RReduceStart", rcur>>
                /\ rpc = "gotRes"
                /\ rpc' = "reducing"
                /\ Abs!EffReduceStart(rcur)
                /\ UNCHANGED <<outcome, wpc, rcur, mpc, wg, closed, acc, errs, crashed>>

RReduceEnd == /\ act' = <<"RReduceEnd", rcur>>
              /\ rpc = "reducing"
              /\ rpc' = "reduced"
              /\ acc' = Append(acc, rcur)
              /\ Abs!EffReduceEnd(rcur)
              /\ UNCHANGED <<outcome, wpc, rcur, mpc, wg, closed, errs, crashed>>

RRecvErr(i) == /\ act' = <<"RRecvErr", i>>
               /\ rpc = "select" /\ wpc[i] = "sendErr" /\ ~closed
               /\ wpc' = [wpc EXCEPT ![i] = "done"]
               /\ rpc' = "gotErr" /\ rcur' = i
               /\ UNCHANGED <<outcome, mpc, wg, closed, acc, errs, crashed, absvars>>

RErrAppend == /\ act' = <<"RErrAppend", rcur>>
              /\ rpc = "gotErr"
              /\ rpc' = "erred"
              /\ errs' = Append(errs, rcur)
              /\ UNCHANGED <<outcome, wpc, rcur, mpc, wg, closed, acc, crashed, absvars>>

RWgDone == /\ act' = <<"RWgDone">>
           /\ rpc \in {"reduced", "erred"}
           /\ rpc' = "select" /\ rcur' = -1
           /\ IF wg > 0 THEN wg' = wg - 1 /\ UNCHANGED crashed
                        ELSE crashed' = TRUE /\ UNCHANGED wg      \* "sync: negative WaitGroup counter"
           /\ UNCHANGED <<outcome, wpc, mpc, closed, acc, errs, absvars>>

(* after close(doneChan) a reducer still selecting receives the zero value and exits *)
RExitOnClosed == /\ act' = <<"RExitOnClosed">>
                 /\ rpc = "select" /\ closed
                 /\ rpc' = "exit"
                 /\ UNCHANGED <<outcome, wpc, rcur, mpc, wg, closed, acc, errs, crashed, absvars>>

(* caller *)
MWait == /\ act' = <<"MWait">>
         /\ mpc = "wait" /\ wg = 0
         /\ mpc' = "waited"
         /\ UNCHANGED <<outcome, wpc, rpc, rcur, wg, closed, acc, errs, crashed, absvars>>

MSignal == /\ act' = <<"MSignal">>
           /\ mpc = "waited" /\ rpc = "select"
           /\ mpc' = "signalled" /\ rpc' = "exit"
           /\ UNCHANGED <<outcome, wpc, rcur, wg, closed, acc, errs, crashed, absvars>>

Alive == Cardinality({i \in Items : wpc[i] # "done"}) + (IF rpc = "exit" THEN 0 ELSE 1)

MReturn == /\ act' = <<"MReturn", acc, {errs[k] : k \in DOMAIN errs}, Alive>>
           /\ mpc = "signalled"
           /\ mpc' = "returned"
           /\ closed' = TRUE
           /\ Abs!EffReturn([acc |-> acc, errs |-> {errs[k] : k \in DOMAIN errs}, left |-> Alive])
           /\ UNCHANGED <<outcome, wpc, rpc, rcur, wg, acc, errs, crashed>>

Next == \/ \E i \in Items : WStart(i) \/ WMapped(i) \/ WSendOnClosed(i) \/ RRecvRes(i) \/ RRecvErr(i)
        \/ RReduceStart \/ RReduceEnd \/ RErrAppend \/ RWgDone \/ RExitOnClosed
        \/ MWait \/ MSignal \/ MReturn

Spec     == Init /\ [][Next]_vars
FairSpec == Spec /\ WF_vars(Next)

-----------------------------------------------------------------------------
TypeOK == /\ wpc \in [Items -> {"start", "mapping", "sendRes", "sendErr", "done", "panicked"}]
          /\ rpc \in {"select", "gotRes", "reducing", "reduced", "gotErr", "erred", "exit"}
          /\ mpc \in {"wait", "waited", "signalled", "returned"}
          /\ wg \in 0 .. N
          /\ Abs!AbsTypeOK

NoCrash == ~crashed

(* no goroutine left behind: when the caller has returned every process is terminal *)
NoLeak == mpc = "returned" => (\A i \in Items : wpc[i] = "done") /\ rpc = "exit"

(* the design refines the contract *)
Refines      == Abs!AbsSpec
QuietAfter   == Abs!QuietAfterReturn
RetComplete  == Abs!ReturnedComplete

(* deadlock freedom is checked by TLC itself (terminal state = everything done); *)
Terminal == mpc = "returned" /\ (\A i \in Items : wpc[i] = "done") /\ rpc = "exit"
Termination == <>Terminal

(* wg counts the items not yet acknowledged by the reducer *)
WgInv == wg = Cardinality({i \in Items : wpc[i] # "done"})
               + (IF rpc \in {"gotRes", "reducing", "reduced", "gotErr", "erred"} THEN 1 ELSE 0)
=============================================================================
