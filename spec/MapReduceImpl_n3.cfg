SPECIFICATION FairSpec
CONSTANT N = 3
INVARIANTS TypeOK NoCrash NoLeak RetComplete WgInv
PROPERTIES Refines QuietAfter Termination
CHECK_DEADLOCK FALSE
