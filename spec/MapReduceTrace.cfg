SPECIFICATION TraceSpec
CONSTANT N = 0
POSTCONDITION TraceAccepted
CHECK_DEADLOCK FALSE
