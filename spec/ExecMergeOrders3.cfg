SPECIFICATION Spec
CONSTANTS
  Calls = {1, 2, 3}
  Keys = {"n"}
  Rule = "nullkeeps"
  AnswerSpace <- OneAnswer
INVARIANT PrintOrder
CHECK_DEADLOCK FALSE
