SPECIFICATION Spec
CONSTANTS
  ClientScripts <- MCClient
  UpstreamScripts <- MCUpstream
  StartFails <- MCStartFails
  Forceable = TRUE
VIEW NoAct
INVARIANTS TypeOK NoLeak DeliveredPrefix
CHECK_DEADLOCK FALSE
