SPECIFICATION TraceSpec
POSTCONDITION TraceAccepted
CHECK_DEADLOCK FALSE
