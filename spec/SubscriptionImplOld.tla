-------------------------- MODULE SubscriptionImplOld ---------------------------
(***************************************************************************)
(* C18 (and the delivery half of C17) - one subscription on one client     *)
(* connection, as the code is written (subscription.go,                    *)
(* subscription_entry.go, queryer/subscribe.go), one action per step       *)
(* between two `verif` hook points:                                        *)
(*   H  the connection handler: reads the client's messages (stop,         *)
(*      terminate, garbage, abrupt disconnect), spawns Close goroutines,   *)
(*      its deferred exit path (close frame, conn.Close, CleanAll)         *)
(*   L  subscriptionEntry.Listen: select on respCh / closeCh, write the    *)
(*      frame, the deferred teardown (send on queryerCloseCh, Lock, close  *)
(*      the three channels, isClosed, Unlock)                              *)
(*   C  subscriptionEntry.Close: TryLock (result ignored), read isClosed,  *)
(*      Unlock, send on closeCh                                            *)
(*   R  the upstream reader of MultiOpQueryer.Subscribe: read a frame,     *)
(*      send it on respCh; on complete / error / closed connection:        *)
(*      conn.Close, send nil on respCh (that panic is recovered)           *)
(*   K  the upstream closer: receive from queryerCloseCh, conn.Close       *)
(* with Go's semantics for unbuffered channels (rendezvous; send on a      *)
(* closed channel panics; receive from a closed channel returns), for      *)
(* sync.Mutex (TryLock; Unlock by a non-owner succeeds; Unlock of an       *)
(* unlocked mutex is fatal) and for recover (the panic of the goroutine    *)
(* body is not absorbed by a recover inside the deferred function).        *)
(* The environment: a client script and an upstream script.                *)
(***************************************************************************)
EXTENDS Integers, Sequences, FiniteSets, TLC

CONSTANTS ClientScripts,    \* set of sequences over {"stop","terminate","garbage","reset"}
          UpstreamScripts   \* set of sequences over {"data","complete","drop"}

VARIABLES cscript, uscript,          \* the chosen scripts
          cpos, upos,                \* how much of them has been consumed
          hpc, lpc, cpc, rpc, kpc,   \* program counters ("none" for C until it is spawned)
          inDict,                    \* the subscription is still in the handler's dictionary
          mu,                        \* mutex: "free" | "held"
          isClosed, cIsClosed,       \* the flag and Close's local copy of it
          chClosed,                  \* the three channels are closed (they are closed together)
          clientGone,                \* the client's connection no longer accepts writes
          upClosed,                  \* the gateway closed its upstream connection
          rval,                      \* "data" normally; "panicking" while the reader unwinds a send on the closed respCh
          delivered,                 \* number of data frames written to the client
          emitted,                   \* number of data events the reader took from the upstream
          crashed,                   \* "" or the kind of crash
          act

vars == <<cscript, uscript, cpos, upos, hpc, lpc, cpc, rpc, kpc, inDict, mu, isClosed, cIsClosed, chClosed, clientGone,
          upClosed, rval, delivered, emitted, crashed, act>>

Init == /\ cscript \in ClientScripts /\ uscript \in UpstreamScripts
        /\ cpos = 0 /\ upos = 0
        /\ hpc = "read" /\ lpc = "select" /\ cpc = "none" /\ rpc = "read" /\ kpc = "wait"
        /\ inDict = TRUE /\ mu = "free" /\ isClosed = FALSE /\ cIsClosed = FALSE /\ chClosed = FALSE
        /\ clientGone = FALSE /\ upClosed = FALSE /\ rval = "data" /\ delivered = 0 /\ emitted = 0
        /\ crashed = "" /\ act = <<"Init", cscript, uscript>>

Alive == crashed = ""

-----------------------------------------------------------------------------
(* H: the connection handler *)
SpawnClose == IF inDict THEN "enter" ELSE cpc      \* go subEntry.Close(); delete(sd, key)

HMsg == /\ Alive /\ hpc = "read" /\ cpos < Len(cscript)
        /\ LET m == cscript[cpos + 1] IN
           /\ cpos' = cpos + 1
           /\ act' = <<"HMsg", m>>
           /\ CASE m = "stop" -> /\ cpc' = SpawnClose /\ inDict' = FALSE /\ hpc' = "read" /\ UNCHANGED clientGone
                [] m = "terminate" -> /\ cpc' = SpawnClose /\ inDict' = FALSE /\ hpc' = "exit" /\ UNCHANGED clientGone
                [] m = "garbage" -> /\ hpc' = "exit" /\ UNCHANGED <<cpc, inDict, clientGone>>
                [] m = "reset" -> /\ hpc' = "exit" /\ clientGone' = TRUE /\ UNCHANGED <<cpc, inDict>>
        /\ UNCHANGED <<cscript, uscript, upos, lpc, rpc, kpc, mu, isClosed, cIsClosed, chClosed, upClosed, rval, delivered, emitted, crashed>>

(* the deferred exit: write the close frame (fails if the client is gone: return at once), *)
(* conn.Close(), CleanAll()                                                                  *)
HExit == /\ Alive /\ hpc = "exit"
         /\ act' = <<"HExit", clientGone>>
         /\ IF clientGone
            THEN /\ hpc' = "done" /\ UNCHANGED <<cpc, inDict, clientGone>>       \* nothing is cleaned up
            ELSE /\ hpc' = "done" /\ clientGone' = TRUE /\ cpc' = SpawnClose /\ inDict' = FALSE
         /\ UNCHANGED <<cscript, uscript, cpos, upos, lpc, rpc, kpc, mu, isClosed, cIsClosed, chClosed, upClosed, rval, delivered, emitted, crashed>>

-----------------------------------------------------------------------------
(* C: subscriptionEntry.Close *)
CTryLock == /\ Alive /\ cpc = "enter"
            /\ mu' = "held"                              \* TryLock: acquires if free; if not, nothing happens (result ignored)
            /\ cIsClosed' = isClosed
            /\ cpc' = "read"
            /\ act' = <<"CTryLock", mu = "free", isClosed>>
            /\ UNCHANGED <<cscript, uscript, cpos, upos, hpc, lpc, rpc, kpc, inDict, isClosed, chClosed, clientGone, upClosed, rval, delivered, emitted, crashed>>

CUnlock == /\ Alive /\ cpc = "read"
           /\ act' = <<"CUnlock", mu>>
           /\ IF mu = "held" THEN mu' = "free" /\ cpc' = "send" /\ UNCHANGED crashed
                             ELSE crashed' = "unlock-of-unlocked-mutex:Close" /\ UNCHANGED <<mu, cpc>>
           /\ UNCHANGED <<cscript, uscript, cpos, upos, hpc, lpc, rpc, kpc, inDict, isClosed, cIsClosed, chClosed, clientGone, upClosed, rval, delivered, emitted>>

CReturn == /\ Alive /\ cpc = "send" /\ cIsClosed
           /\ cpc' = "done" /\ act' = <<"CReturn">>
           /\ UNCHANGED <<cscript, uscript, cpos, upos, hpc, lpc, rpc, kpc, inDict, mu, isClosed, cIsClosed, chClosed, clientGone, upClosed, rval, delivered, emitted, crashed>>

CSendOnClosed == /\ Alive /\ cpc = "send" /\ ~cIsClosed /\ chClosed
                 /\ crashed' = "send-on-closed-channel:Close" /\ act' = <<"CSendOnClosed">>
                 /\ UNCHANGED <<cscript, uscript, cpos, upos, hpc, lpc, cpc, rpc, kpc, inDict, mu, isClosed, cIsClosed, chClosed, clientGone, upClosed, rval, delivered, emitted>>

-----------------------------------------------------------------------------
(* L: Listen *)
(* rendezvous C -> L on closeCh *)
LRecvClose == /\ Alive /\ lpc = "select" /\ cpc = "send" /\ ~cIsClosed /\ ~chClosed
              /\ lpc' = "closech" /\ cpc' = "done" /\ act' = <<"LRecvClose">>
              /\ UNCHANGED <<cscript, uscript, cpos, upos, hpc, rpc, kpc, inDict, mu, isClosed, cIsClosed, chClosed, clientGone, upClosed, rval, delivered, emitted, crashed>>

(* rendezvous R -> L on respCh *)
LRecvResp == /\ Alive /\ lpc = "select" /\ rpc \in {"send", "sendnil"} /\ ~chClosed
             /\ lpc' = IF rpc = "send" THEN "resp" ELSE "respnil"
             /\ rpc' = IF rpc = "send" THEN "read" ELSE "done"
             /\ act' = <<"LRecvResp", rpc>>
             /\ UNCHANGED <<cscript, uscript, cpos, upos, hpc, cpc, kpc, inDict, mu, isClosed, cIsClosed, chClosed, clientGone, upClosed, rval, delivered, emitted, crashed>>

LPrepare == /\ Alive /\ lpc = "resp" /\ lpc' = "write" /\ act' = <<"LPrepare">>
            /\ UNCHANGED <<cscript, uscript, cpos, upos, hpc, cpc, rpc, kpc, inDict, mu, isClosed, cIsClosed, chClosed, clientGone, upClosed, rval, delivered, emitted, crashed>>

LWrite == /\ Alive /\ lpc = "write"
          /\ act' = <<"LWrite", ~clientGone>>
          /\ IF clientGone THEN lpc' = "dq" /\ UNCHANGED delivered            \* write error: return
                           ELSE lpc' = "select" /\ delivered' = delivered + 1
          /\ UNCHANGED <<cscript, uscript, cpos, upos, hpc, cpc, rpc, kpc, inDict, mu, isClosed, cIsClosed, chClosed, clientGone, upClosed, rval, emitted, crashed>>

LReturn == /\ Alive /\ lpc \in {"respnil", "closech"} /\ lpc' = "dq" /\ act' = <<"LReturn", lpc>>
           /\ UNCHANGED <<cscript, uscript, cpos, upos, hpc, cpc, rpc, kpc, inDict, mu, isClosed, cIsClosed, chClosed, clientGone, upClosed, rval, delivered, emitted, crashed>>

(* deferred: se.queryerCloseCh <- struct{}{} : rendezvous L -> K *)
LSignalCloser == /\ Alive /\ lpc = "dq" /\ kpc = "wait"
                 /\ lpc' = "dl" /\ kpc' = "close" /\ act' = <<"LSignalCloser">>
                 /\ UNCHANGED <<cscript, uscript, cpos, upos, hpc, cpc, rpc, inDict, mu, isClosed, cIsClosed, chClosed, clientGone, upClosed, rval, delivered, emitted, crashed>>

LLock == /\ Alive /\ lpc = "dl" /\ mu = "free"
         /\ mu' = "held" /\ lpc' = "dlocked" /\ act' = <<"LLock">>
         /\ UNCHANGED <<cscript, uscript, cpos, upos, hpc, cpc, rpc, kpc, inDict, isClosed, cIsClosed, chClosed, clientGone, upClosed, rval, delivered, emitted, crashed>>

LCloseChans == /\ Alive /\ lpc = "dlocked"
               /\ chClosed' = TRUE /\ isClosed' = TRUE /\ lpc' = "dclosed" /\ act' = <<"LCloseChans">>
               /\ UNCHANGED <<cscript, uscript, cpos, upos, hpc, cpc, rpc, kpc, inDict, mu, cIsClosed, clientGone, upClosed, rval, delivered, emitted, crashed>>

LUnlock == /\ Alive /\ lpc = "dclosed"
           /\ act' = <<"LUnlock", mu>>
           /\ IF mu = "held" THEN mu' = "free" /\ lpc' = "done" /\ UNCHANGED crashed
                             ELSE crashed' = "unlock-of-unlocked-mutex:Listen" /\ UNCHANGED <<mu, lpc>>
           /\ UNCHANGED <<cscript, uscript, cpos, upos, hpc, cpc, rpc, kpc, inDict, isClosed, cIsClosed, chClosed, clientGone, upClosed, rval, delivered, emitted>>

-----------------------------------------------------------------------------
(* R: the upstream reader *)
RRead == /\ Alive /\ rpc = "read"
         /\ IF upClosed \/ upos >= Len(uscript)
            THEN /\ upClosed                                   \* nothing to read: blocks unless the connection is closed
                 /\ rpc' = "exit" /\ act' = <<"RRead", "closed">> /\ UNCHANGED <<upos, emitted>>
            ELSE LET e == uscript[upos + 1] IN
                 /\ upos' = upos + 1
                 /\ act' = <<"RRead", e>>
                 /\ IF e = "data" THEN rpc' = "send" /\ emitted' = emitted + 1
                                  ELSE rpc' = "exit" /\ UNCHANGED emitted
         /\ UNCHANGED <<cscript, uscript, cpos, hpc, lpc, cpc, kpc, inDict, mu, isClosed, cIsClosed, chClosed, clientGone, upClosed, rval, delivered, crashed>>

(* the send panics; the goroutine's deferred function runs (it passes the same hook points) *)
RSendOnClosed == /\ Alive /\ rpc = "send" /\ chClosed
                 /\ rpc' = "exit" /\ rval' = "panicking" /\ act' = <<"RSendOnClosed">>
                 /\ UNCHANGED <<cscript, uscript, cpos, upos, hpc, lpc, cpc, kpc, inDict, mu, isClosed, cIsClosed, chClosed, clientGone, upClosed, delivered, emitted, crashed>>

RExit == /\ Alive /\ rpc = "exit"
         /\ upClosed' = TRUE /\ rpc' = "sendnil" /\ act' = <<"RExit">>
         /\ UNCHANGED <<cscript, uscript, cpos, upos, hpc, lpc, cpc, kpc, inDict, mu, isClosed, cIsClosed, chClosed, clientGone, rval, delivered, emitted, crashed>>

(* `resCh <- nil` on the closed channel panics and that panic is recovered by the deferred      *)
(* function's own recover; a panic of the goroutine body that was being unwound is not: it goes on *)
RNilOnClosed == /\ Alive /\ rpc = "sendnil" /\ chClosed
                /\ act' = <<"RNilOnClosed", rval>>
                /\ IF rval = "panicking" THEN crashed' = "send-on-closed-channel:reader" /\ UNCHANGED rpc
                                         ELSE rpc' = "done" /\ UNCHANGED crashed
                /\ UNCHANGED <<cscript, uscript, cpos, upos, hpc, lpc, cpc, kpc, inDict, mu, isClosed, cIsClosed, chClosed, clientGone, upClosed, rval, delivered, emitted>>

-----------------------------------------------------------------------------
(* K: the upstream closer *)
KRecvClosed == /\ Alive /\ kpc = "wait" /\ chClosed               \* receive from the closed channel
               /\ kpc' = "close" /\ act' = <<"KRecvClosed">>
               /\ UNCHANGED <<cscript, uscript, cpos, upos, hpc, lpc, cpc, rpc, inDict, mu, isClosed, cIsClosed, chClosed, clientGone, upClosed, rval, delivered, emitted, crashed>>

KClose == /\ Alive /\ kpc = "close"
          /\ upClosed' = TRUE /\ kpc' = "done" /\ act' = <<"KClose">>
          /\ UNCHANGED <<cscript, uscript, cpos, upos, hpc, lpc, cpc, rpc, inDict, mu, isClosed, cIsClosed, chClosed, clientGone, rval, delivered, emitted, crashed>>

Next == HMsg \/ HExit \/ CTryLock \/ CUnlock \/ CReturn \/ CSendOnClosed
        \/ LRecvClose \/ LRecvResp \/ LPrepare \/ LWrite \/ LReturn \/ LSignalCloser \/ LLock \/ LCloseChans \/ LUnlock
        \/ RRead \/ RSendOnClosed \/ RExit \/ RNilOnClosed \/ KRecvClosed \/ KClose

Spec == Init /\ [][Next]_vars

-----------------------------------------------------------------------------
(* the contract (SubscriptionAbs), over what the outside can observe *)
NoCrash == crashed = ""

Quiescent == ~ENABLED Next
(* the subscription or the connection has ended *)
Ended == lpc = "done" \/ hpc = "done"
AllGone == /\ lpc = "done" /\ rpc = "done" /\ kpc = "done" /\ cpc \in {"none", "done"} /\ upClosed
(* after the end nothing is left behind (checked where nothing can happen any more) *)
NoLeak == (Quiescent /\ Alive /\ Ended) => AllGone
(* C17, delivery half: never more frames than events, in order by construction *)
DeliveredPrefix == delivered <= emitted
=============================================================================
