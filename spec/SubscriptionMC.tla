--------------------------- MODULE SubscriptionMC ---------------------------
EXTENDS SubscriptionImpl
MCClient == { <<>>, <<"stop">>, <<"stop", "stop">>, <<"stop", "terminate">>, <<"stop", "garbage">>, <<"stop", "reset">>,
              <<"terminate">>, <<"garbage">>, <<"reset">>, <<"restart">>, <<"restart", "terminate">>, <<"restart", "reset">> }
MCUpstream == { <<>>, <<"data">>, <<"data", "data">>, <<"data", "complete">>, <<"complete">>, <<"drop">>, <<"data", "drop">>,
                <<"error">>, <<"error", "data">>, <<"data", "error", "complete">> }
MCStartFails == {TRUE, FALSE}
NoAct == <<cscript, uscript, cpos, upos, hpc, lpc, cpc, rpc, kpc, inDict, closeReq, qClosed, clientGone,
           upClosed, delivered, emitted, subEnd, connEnd>>
=============================================================================
