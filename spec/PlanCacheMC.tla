---------------------------- MODULE PlanCacheMC ----------------------------
(* Model for PlanCache: an operation pool whose members differ pairwise in exactly one       *)
(* component, so that every way in which a cache key can be too coarse is in the pool.        *)
EXTENDS PlanCache, Json

(* frag: "none" = the selection is written inline; "F1"/"F2" = the same spread ...F with two  *)
(* different fragment bodies.  name: the document always holds two operations A and B, the     *)
(* component says which one operationName selects.  ids: the helper ids the sanitiser adds     *)
(* are written out by the client (the text then equals the sanitised text of Base).            *)
(* sel: "S2" = the root field under an alias; "S3" = the root field next to a root field the   *)
(* gateway answers itself (__typename): the handler splits such a plan into its internal and    *)
(* its service steps on EVERY request, i.e. it works on the plan object the cache hands out to  *)
(* everybody.                                                                                   *)
Base == [sel |-> "S1", kind |-> "q", name |-> "A", vdef |-> "V1", frag |-> "none", ids |-> FALSE]
Pool == {Base,
         [Base EXCEPT !.sel = "S2"], [Base EXCEPT !.sel = "S3"], [Base EXCEPT !.kind = "m"], [Base EXCEPT !.name = "B"],
         [Base EXCEPT !.vdef = "V2"], [Base EXCEPT !.ids = TRUE],
         [Base EXCEPT !.frag = "F1"], [Base EXCEPT !.frag = "F2"]}
AllFields == {"sel", "kind", "name", "vdef", "frag", "ids"}
(* what the code hashed before the fix C14-X1: the formatted selection set only *)
OldFields == {"sel", "frag", "ids"}

(* print every complete history once it is over (direction A) *)
Complete == NOps = MaxLen /\ \A r \in Reqs : st[r] = "idle"
PrintHist == Complete => PrintT("@@" \o ToJson([hist |-> hist]))
=============================================================================
