--------------------------- MODULE IntrospectTrace ---------------------------
EXTENDS Introspect, IOUtils
Trace == ndJsonDeserialize(IOEnv.VERIF_TRACE)
VARIABLE l
Refused(what) == Print(<<"@@REFUSED", l, what>>, TRUE)
TIntro == /\ l <= Len(Trace) /\ Trace[l].ev = "Intro" /\ l' = l + 1
          /\ (IF IntroOK(Trace[l]) THEN TRUE ELSE Refused(IntroWhy(Trace[l])))
          /\ UNCHANGED c
TOther == l <= Len(Trace) /\ Trace[l].ev # "Intro" /\ l' = l + 1 /\ UNCHANGED c
TraceSpec == (l = 1 /\ c = {}) /\ [][TIntro \/ TOther]_<<l, c>>
TraceAccepted ==
   LET d == TLCGet("stats").diameter IN
   IF d - 1 = Len(Trace) THEN TRUE ELSE Print(<<"@@REJECTED-AT-LINE", d>>, FALSE)
=============================================================================
