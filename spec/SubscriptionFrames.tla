------------------------- MODULE SubscriptionFrames -------------------------
(***************************************************************************)
(* C18, "every frame the client receives is a complete well-formed         *)
(* message".  Several goroutines write frames to the one client            *)
(* connection: every subscription's Listen, the heartbeat, the handler.    *)
(* A websocket frame is a header followed by a payload.  net.Conn          *)
(* serialises concurrent Write calls; it does not serialise two            *)
(* consecutive Write calls of one goroutine against other goroutines.      *)
(*   Mode = "two"    each frame is handed over with two Write calls        *)
(*                   (ws.WriteFrame on the connection: the code before the *)
(*                   fix) - TLC finds h1 h2 p1 p2                           *)
(*   Mode = "one"    the frame is assembled and handed over in one call    *)
(*                   (the code now)                                        *)
(*   Mode = "locked" two calls under a per-connection mutex (the other     *)
(*                   acceptable implementation)                            *)
(***************************************************************************)
EXTENDS Integers, Sequences, FiniteSets, TLC

CONSTANTS Writers, Mode, MaxFrames

VARIABLES wire,     \* what the connection carries: sequence of <<writer, part>>, part \in {"h","p","f"}
          mid,      \* writers that have written a header and not yet its payload
          lock,     \* holder of the connection mutex (Mode "locked"), or "none"
          nframes

vars == <<wire, mid, lock, nframes>>

Init == wire = <<>> /\ mid = {} /\ lock = "none" /\ nframes = 0

WriteWhole(w) == /\ Mode = "one" /\ w \notin mid /\ nframes < MaxFrames
                 /\ wire' = Append(wire, <<w, "f">>) /\ nframes' = nframes + 1 /\ UNCHANGED <<mid, lock>>

WriteHeader(w) == /\ Mode \in {"two", "locked"} /\ w \notin mid /\ nframes < MaxFrames
                  /\ (Mode = "locked" => lock = "none")
                  /\ wire' = Append(wire, <<w, "h">>) /\ mid' = mid \cup {w}
                  /\ lock' = IF Mode = "locked" THEN w ELSE lock
                  /\ nframes' = nframes + 1

WritePayload(w) == /\ w \in mid
                   /\ wire' = Append(wire, <<w, "p">>) /\ mid' = mid \ {w}
                   /\ lock' = IF Mode = "locked" THEN "none" ELSE lock
                   /\ UNCHANGED nframes

Next == \E w \in Writers : WriteWhole(w) \/ WriteHeader(w) \/ WritePayload(w)
Spec == Init /\ [][Next]_vars

(* the client's parser: a header must be followed directly by its own payload *)
RECURSIVE Parses(_)
Parses(s) == IF s = <<>> THEN TRUE
             ELSE IF s[1][2] = "f" THEN Parses(Tail(s))
             ELSE IF s[1][2] = "h" THEN Len(s) = 1 \/ (s[2] = <<s[1][1], "p">> /\ Parses(Tail(Tail(s))))
             ELSE FALSE
WellFormed == Parses(wire)
=============================================================================
