----------------------------- MODULE BatchFront -----------------------------
(***************************************************************************)
(* C08 - batched requests are answered in order and independently.         *)
(* Contract (BatchAbs part): a batch of N operations is answered by an      *)
(* array of N results with result i = Single(op i), what the same operation *)
(* gets when it is sent alone.                                              *)
(* Design (the fan-out of gateway.go as an instance of MapReduceAbs): every *)
(* operation is executed by its own goroutine (Run(i): its result becomes   *)
(* available), the reducer places results one at a time at the operation's  *)
(* index (Place(i)), the response is emitted when all are placed.  TLC      *)
(* explores every interleaving of Run and Place; each behaviour is forced   *)
(* on the real handler through the hook gates of the batch-level            *)
(* AsyncMapReduce instance (direction A).                                   *)
(***************************************************************************)
EXTENDS Integers, Sequences, FiniteSets, TLC

CONSTANT N
Idx == 0 .. N - 1

VARIABLES ran,      \* operations whose execution finished (result available, not yet handed over)
          placed,   \* operations whose result the reducer has stored
          out,      \* the result slots: index -> operation whose result is there, or -1
          emitted, act

vars == <<ran, placed, out, emitted, act>>

Init == ran = {} /\ placed = {} /\ out = [i \in Idx |-> -1] /\ emitted = FALSE /\ act = <<"Init", N>>

Run(i) == /\ i \notin ran /\ i \notin placed /\ ~emitted
          /\ ran' = ran \cup {i}
          /\ act' = <<"Run", i>>
          /\ UNCHANGED <<placed, out, emitted>>

Place(i) == /\ i \in ran /\ ~emitted
            /\ ran' = ran \ {i} /\ placed' = placed \cup {i}
            /\ out' = [out EXCEPT ![i] = i]          \* acc[value.index] = value
            /\ act' = <<"Place", i>>
            /\ UNCHANGED emitted

Emit == /\ placed = Idx /\ ~emitted
        /\ emitted' = TRUE
        /\ act' = <<"Emit">>
        /\ UNCHANGED <<ran, placed, out>>

Next == (\E i \in Idx : Run(i) \/ Place(i)) \/ Emit
Spec == Init /\ [][Next]_vars /\ WF_vars(Next)

(* result i answers operation i, whatever the interleaving *)
InOrder == emitted => \A i \in Idx : out[i] = i
Done == <>emitted
=============================================================================
