SPECIFICATION Spec
CONSTANTS
  Writers = {"L1", "L2", "HB"}
  Mode = "two"
  MaxFrames = 4
INVARIANT WellFormed
CHECK_DEADLOCK FALSE
