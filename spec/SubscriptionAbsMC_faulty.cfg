SPECIFICATION Spec
CONSTANTS
  Keys = {"c0/s1", "c0/s2", "c1/s1"}
  MaxEv = 2
  Faulty = TRUE
INVARIANTS ContractHolds QuietMeansDelivered
PROPERTIES EventuallyDelivered
CHECK_DEADLOCK FALSE
