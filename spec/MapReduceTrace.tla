-------------------------- MODULE MapReduceTrace --------------------------
(***************************************************************************)
(* Trace validation for C20: the observable events recorded from real runs *)
(* of common.AsyncMapReduce (harness-supplied map / reduce functions, the   *)
(* helper's return) must be a behaviour of MapReduceAbs.  Many runs are     *)
(* concatenated in one file; a Reset line starts a run of n items.          *)
(*                                                                         *)
(*   {"ev":"Reset","n":3,"run":17}                                         *)
(*   {"ev":"MapStart","i":0} {"ev":"MapEnd","i":0,"o":"ok"}                *)
(*   {"ev":"ReduceStart","i":0} {"ev":"ReduceEnd","i":0}                   *)
(*   {"ev":"Return","acc":[0,2],"errs":[1],"left":0}                       *)
(***************************************************************************)
EXTENDS MapReduceAbs, Json, IOUtils, TLC

Trace == ndJsonDeserialize(IOEnv.VERIF_TRACE)

VARIABLE l      \* next line of the trace

tvars == <<absvars, l>>

TraceInit == /\ l = 1
             /\ ist = <<>> /\ busy = -1 /\ order = <<>> /\ returned = TRUE /\ ret = NoRet

IsEvent(e) == l <= Len(Trace) /\ Trace[l].ev = e /\ l' = l + 1

SeqToSet(s) == {s[k] : k \in DOMAIN s}

TReset == /\ IsEvent("Reset")
          /\ ist' = [i \in 0 .. Trace[l].n - 1 |-> "idle"]
          /\ busy' = -1 /\ order' = <<>> /\ returned' = FALSE /\ ret' = NoRet

TMapStart    == IsEvent("MapStart")    /\ Trace[l].i \in DOMAIN ist /\ MapStart(Trace[l].i)
TMapEnd      == IsEvent("MapEnd")      /\ Trace[l].i \in DOMAIN ist /\ MapEnd(Trace[l].i, Trace[l].o)
TReduceStart == IsEvent("ReduceStart") /\ Trace[l].i \in DOMAIN ist /\ ReduceStart(Trace[l].i)
TReduceEnd   == IsEvent("ReduceEnd")   /\ Trace[l].i \in DOMAIN ist /\ ReduceEnd(Trace[l].i)
TReturn      == IsEvent("Return") /\ Return([acc  |-> Trace[l].acc,
                                             errs |-> SeqToSet(Trace[l].errs),
                                             left |-> Trace[l].left])

TraceNext == TReset \/ TMapStart \/ TMapEnd \/ TReduceStart \/ TReduceEnd \/ TReturn

TraceSpec == TraceInit /\ [][TraceNext]_tvars

(* every line consumed; on rejection print the first line that has no enabled action *)
TraceAccepted ==
   LET d == TLCGet("stats").diameter IN
   IF d - 1 = Len(Trace) THEN TRUE
   ELSE Print(<<"@@REJECTED-AT-LINE", d>>, FALSE)
=============================================================================
