---------------------- MODULE SubscriptionFramesTrace ----------------------
(* Direction B: the Write calls the gateway made on a client connection, in order, as classified  *)
(* by the wrapped connection (whole frame / header / payload).  The writer of a call is not       *)
(* logged: TLC chooses it; the trace is accepted iff some attribution keeps the wire well-formed.  *)
EXTENDS SubscriptionFrames, Json, IOUtils
Trace == ndJsonDeserialize(IOEnv.VERIF_TRACE)
VARIABLE l
tvars == <<vars, l>>
TInit == Init /\ l = 1
Kind(k) == l <= Len(Trace) /\ Trace[l].ev = "Write" /\ Trace[l].kind = k
(* a new connection: start again *)
TReset == /\ l <= Len(Trace) /\ Trace[l].ev = "Conn" /\ wire' = <<>> /\ mid' = {} /\ lock' = "none" /\ nframes' = 0 /\ l' = l + 1
TWhole == /\ Kind("frame") /\ \E w \in Writers : w \notin mid /\ wire' = Append(wire, <<w, "f">>) /\ UNCHANGED <<mid, lock, nframes>> /\ l' = l + 1
THeader == /\ Kind("hdr") /\ \E w \in Writers : w \notin mid /\ wire' = Append(wire, <<w, "h">>) /\ mid' = mid \cup {w} /\ UNCHANGED <<lock, nframes>> /\ l' = l + 1
TPayload == /\ Kind("payload") /\ \E w \in mid : wire' = Append(wire, <<w, "p">>) /\ mid' = mid \ {w} /\ UNCHANGED <<lock, nframes>> /\ l' = l + 1
TNext == TReset \/ TWhole \/ THeader \/ TPayload
TSpec == TInit /\ [][TNext]_tvars
(* some attribution of the calls to writers must reach the end of the trace with the wire intact *)
Accepted == l = Len(Trace) + 1 /\ WellFormed
NotAccepted == ~Accepted
=============================================================================
