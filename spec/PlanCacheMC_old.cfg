SPECIFICATION Spec
CONSTANTS
  Ops <- Pool
  KeyFields <- OldFields
  TTL = 3
  MaxLen = 2
INVARIANTS UsesRightPlan
CHECK_DEADLOCK FALSE
