---------------------------- MODULE Determinism ----------------------------
(***************************************************************************)
(* C13 - planning and responses are deterministic.  An observation of one  *)
(* execution of an operation is                                             *)
(*    [data, errors (as a set of messages), reqs (per service the bag of    *)
(*     sub-requests as a sorted sequence of "text | variables")]            *)
(* The contract: for one gateway and one (operation, fault plan) every      *)
(* execution yields the same observation - whatever the map iteration       *)
(* orders and the interleaving of the concurrent steps were.  The first     *)
(* observation of a key is remembered; a later one that differs is refused. *)
(***************************************************************************)
EXTENDS Integers, Sequences, TLC, Json, IOUtils

Trace == ndJsonDeserialize(IOEnv.VERIF_TRACE)

VARIABLES seen,   \* key -> first observation
          l
dvars == <<seen, l>>

Init == seen = <<>> /\ l = 1

Obs(e) == [data |-> e.data, errors |-> e.errors, reqs |-> e.reqs]

Same(k, o) == k \in DOMAIN seen => seen[k] = o

Refused(what) == Print(<<"@@REFUSED", l, what>>, TRUE)

Observe == /\ l <= Len(Trace) /\ Trace[l].ev = "Obs" /\ l' = l + 1
           /\ LET e == Trace[l] IN
              /\ (IF Same(e.key, Obs(e)) THEN TRUE
                  ELSE Refused(IF seen[e.key].data # e.data THEN "data"
                               ELSE IF seen[e.key].errors # e.errors THEN "errors" ELSE "reqs"))
              /\ seen' = IF e.key \in DOMAIN seen THEN seen ELSE seen @@ (e.key :> Obs(e))

(* a new gateway: observations of earlier gateways are forgotten *)
Reset == /\ l <= Len(Trace) /\ Trace[l].ev = "World" /\ l' = l + 1 /\ seen' = <<>>

Next == Observe \/ Reset
TraceSpec == Init /\ [][Next]_dvars

TraceAccepted ==
   LET d == TLCGet("stats").diameter IN
   IF d - 1 = Len(Trace) THEN TRUE ELSE Print(<<"@@REJECTED-AT-LINE", d>>, FALSE)
=============================================================================
