----------------------------- MODULE BatcherImpl -----------------------------
(***************************************************************************)
(* C11 - queryer.MultiOpQueryer.Query / queryBatch as written:             *)
(*   N <= m : one queryBatch over everything;                              *)
(*   N >  m : chunks = N \div m + 1 (the last one may be empty), run by     *)
(*            AsyncMapReduce (lemma MapReduceAbs: every chunk is mapped    *)
(*            concurrently, results are spliced serially in completion     *)
(*            order, any error makes the whole call fail);                 *)
(*   queryBatch: requests with file uploads are sent one by one as         *)
(*            multipart calls first, the rest in one JSON call whose       *)
(*            answers are placed through toFetchIndexes;                   *)
(*   splice:  tail = resp ++ acc[(i+1)m ..] if (i+1)m < N,                 *)
(*            acc  = acc[0 .. i*m) ++ tail                                 *)
(***************************************************************************)
EXTENDS Integers, Sequences, FiniteSets, TLC

CONSTANTS MaxN, MaxM, MaxFail, FileN   \* file masks are explored for N <= FileN

VARIABLES n, mm, sent, open, done, returned, ret,      \* BatcherAbs observation state
          files,      \* set of requests that carry an upload
          cst,        \* cst[c] \in {"run","ok","fail","spliced","collected"}
          pos,        \* pos[c] = number of completed calls of chunk c's program
          infl,       \* infl[c] = id of the in-flight call of chunk c, or -1
          cres,       \* cres[c] = results of queryBatch for chunk c (sequence over the chunk's slice)
          acc,        \* the accumulator of the reduce (length N)
          nfail,
          act

absv == <<n, mm, sent, open, done, returned, ret>>
vars == <<absv, files, cst, pos, infl, cres, acc, nfail, act>>

Abs == INSTANCE BatcherAbs

Single == n <= mm
NChunks == IF Single THEN 1 ELSE (n \div mm) + 1
Chunks == 0 .. NChunks - 1
Lo(c) == IF Single THEN 0 ELSE c * mm
Hi(c) == IF Single THEN n ELSE (IF (c + 1) * mm > n THEN n ELSE (c + 1) * mm)    \* exclusive
Slice(c) == [k \in 1 .. Hi(c) - Lo(c) |-> Lo(c) + k - 1]                         \* request ids of chunk c
SelectSeq2(s, P(_)) == SelectSeq(s, P)
IsFile(i) == i \in files
FileReqs(c) == SelectSeq(Slice(c), IsFile)
NotFile(i) == i \notin files
PlainReqs(c) == SelectSeq(Slice(c), NotFile)
(* the program of a chunk: one call per file request, then one call for the rest (if any) *)
Prog(c) == [k \in 1 .. Len(FileReqs(c)) |-> <<FileReqs(c)[k]>>] \o (IF Len(PlainReqs(c)) > 0 THEN <<PlainReqs(c)>> ELSE <<>>)

Nil == -1

Init == /\ n \in 0 .. MaxN /\ mm \in 1 .. MaxM
        /\ files \in (IF n <= FileN THEN SUBSET (0 .. n - 1) ELSE {{}})
        /\ sent = [i \in 0 .. n - 1 |-> 0] /\ open = {} /\ done = <<>> /\ returned = FALSE
        /\ ret = [ok |-> TRUE, res |-> <<>>]
        /\ cst = [c \in Chunks |-> "run"]
        /\ pos = [c \in Chunks |-> 0]
        /\ infl = [c \in Chunks |-> -1]
        /\ cres = [c \in Chunks |-> [k \in 1 .. Hi(c) - Lo(c) |-> Nil]]
        /\ acc = [k \in 1 .. n |-> Nil]
        /\ nfail = 0
        /\ act = <<"Init", n, mm, files>>

(* a chunk whose program is finished (or empty) has its queryBatch result *)
Finish(c) == /\ cst[c] = "run" /\ infl[c] = -1 /\ pos[c] = Len(Prog(c))
             /\ cst' = [cst EXCEPT ![c] = "ok"]
             /\ act' = <<"Finish", c>>
             /\ UNCHANGED <<absv, files, pos, infl, cres, acc, nfail>>

(* Calls are identified by (chunk, position).  Partial-order reduction: Send(c) commutes with   *)
(* every action of the other chunks and Return is disabled while c runs, so sends are taken     *)
(* eagerly and lowest chunk first; the interleavings that matter - completion and splice order  *)
(* - stay free.                                                                                  *)
CanSend(c) == cst[c] = "run" /\ infl[c] = -1 /\ pos[c] < Len(Prog(c))
CallId(c) == c * (MaxN + 1) + pos[c]
Send(c) == /\ CanSend(c) /\ \A d \in Chunks : d < c => ~CanSend(d)
           /\ LET mem == Prog(c)[pos[c] + 1] IN
              /\ Abs!EffHttp(CallId(c), mem)
              /\ act' = <<"Send", c, CallId(c), mem, IsFile(mem[1])>>
           /\ infl' = [infl EXCEPT ![c] = CallId(c)]
           /\ UNCHANGED <<files, cst, pos, cres, acc, nfail>>

(* place the answers of call `mem` into the chunk's result (files: own slot; batch: toFetchIndexes) *)
Place(c, mem) == [k \in DOMAIN cres[c] |-> IF \E j \in DOMAIN mem : mem[j] = Lo(c) + k - 1 THEN Lo(c) + k - 1 ELSE cres[c][k]]

CompleteOk(c) == /\ infl[c] # -1
                 /\ LET mem == Prog(c)[pos[c] + 1] IN cres' = [cres EXCEPT ![c] = Place(c, mem)]
                 /\ Abs!EffHttpDone(infl[c], "ok")
                 /\ act' = <<"Complete", c, infl[c], "ok">>
                 /\ pos' = [pos EXCEPT ![c] = pos[c] + 1]
                 /\ infl' = [infl EXCEPT ![c] = -1]
                 /\ UNCHANGED <<files, cst, acc, nfail>>

CompleteFail(c) == /\ infl[c] # -1 /\ nfail < MaxFail
                   /\ Abs!EffHttpDone(infl[c], "fail")
                   /\ act' = <<"Complete", c, infl[c], "fail">>
                   /\ cst' = [cst EXCEPT ![c] = "fail"]       \* queryBatch returns the error at once
                   /\ infl' = [infl EXCEPT ![c] = -1]
                   /\ nfail' = nfail + 1
                   /\ UNCHANGED <<files, pos, cres, acc>>

SubSeq0(s, a, b) == SubSeq(s, a + 1, b)    \* Go slice s[a:b]

(* the reduce function of Query (only when N > m); one at a time by MapReduceAbs *)
Splice(c) == /\ ~Single /\ cst[c] = "ok"
             /\ LET tail == IF (c + 1) * mm < n THEN cres[c] \o SubSeq0(acc, (c + 1) * mm, Len(acc)) ELSE cres[c]
                IN acc' = SubSeq0(acc, 0, c * mm) \o tail
             /\ cst' = [cst EXCEPT ![c] = "spliced"]
             /\ act' = <<"Splice", c>>
             /\ UNCHANGED <<absv, files, pos, infl, cres, nfail>>

Collect(c) == /\ ~Single /\ cst[c] = "fail"
              /\ cst' = [cst EXCEPT ![c] = "collected"]
              /\ act' = <<"Collect", c>>
              /\ UNCHANGED <<absv, files, pos, infl, cres, acc, nfail>>

ReturnMulti == /\ ~Single /\ ~returned /\ \A c \in Chunks : cst[c] \in {"spliced", "collected"}
               /\ LET r == IF \E c \in Chunks : cst[c] = "collected" THEN [ok |-> FALSE, res |-> <<>>] ELSE [ok |-> TRUE, res |-> acc]
                  IN Abs!EffReturn(r) /\ act' = <<"Return", r.ok, r.res>>
               /\ UNCHANGED <<files, cst, pos, infl, cres, acc, nfail>>

ReturnSingle == /\ Single /\ ~returned /\ cst[0] \in {"ok", "fail"}
                /\ LET r == IF cst[0] = "fail" THEN [ok |-> FALSE, res |-> <<>>] ELSE [ok |-> TRUE, res |-> cres[0]]
                   IN Abs!EffReturn(r) /\ act' = <<"Return", r.ok, r.res>>
                /\ UNCHANGED <<files, cst, pos, infl, cres, acc, nfail>>

NoSend == \A c \in Chunks : ~CanSend(c)
Next == \/ \E c \in Chunks : Send(c)
        \/ /\ NoSend
           /\ \/ \E c \in Chunks : Finish(c) \/ CompleteOk(c) \/ CompleteFail(c) \/ Splice(c) \/ Collect(c)
              \/ ReturnMulti \/ ReturnSingle

Spec == Init /\ [][Next]_vars
FairSpec == Spec /\ WF_vars(Next)

-----------------------------------------------------------------------------
(* the design refines the contract, step by step *)
StepOK == [][ CASE act'[1] = "Send"     -> Abs!Http(act'[3], act'[4])
                [] act'[1] = "Complete" -> Abs!HttpDone(act'[3], act'[4])
                [] act'[1] = "Return"   -> Abs!Return([ok |-> act'[2], res |-> act'[3]])
                [] OTHER                -> UNCHANGED absv ]_vars
Quiet == Abs!BQuiet
NoAct == <<absv, files, cst, pos, infl, cres, acc, nfail>>    \* VIEW for design-level runs
Done == returned
Termination == <>Done
(* arithmetic facts the splice relies on *)
AccLen == Len(acc) = n
ChunksCover == UNION {{Slice(c)[k] : k \in DOMAIN Slice(c)} : c \in Chunks} = 0 .. n - 1
ChunkSize == \A c \in Chunks : Hi(c) - Lo(c) <= mm /\ Hi(c) >= Lo(c)
=============================================================================
