--------------------------- MODULE SubscriptionAbs ---------------------------
(***************************************************************************)
(* C17 - the delivery contract of subscriptions, over what the neighbours  *)
(* observe: the upstream services (events they emit, per subscription) and *)
(* the clients (frames they read).  A subscription is identified by        *)
(* (connection, id).  For every subscription the frames the client reads   *)
(* under its id are, in order, one per emitted event:                      *)
(*   data event    data = Norm(Ref(world with the event's value at the     *)
(*                 subscription's root field, operation)) - i.e. exactly   *)
(*                 the answer of a query (C01), stitched over the other    *)
(*                 services, helper fields removed - and no errors         *)
(*   error events  the upstream's error messages are forwarded             *)
(* and when the system is quiet every emitted event has been delivered.    *)
(* Stitch is a parameter so that the contract can be model-checked on an   *)
(* abstract payload domain and bound to GQL!Ref for trace validation.      *)
(***************************************************************************)
EXTENDS Integers, Sequences, FiniteSets, TLC

CONSTANT Stitch(_, _, _)  \* (world, subscription, event) -> the data the client must see

VARIABLES world,     \* schemas and data of the services
          subs,      \* key -> the subscription (operation, ...)
          emitted,   \* key -> sequence of events the owning service emitted
          nframes    \* key -> number of frames the client has read under this key

avars == <<world, subs, emitted, nframes>>

AInit == subs = <<>> /\ emitted = <<>> /\ nframes = <<>>

Has0(f, k) == k \in DOMAIN f
Put(f, k, v) == [x \in DOMAIN f \cup {k} |-> IF x = k THEN v ELSE f[x]]

Start(key, sub) == /\ ~Has0(subs, key)
                   /\ subs' = Put(subs, key, sub) /\ emitted' = Put(emitted, key, <<>>) /\ nframes' = Put(nframes, key, 0)
                   /\ UNCHANGED world

Emit(key, ev) == /\ Has0(subs, key)
                 /\ emitted' = [emitted EXCEPT ![key] = Append(@, ev)]
                 /\ UNCHANGED <<world, subs, nframes>>

SeqRange(s) == {s[i] : i \in DOMAIN s}

(* what a frame read under `key` must look like *)
FrameOK(key, fr) ==
   /\ Has0(subs, key)                                   \* never under an id nobody subscribed with
   /\ nframes[key] < Len(emitted[key])                  \* never more frames than events
   /\ fr.type = "data" /\ fr.bad = ""
   /\ LET ev == emitted[key][nframes[key] + 1] IN       \* in emission order
      CASE ev.kind = "data" -> /\ fr.errors = <<>> /\ fr.hasData
                               /\ fr.data = Stitch(world, subs[key], ev)
        [] OTHER -> SeqRange(ev.errs) \subseteq SeqRange(fr.errors)   \* upstream errors are forwarded as errors

FrameEff(key) == /\ nframes' = IF Has0(nframes, key) THEN [nframes EXCEPT ![key] = @ + 1] ELSE nframes
                 /\ UNCHANGED <<world, subs, emitted>>

Frame(key, fr) == FrameOK(key, fr) /\ FrameEff(key)

(* the system is quiet: everything emitted has been delivered, exactly once *)
AllDelivered == \A k \in DOMAIN subs : nframes[k] = Len(emitted[k])
Undelivered == {k \in DOMAIN subs : nframes[k] # Len(emitted[k])}
=============================================================================
