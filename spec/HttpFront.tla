----------------------------- MODULE HttpFront -----------------------------
(***************************************************************************)
(* C07 - every HTTP request gets a well-formed response; none can crash    *)
(* the gateway.  Requests are described by SHAPE (a grammar over content   *)
(* type, JSON body shape, member classes, batch element classes, multipart *)
(* layout and file-map path classes, query text classes), not by bytes;    *)
(* Outcome(shape) is what the property allows:                             *)
(*    "422"      the request cannot be decoded: status 422, JSON body with *)
(*               errors (and data null)                                    *)
(*    "invalid"  decodable, but the operation is syntactically or          *)
(*               semantically invalid: status 200, errors, data null       *)
(*    "ok"       status 200, JSON with data and/or errors                  *)
(* and in every case: the handler returns (no panic, no hang) and the next *)
(* request (a canary) is served.  For a batch the outcome is per element.  *)
(* TLC enumerates the grammar (Shapes); the Go driver renders each shape   *)
(* to bytes (several renderings per class), sends it to the real handler   *)
(* and records the answer, which HttpFrontTrace checks against Outcome.    *)
(***************************************************************************)
EXTENDS Integers, Sequences, FiniteSets, TLC, Json

ContentTypes == {"json", "jsonparams", "textplain", "none", "other"}
SimpleBodies == {"empty", "garbage", "null", "number", "string", "emptyobject", "emptyarray", "truncated"}

QueryClasses == {"valid", "anonymous", "validmutation", "syntaxerror", "unknownfield", "manyopsnoname", "manyopsrightname", "wrongopname",
                 "roottypename", "introspection", "introspectionmixed", "introspectionvars", "lonelyinterface"}
QMember == {"missing", "empty", "number", "null"} \cup QueryClasses
VMember == {"absent", "null", "object", "string", "array"}
OMember == {"absent", "null", "string", "number"}

ElemClasses == {"valid", "valid2", "invalidquery", "introspection", "null", "number", "nestedarray", "missingquery", "string"}

PathClasses == {"ok", "oknested", "oklist", "novariables", "tooshort", "unknownkey", "throughnonnull", "duplicate",
                "listindexnotnumeric", "listindexoutofrange", "listindexnegative", "listindexhuge", "listindexmissing",
                "batchindexmissing", "batchindexnotnumeric", "batchindexoutofrange", "batchindexnegative", "batchindexhuge", "empty"}
OpsClasses == {"missing", "garbage", "single", "batch"}
MapClasses == {"missing", "garbage", "emptymap", "paths"}

Shapes ==
   \* F1: content type x simple body
   [f : {"simple"}, ct : ContentTypes, body : SimpleBodies]
   \cup \* F2: one JSON object, every combination of member classes
   [f : {"object"}, ct : {"json", "textplain"}, q : QMember, vars : VMember, opn : OMember]
   \cup \* F3: arrays of 1..3 elements
   [f : {"array"}, ct : {"json"}, elems : UNION {[1 .. n -> ElemClasses] : n \in 1 .. 3}]
   \cup \* F4: multipart layouts
   [f : {"multipart"}, ops : OpsClasses, map : MapClasses, path : PathClasses, file : BOOLEAN]

(* ---------------------------------------------------------------- what the property allows *)
(* whether the operation is invalid depends on the text class and on the operationName sent with it *)
InvalidQuery(q, opn) == \/ q \in {"syntaxerror", "unknownfield", "manyopsnoname"}
                        \/ q = "manyopsrightname" /\ opn # "string"      \* two operations, no name given
                        \/ q = "wrongopname" /\ opn = "string"            \* a name that is not in the document
                        \/ q = "anonymous" /\ opn = "string"              \* a name, but the only operation has none

ElemDecodable(e) == e \in {"valid", "valid2", "invalidquery", "introspection"}
PathOK(p, batch) ==
   IF batch THEN p \in {"ok", "oknested", "oklist"}      \* rendered with the batch index in front
   ELSE p \in {"ok", "oknested", "oklist"}
BatchPath(p) == p \in {"batchindexmissing", "batchindexnotnumeric", "batchindexoutofrange", "batchindexnegative", "batchindexhuge"}

Outcome(s) ==
   CASE s.f = "simple" ->
           IF s.ct = "other" THEN [status |-> "422"]
           ELSE IF s.body = "emptyarray" THEN [status |-> "200", batch |-> TRUE, elems |-> <<>>]
           ELSE [status |-> "422"]
     [] s.f = "object" ->
           IF s.q \in {"missing", "empty", "number", "null"} \/ s.vars \in {"string", "array"} \/ s.opn = "number"
           THEN [status |-> "422"]
           ELSE [status |-> "200", batch |-> FALSE,
                 elems |-> << IF InvalidQuery(s.q, s.opn) THEN "invalid" ELSE "ok" >>]
     [] s.f = "array" ->
           IF \E i \in DOMAIN s.elems : ~ElemDecodable(s.elems[i]) THEN [status |-> "422"]
           ELSE [status |-> "200", batch |-> TRUE,
                 elems |-> [i \in DOMAIN s.elems |-> IF s.elems[i] = "invalidquery" THEN "invalid" ELSE "ok"]]
     [] s.f = "multipart" ->
           IF s.ops \in {"missing", "garbage"} \/ s.map # "paths" \/ ~s.file THEN [status |-> "422"]
           ELSE IF s.ops = "single" /\ ~(PathOK(s.path, FALSE) \/ s.path = "batchindexmissing") THEN [status |-> "422"]
           ELSE IF s.ops = "batch" /\ ~(PathOK(s.path, TRUE)) THEN [status |-> "422"]
           ELSE [status |-> "200", batch |-> s.ops = "batch",
                 elems |-> IF s.ops = "batch" THEN <<"ok", "ok">> ELSE <<"ok">>]

(* an observed answer a = [panic, hang, status, json, batch, elems: seq of [hasData, dataNull, hasErrors, wellformed], canary] *)
ElemOK(want, e) ==
   /\ e.wellformed                                   \* an object with data and/or errors, nothing else
   /\ want = "invalid" => e.hasErrors /\ e.dataNull

(* a request obtained by random byte mutations of a rendered shape has no predicted class: only *)
(* the part of the property that holds for ALL bodies is demanded                               *)
FuzzOK(a) == /\ ~a.panic /\ ~a.hang /\ a.canary /\ a.json
             /\ a.status \in {200, 422}
             /\ \A i \in DOMAIN a.elems : a.elems[i].wellformed
             /\ a.status = 422 => (Len(a.elems) = 1 /\ a.elems[1].hasErrors)

AnswerOK(s, a) ==
   IF s.f = "fuzz" THEN FuzzOK(a) ELSE
   LET o == Outcome(s) IN
   /\ ~a.panic /\ ~a.hang                            \* the handler returns
   /\ a.canary                                       \* and the next request is served
   /\ a.json                                         \* the answer is JSON
   /\ IF o.status = "422"
      THEN a.status = 422 /\ Len(a.elems) = 1 /\ a.elems[1].hasErrors /\ a.elems[1].wellformed
      ELSE /\ a.status = 200
           /\ a.batch = o.batch
           /\ Len(a.elems) = Len(o.elems)
           /\ \A i \in DOMAIN o.elems : ElemOK(o.elems[i], a.elems[i])

(* ---------------------------------------------------------------- enumeration (direction A) *)
VARIABLE shape
Init == shape \in Shapes /\ PrintT("@@" \o ToJson([shape |-> shape, outcome |-> Outcome(shape)]))
Next == UNCHANGED shape
(* sanity: every shape has an outcome of a known form *)
OutcomeTotal == Outcome(shape).status \in {"422", "200"}
=============================================================================
