------------------------------- MODULE Merge -------------------------------
(***************************************************************************)
(* C03, C04, C05 - the contract of schema merging, declaratively:          *)
(*   Mergeable(S)  - no conflict among the service schemas S (a sequence), *)
(*                   exactly the conflicts the property names              *)
(*   Merged(S)     - the union schema                                       *)
(*   RoutesOK(S,r) - the routing table names a real owner for every field  *)
(* Nothing here depends on the order of S: order independence of the real  *)
(* merger is checked by validating its result for every permutation        *)
(* against these order-free definitions.                                    *)
(* A service schema: [url, types: name -> [kind, node, fields: name ->      *)
(* [ty, args], values, members, impl], roots: Query/Mutation/Subscription   *)
(* -> fields, hasNode, directives] (harness/mschema).                       *)
(***************************************************************************)
EXTENDS Integers, Sequences, FiniteSets, TLC

Has(r, k) == k \in DOMAIN r
RootNames == {"Query", "Mutation", "Subscription"}
SeqSet(s) == {s[i] : i \in DOMAIN s}
Sig(f) == [ty |-> f.ty, args |-> f.args]

TypeNames(S) == UNION {DOMAIN S[i].types : i \in DOMAIN S}
Decl(S, T) == {i \in DOMAIN S : Has(S[i].types, T)}
Ty(S, i, T) == S[i].types[T]
FNames(S, i, T) == DOMAIN S[i].types[T].fields

(* ------------------------------------------------------------ conflicts *)
RootDup(S) == \E r \in RootNames, i, j \in DOMAIN S :
                 i # j /\ (DOMAIN S[i].roots[r] \cap DOMAIN S[j].roots[r]) # {}
KindClash(S) == \E T \in TypeNames(S) : \E i, j \in Decl(S, T) : Ty(S, i, T).kind # Ty(S, j, T).kind
NodeClash(S) == \E T \in TypeNames(S) : \E i, j \in Decl(S, T) :
                   Ty(S, i, T).kind = "OBJECT" /\ Ty(S, j, T).kind = "OBJECT" /\ Ty(S, i, T).node # Ty(S, j, T).node
NodeFieldDup(S) == \E T \in TypeNames(S) : \E i, j \in Decl(S, T) :
                      i # j /\ Ty(S, i, T).kind = "OBJECT" /\ Ty(S, i, T).node /\ (FNames(S, i, T) \cap FNames(S, j, T)) # {}
FieldedKinds == {"OBJECT", "INPUT_OBJECT", "INTERFACE"}
PlainPartial(S) == \E T \in TypeNames(S) : \E i, j \in Decl(S, T) :
                      /\ i # j /\ Ty(S, i, T).kind \in FieldedKinds /\ ~Ty(S, i, T).node
                      /\ (FNames(S, i, T) \cap FNames(S, j, T)) # {}
                      /\ FNames(S, i, T) # FNames(S, j, T)
SigClash(S) == \E T \in TypeNames(S) : \E i, j \in Decl(S, T) :
                  /\ i # j /\ Ty(S, i, T).kind \in FieldedKinds
                  /\ \E f \in FNames(S, i, T) \cap FNames(S, j, T) : Sig(Ty(S, i, T).fields[f]) # Sig(Ty(S, j, T).fields[f])
UnionClash(S) == \E T \in TypeNames(S) : \E i, j \in Decl(S, T) :
                    Ty(S, i, T).kind = "UNION" /\ Ty(S, j, T).kind = "UNION" /\ SeqSet(Ty(S, i, T).members) # SeqSet(Ty(S, j, T).members)

Conflicts(S) == {c \in {"RootDup", "KindClash", "NodeClash", "NodeFieldDup", "PlainPartial", "SigClash", "UnionClash"} :
                   CASE c = "RootDup" -> RootDup(S) [] c = "KindClash" -> KindClash(S) [] c = "NodeClash" -> NodeClash(S)
                     [] c = "NodeFieldDup" -> NodeFieldDup(S) [] c = "PlainPartial" -> PlainPartial(S)
                     [] c = "SigClash" -> SigClash(S) [] c = "UnionClash" -> UnionClash(S)}
Mergeable(S) == Conflicts(S) = {}

(* ------------------------------------------------------------ the union (for mergeable S) *)
First(S, T) == CHOOSE i \in Decl(S, T) : \A j \in Decl(S, T) : i <= j
MergedType(S, T) ==
   [kind    |-> Ty(S, First(S, T), T).kind,
    node    |-> \E i \in Decl(S, T) : Ty(S, i, T).node,
    fields  |-> [f \in UNION {FNames(S, i, T) : i \in Decl(S, T)} |->
                   Sig(Ty(S, CHOOSE i \in Decl(S, T) : f \in FNames(S, i, T), T).fields[f])],
    values  |-> UNION {SeqSet(Ty(S, i, T).values) : i \in Decl(S, T)},
    members |-> UNION {SeqSet(Ty(S, i, T).members) : i \in Decl(S, T)},
    impl    |-> UNION {SeqSet(Ty(S, i, T).impl) : i \in Decl(S, T)}]
MergedRoot(S, r) == [f \in UNION {DOMAIN S[i].roots[r] : i \in DOMAIN S} |->
                        Sig(S[CHOOSE i \in DOMAIN S : f \in DOMAIN S[i].roots[r]].roots[r][f])]
Merged(S) == [types |-> [T \in TypeNames(S) |-> MergedType(S, T)],
              roots |-> [r \in RootNames |-> MergedRoot(S, r)],
              hasNode |-> \E i \in DOMAIN S : S[i].hasNode,
              directives |-> [d \in UNION {DOMAIN S[i].directives : i \in DOMAIN S} |->
                                 S[CHOOSE i \in DOMAIN S : d \in DOMAIN S[i].directives].directives[d]]]

(* the same view of a schema the real merger produced (lists -> sets, deprecation dropped) *)
ViewType(t) == [kind |-> t.kind, node |-> t.node, fields |-> [f \in DOMAIN t.fields |-> Sig(t.fields[f])],
                values |-> SeqSet(t.values), members |-> SeqSet(t.members), impl |-> SeqSet(t.impl)]
View(sch) == [types |-> [T \in DOMAIN sch.types |-> ViewType(sch.types[T])],
              roots |-> [r \in RootNames |-> [f \in DOMAIN sch.roots[r] |-> Sig(sch.roots[r][f])]],
              hasNode |-> sch.hasNode,
              directives |-> sch.directives]

(* ------------------------------------------------------------ routing (C04) *)
Declares(S, i, T, f) ==
   IF T \in RootNames THEN f \in DOMAIN S[i].roots[T]
   ELSE Has(S[i].types, T) /\ f \in FNames(S, i, T)
Contributes(S, i) == \/ \E r \in RootNames : DOMAIN S[i].roots[r] # {}
                     \/ \E T \in DOMAIN S[i].types : S[i].types[T].kind = "OBJECT" /\ S[i].types[T].fields # <<>>
RoutesOK(S, r) ==
   LET M == Merged(S)
       objs == {T \in DOMAIN M.types : M.types[T].kind = "OBJECT"}
   IN \* every root field goes to the one service that declared it
      /\ \A rt \in RootNames : \A f \in DOMAIN M.roots[rt] :
            /\ Has(r.routes, rt) /\ Has(r.routes[rt], f)
            /\ \E i \in DOMAIN S : S[i].url = r.routes[rt][f] /\ Declares(S, i, rt, f)
      \* every other field of every object type goes to a service that declares it on that type
      /\ \A T \in objs : \A f \in DOMAIN M.types[T].fields :
            /\ Has(r.routes, T) /\ Has(r.routes[T], f)
            /\ \E i \in DOMAIN S : S[i].url = r.routes[T][f] /\ Declares(S, i, T, f)
      \* no phantom routes
      /\ \A T \in DOMAIN r.routes : \A f \in DOMAIN r.routes[T] :
            \/ T \in RootNames /\ f \in DOMAIN M.roots[T]
            \/ T \in objs /\ f \in DOMAIN M.types[T].fields
      \* stitchable by id iff it implements Node
      /\ \A T \in objs : (T \in SeqSet(r.nodeTypes)) <=> M.types[T].node
      /\ \A T \in SeqSet(r.nodeTypes) : T \in objs
      \* the routed services are exactly those that contributed fields
      /\ SeqSet(r.urls) = {S[i].url : i \in {j \in DOMAIN S : Contributes(S, j)}}
=============================================================================
