----------------------------- MODULE UploadGen -----------------------------
EXTENDS Upload
VARIABLE lay
GInit == /\ lay \in Layouts /\ PrintT("@@" \o ToJson(lay))
         /\ tree = [x \in SharedLeaves |-> "U"] /\ todo = [p \in Procs |-> {}] /\ found = [p \in Procs |-> {}]
GNext == UNCHANGED <<lay, evars>>
=============================================================================
