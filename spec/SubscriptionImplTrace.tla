----------------------- MODULE SubscriptionImplTrace -----------------------
(***************************************************************************)
(* C18, direction B: executions recorded from the real gateway in the      *)
(* free-running stress (several connections, several subscriptions,        *)
(* nothing forced) are checked against SubscriptionImpl.                   *)
(*                                                                         *)
(* One record per subscription.  The `verif` hook points give, for each of *)
(* the subscription's own goroutines (L = Listen, C = Close, R = upstream  *)
(* reader, K = upstream closer), the exact sequence of program points it   *)
(* went through - per goroutine the order is certain, across goroutines it *)
(* is not (a hook fires after the step it reports, so a global log order   *)
(* would guess).  The trace specification therefore carries one position   *)
(* per goroutine: an action of SubscriptionImpl that moves a goroutine's   *)
(* pc must move it to the next logged point of that goroutine.  TLC        *)
(* searches for an interleaving; a record is accepted iff some behaviour   *)
(* of SubscriptionImpl consumes all four logs.  The connection handler H   *)
(* serves several subscriptions and is not logged per subscription: its    *)
(* steps are inferred (only the client messages that concern the           *)
(* subscription are given, as the script).                                 *)
(***************************************************************************)
EXTENDS SubscriptionImpl, Json, IOUtils

VARIABLES tid, li, ci, ri, ki
tvars == <<vars, tid, li, ci, ri, ki>>

Traces == ndJsonDeserialize(IOEnv.SUBTRACE_FILE)
NT == Len(Traces)

TNone == {}
TBool == {FALSE}

ASSUME \A i \in 1..NT : TLCSet(i, 0)

TraceInit ==
    /\ tid \in 1..NT
    /\ cscript = Traces[tid].cs /\ uscript = Traces[tid].us
    /\ cpos = 0 /\ upos = 0
    /\ hpc = "read" /\ lpc = "select" /\ rpc = "read" /\ inDict = TRUE
    /\ act = <<"Init", cscript, uscript, FALSE>>
    /\ cpc = "none" /\ kpc = "wait"
    /\ closeReq = FALSE /\ qClosed = FALSE
    /\ clientGone = FALSE /\ upClosed = FALSE /\ delivered = 0 /\ emitted = 0
    /\ subEnd = FALSE /\ connEnd = FALSE
    /\ li = 0 /\ ci = 0 /\ ri = 0 /\ ki = 0

(* a goroutine that moves, moves to its next logged point *)
Follows(pc, pcn, i, inx, log) ==
    IF pcn = pc THEN inx = i
                ELSE /\ i < Len(log) /\ log[i + 1] = pcn /\ inx = i + 1

TraceNext ==
    /\ Next
    /\ tid' = tid
    /\ Follows(lpc, lpc', li, li', Traces[tid].L)
    /\ Follows(cpc, cpc', ci, ci', Traces[tid].C)
    /\ Follows(rpc, rpc', ri, ri', Traces[tid].R)
    /\ Follows(kpc, kpc', ki, ki', Traces[tid].K)

TraceSpec == TraceInit /\ [][TraceNext]_tvars

Consumed == /\ li = Len(Traces[tid].L) /\ ci = Len(Traces[tid].C)
            /\ ri = Len(Traces[tid].R) /\ ki = Len(Traces[tid].K)

(* When the run was left to settle after every client had gone, the subscription has ended and, *)
(* C18, nothing of it may be left: the state that explains the logs must be AllGone.             *)
Accepted == Consumed /\ (Traces[tid].settled => AllGone)

(* bookkeeping for the verdict: register tid holds the furthest progress, 1000000 once accepted *)
Progress == li + ci + ri + ki
Watch == /\ IF Accepted THEN TLCSet(tid, 1000000)
                        ELSE (TLCGet(tid) >= Progress \/ TLCSet(tid, Progress))
         /\ TRUE

Report == /\ \A i \in 1..NT :
               PrintT(<<"SUBTRACE", Traces[i].key, IF TLCGet(i) = 1000000 THEN "accepted" ELSE "refused", TLCGet(i),
                        Len(Traces[i].L) + Len(Traces[i].C) + Len(Traces[i].R) + Len(Traces[i].K)>>)

(* the invariants of the model hold in every state that explains a prefix of the logs *)
TraceInv == TypeOK /\ DeliveredPrefix
=============================================================================
