----------------------------- MODULE ExecMerge -----------------------------
(***************************************************************************)
(* C13 (and C01): the results of the calls of one depth of the plan are    *)
(* merged into the response in COMPLETION order (executor/                 *)
(* depth_executor.go: the calls to the services of one depth run in        *)
(* parallel; depth_executor_manager.go merge()).  The response must not    *)
(* depend on that order.                                                   *)
(* Each call answers some of the keys of the object it is merged into with *)
(* null (the service does not know the entity) or with an object carrying  *)
(* the fields that service owns.                                           *)
(*   Rule = "lastwins"   what arrives later replaces what is there unless  *)
(*                       both are objects (the code before fix 38d5888)    *)
(*   Rule = "nullkeeps"  a null never replaces an answer (the code now)    *)
(* TLC explores every completion order and every combination of answers;   *)
(* Orders (a second use of the module) prints the completion orders of n   *)
(* calls, which the harness forces on the real executor through gated      *)
(* service calls.                                                          *)
(***************************************************************************)
EXTENDS Integers, Sequences, FiniteSets, TLC, Json

CONSTANTS Calls, Keys, Rule

Absent == [t |-> "absent", obj |-> {}]
Null == [t |-> "null", obj |-> {}]
Obj(S) == [t |-> "obj", obj |-> S]           \* an object with the fields S
IsObj(v) == v.t = "obj"

Answers == [Calls -> [Keys -> {Absent, Null} \cup {Obj({c}) : c \in Calls}]]

(* one fixed answer (for enumerating completion orders only) *)
OneAnswer == {[c \in Calls |-> [k \in Keys |-> Null]]}

VARIABLES answers, pending, result, order
vars == <<answers, pending, result, order>>

AnswerSpace == Answers
Init == /\ answers \in {a \in AnswerSpace : \A c \in Calls, k \in Keys : IsObj(a[c][k]) => a[c][k] = Obj({c})}
        /\ pending = Calls /\ result = [k \in Keys |-> Absent] /\ order = <<>>

MergeVal(old, new) ==
   IF new = Absent THEN old
   ELSE IF IsObj(old) /\ IsObj(new) THEN Obj(old.obj \cup new.obj)
   ELSE IF Rule = "nullkeeps" /\ new = Null /\ old # Absent THEN old
   ELSE new

Complete(c) == /\ c \in pending
               /\ pending' = pending \ {c}
               /\ result' = [k \in Keys |-> MergeVal(result[k], answers[c][k])]
               /\ order' = Append(order, c)
               /\ UNCHANGED answers

Next == \E c \in Calls : Complete(c)
Spec == Init /\ [][Next]_vars

(* what the response must be, whatever the order: an object if any service answered one (with *)
(* the fields of all of them), else null if any answered null                                  *)
Expected(k) ==
   LET objs == {c \in Calls : IsObj(answers[c][k])} IN
   IF objs # {} THEN Obj(objs)
   ELSE IF \E c \in Calls : answers[c][k] = Null THEN Null ELSE Absent

OrderIndependent == pending = {} => \A k \in Keys : result[k] = Expected(k)

(* ---------------------------------------------------------------- the completion orders of n calls *)
PrintOrder == pending = {} => PrintT("@@" \o ToJson([order |-> order]))
=============================================================================
