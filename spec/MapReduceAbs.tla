--------------------------- MODULE MapReduceAbs ---------------------------
(***************************************************************************)
(* C20 - the contract of the parallel map/reduce helper, stated over what  *)
(* a caller can observe: calls of its own map and reduce functions and the *)
(* return of the helper.  No implementation vocabulary.                     *)
(*                                                                         *)
(* Events (one per action):                                                *)
(*   MapStart(i)    the map function is entered for item i                 *)
(*   MapEnd(i, o)   it returns, o = "ok" | "err"                           *)
(*   ReduceStart(i) the reduce function is entered with item i's result    *)
(*   ReduceEnd(i)   it returns                                             *)
(*   Return(r)      the helper returns; r.acc = the fold as a sequence of  *)
(*                  items in the order they were reduced, r.errs = the set *)
(*                  of items whose error was returned, r.left = number of  *)
(*                  goroutines started by the helper that are still alive  *)
(***************************************************************************)
EXTENDS Integers, Sequences, FiniteSets

CONSTANT N                       \* number of items; items are 0..N-1
Items == 0 .. N - 1

VARIABLES ist,       \* ist[i] \in {"idle","mapping","ok","err","reducing","reduced"}
          busy,      \* item whose reduce call is open, or -1
          order,     \* items in the order their reduce calls completed
          returned,  \* the helper has returned
          ret        \* what it returned (meaningful once returned)

absvars == <<ist, busy, order, returned, ret>>

NoRet == [acc |-> <<>>, errs |-> {}, left |-> 0]

AbsInit == /\ ist = [i \in Items |-> "idle"]
           /\ busy = -1
           /\ order = <<>>
           /\ returned = FALSE
           /\ ret = NoRet

-----------------------------------------------------------------------------
(* The item set of a run is DOMAIN ist, so that a trace specification can   *)
(* re-initialise the contract for runs of different sizes.                  *)
(*                                                                         *)
(* Effects (what an event does to the observation state) and preconditions *)
(* (when the contract allows it) are kept apart so that an implementation- *)
(* shaped spec can apply the effect unconditionally and have the contract  *)
(* checked as a property, instead of being silently constrained by it.     *)

EffMapStart(i)    == /\ ist' = [ist EXCEPT ![i] = "mapping"]
                     /\ UNCHANGED <<busy, order, returned, ret>>
PreMapStart(i)    == ist[i] = "idle" /\ ~returned              \* each item mapped at most once, before return

EffMapEnd(i, o)   == /\ ist' = [ist EXCEPT ![i] = o]
                     /\ UNCHANGED <<busy, order, returned, ret>>
PreMapEnd(i, o)   == ist[i] = "mapping" /\ o \in {"ok", "err"} /\ ~returned

EffReduceStart(i) == /\ ist' = [ist EXCEPT ![i] = "reducing"]
                     /\ busy' = i
                     /\ UNCHANGED <<order, returned, ret>>
PreReduceStart(i) == /\ ist[i] = "ok"          \* only successful results, each at most once
                     /\ busy = -1              \* never concurrently with itself
                     /\ ~returned

EffReduceEnd(i)   == /\ ist' = [ist EXCEPT ![i] = "reduced"]
                     /\ busy' = -1
                     /\ order' = Append(order, i)
                     /\ UNCHANGED <<returned, ret>>
PreReduceEnd(i)   == ist[i] = "reducing" /\ busy = i /\ ~returned

EffReturn(r)      == /\ returned' = TRUE
                     /\ ret' = r
                     /\ UNCHANGED <<ist, busy, order>>
PreReturn(r)      == /\ ~returned
                     /\ \A i \in DOMAIN ist : ist[i] \in {"reduced", "err"}   \* everything mapped, every success reduced
                     /\ busy = -1
                     /\ r.acc = order                                     \* the fold, in reduce order
                     /\ r.errs = {i \in DOMAIN ist : ist[i] = "err"}      \* every error, nothing else
                     /\ r.left = 0                                        \* no goroutine left behind

MapStart(i)    == PreMapStart(i) /\ EffMapStart(i)
MapEnd(i, o)   == PreMapEnd(i, o) /\ EffMapEnd(i, o)
ReduceStart(i) == PreReduceStart(i) /\ EffReduceStart(i)
ReduceEnd(i)   == PreReduceEnd(i) /\ EffReduceEnd(i)
Return(r)      == PreReturn(r) /\ EffReturn(r)

AbsNext == \/ \E i \in DOMAIN ist : \/ MapStart(i)
                               \/ \E o \in {"ok", "err"} : MapEnd(i, o)
                               \/ ReduceStart(i)
                               \/ ReduceEnd(i)
           \/ \E r \in [acc : {order}, errs : {{i \in DOMAIN ist : ist[i] = "err"}}, left : {0}] : Return(r)

AbsSpec == AbsInit /\ [][AbsNext]_absvars

(* Nothing happens after the helper returned. *)
QuietAfterReturn == [][returned => UNCHANGED absvars]_absvars

(* State-level consequences, usable as invariants. *)
AbsTypeOK == /\ \A i \in DOMAIN ist : ist[i] \in {"idle", "mapping", "ok", "err", "reducing", "reduced"}
             /\ busy \in DOMAIN ist \cup {-1}
             /\ returned \in BOOLEAN
ReturnedComplete == returned => /\ \A i \in DOMAIN ist : ist[i] \in {"reduced", "err"}
                                /\ Len(order) = Cardinality({i \in DOMAIN ist : ist[i] = "reduced"})
                                /\ ret.left = 0
=============================================================================
