-------------------------- MODULE SubscriptionTrace --------------------------
(***************************************************************************)
(* Trace validation for C17: the lines recorded by harness/cmd/sub deliver *)
(* must be a behaviour of SubscriptionAbs with Stitch = GQL!Ref on the     *)
(* world in which the subscription's root field has the event's value.     *)
(*   World  a new world with a fresh gateway (all subscriptions forgotten) *)
(*   Start  a client subscribed (connection, id, operation)                *)
(*   Emit   the owning service emitted the k-th event of a subscription;   *)
(*          carries the harness's own evaluation on the merged world (R7   *)
(*          cross-check against Ref: a mismatch is a machinery error)      *)
(*   Frame  a frame a client read                                          *)
(*   End    the system is quiet: every emitted event must have arrived     *)
(* A refused line is reported (with what was expected) and the trace goes  *)
(* on, so one pass examines every subscription.                            *)
(***************************************************************************)
EXTENDS GQL, Json, IOUtils

Trace == ndJsonDeserialize(IOEnv.VERIF_TRACE)

VARIABLES W, subs, emitted, nframes, l
tvars == <<W, subs, emitted, nframes, l>>

WithEvent(w, field, val) == [w EXCEPT !.roots = [@ EXCEPT !["Subscription"] = [@ EXCEPT ![field] = val]]]
RefStitch(w, sub, ev) == Norm(Ref(WithEvent(w, sub.field, ev.val), sub.op))

A == INSTANCE SubscriptionAbs WITH Stitch <- RefStitch, world <- W

T == Trace[l]
IsEvent(e) == l <= Len(Trace) /\ Trace[l].ev = e /\ l' = l + 1
Refused(what) == Print(<<"@@REFUSED", l, what>>, TRUE)

TInit == l = 1 /\ W = [types |-> <<>>] /\ A!AInit

TWorld == /\ IsEvent("World")
          /\ W' = [types |-> T.types, ents |-> T.ents, roots |-> T.roots, services |-> T.services]
          /\ subs' = <<>> /\ emitted' = <<>> /\ nframes' = <<>>
TStart == IsEvent("Start") /\ A!Start(T.key, [op |-> T.op, field |-> T.field])
TEmit  == /\ IsEvent("Emit")
          /\ LET ev == [kind |-> T.kind, val |-> T.val, errs |-> T.errs] IN
             /\ A!Emit(T.key, ev)
             /\ (IF T.kind = "data" /\ Norm(T.mono) # RefStitch(W, subs[T.key], ev) THEN Print(<<"@@MONO-MISMATCH", l>>, TRUE) ELSE TRUE)
Expected(key) == IF A!Has0(subs, key) /\ nframes[key] < Len(emitted[key])
                 THEN LET ev == emitted[key][nframes[key] + 1] IN
                      IF ev.kind = "data" THEN ToJson(RefStitch(W, subs[key], ev)) ELSE ToJson(ev.errs)
                 ELSE "no frame"
TFrame == /\ IsEvent("Frame")
          /\ LET fr == [type |-> T.type, bad |-> T.bad, errors |-> T.errors, hasData |-> T.hasData, data |-> Norm(T.data)] IN
             (IF A!FrameOK(T.key, fr) THEN TRUE ELSE Refused(Expected(T.key)))
          /\ A!FrameEff(T.key)
TEnd   == /\ IsEvent("End")
          /\ (IF A!AllDelivered THEN TRUE ELSE Refused(ToJson(A!Undelivered)))
          /\ UNCHANGED <<W, subs, emitted, nframes>>

TNext == TWorld \/ TStart \/ TEmit \/ TFrame \/ TEnd
TSpec == TInit /\ [][TNext]_tvars

TraceAccepted ==
   LET d == TLCGet("stats").diameter IN
   IF d - 1 = Len(Trace) THEN TRUE ELSE Print(<<"@@REJECTED-AT-LINE", d>>, FALSE)
=============================================================================
