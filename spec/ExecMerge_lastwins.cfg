SPECIFICATION Spec
CONSTANTS
  Calls = {1, 2, 3}
  Keys = {"n"}
  Rule = "lastwins"
INVARIANT OrderIndependent
CHECK_DEADLOCK FALSE
