----------------------------- MODULE BatchTrace -----------------------------
(***************************************************************************)
(* Trace validation for C08.  A Batch line carries the results of a batch  *)
(* of operations and, for every operation, the result it got when it was   *)
(* sent alone to the same gateway (both observed on the real code):        *)
(*   {"ev":"Batch","n":3,"status":200,"isArray":true,"results":[r0,r1,r2],  *)
(*    "singles":[s0,s1,s2]}   r, s = canonical text of {data, errors-set}   *)
(* The contract: status 200, an array of exactly N results, result i =     *)
(* single i.                                                                *)
(***************************************************************************)
EXTENDS Integers, Sequences, TLC, Json, IOUtils

Trace == ndJsonDeserialize(IOEnv.VERIF_TRACE)
VARIABLE l
Refused(what) == Print(<<"@@REFUSED", l, what>>, TRUE)

BatchOK(b) == /\ b.status = 200 /\ b.isArray
              /\ Len(b.results) = b.n /\ Len(b.singles) = b.n
              /\ \A i \in 1 .. b.n : b.results[i] = b.singles[i]
Why(b) == IF b.status # 200 \/ ~b.isArray THEN "not-an-array-or-status"
          ELSE IF Len(b.results) # b.n THEN "wrong-number-of-results"
          ELSE "result-differs-from-single"

TBatch == /\ l <= Len(Trace) /\ Trace[l].ev = "Batch" /\ l' = l + 1
          /\ (IF BatchOK(Trace[l]) THEN TRUE ELSE Refused(Why(Trace[l])))
TOther == l <= Len(Trace) /\ Trace[l].ev # "Batch" /\ l' = l + 1
TraceSpec == l = 1 /\ [][TBatch \/ TOther]_l
TraceAccepted ==
   LET d == TLCGet("stats").diameter IN
   IF d - 1 = Len(Trace) THEN TRUE ELSE Print(<<"@@REJECTED-AT-LINE", d>>, FALSE)
=============================================================================
