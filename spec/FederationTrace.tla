-------------------------- MODULE FederationTrace --------------------------
(***************************************************************************)
(* Trace validation for the request path: events recorded around the real  *)
(* gateway (harness/cmd/fed) must be a behaviour of FederationAbs.         *)
(*   World  - a new world (service schemas + data) with a fresh gateway    *)
(*   Req    - an operation is sent                                          *)
(*   Mono   - R7 cross-check: the harness's own evaluator on the merged     *)
(*            world must equal Ref exactly (else the machinery is wrong)    *)
(*   Plan   - the plan the real planner produced (levels per service)       *)
(*   Call   - one HTTP call received by a service, with the facts its own   *)
(*            parser/validator established about each request               *)
(*   Resp   - the gateway's HTTP response                                   *)
(***************************************************************************)
EXTENDS FederationAbs, Json, IOUtils

Trace == ndJsonDeserialize(IOEnv.VERIF_TRACE)

VARIABLE l
tvars == <<fvars, l>>

TraceInit == l = 1 /\ FInit

IsEvent(e) == l <= Len(Trace) /\ Trace[l].ev = e /\ l' = l + 1
T == Trace[l]

Refused(what) == Print(<<"@@REFUSED", l, what>>, TRUE)
TWorld == IsEvent("World") /\ NewWorld([types |-> T.types, ents |-> T.ents, roots |-> T.roots, services |-> T.services])
          \* a World line also aborts a run that was cut short by a start failure
TReq   == IsEvent("Req") /\ Request(T.op, T.invalid)
TMono  == IsEvent("Mono") /\ phase = "running"
          /\ (IF T.data = Ref(W, op) THEN TRUE ELSE Print(<<"@@MONO-MISMATCH", l>>, TRUE))
          /\ UNCHANGED fvars
TPlan  == IsEvent("Plan") /\ (IF E("C02") => PlanOK(T) THEN TRUE ELSE Refused("")) /\ PlanSeen(T.levels)
(* A line the contract refuses is REPORTED (with what Ref expects) and the trace goes on, so that  *)
(* one pass examines every operation; the trace is accepted iff no line was refused.               *)
TQCall == IsEvent("QCall") /\ (IF QCallOK(T) THEN TRUE ELSE Refused("")) /\ QCallEff(T)
TCall  == IsEvent("Call") /\ (IF CallOK(T) THEN TRUE ELSE Refused("")) /\ CallEff(T)
TResp  == IsEvent("Resp") /\ (IF RespOK(T) THEN TRUE ELSE Refused(ToJson(Norm(Ref(W, op))))) /\ RespondEff(T)
TFault == IsEvent("Fault") /\ FaultSeen(T)

TraceNext == TWorld \/ TReq \/ TMono \/ TPlan \/ TQCall \/ TCall \/ TResp \/ TFault
TraceSpec == TraceInit /\ [][TraceNext]_tvars

TraceAccepted ==
   LET d == TLCGet("stats").diameter IN
   IF d - 1 = Len(Trace) THEN TRUE ELSE Print(<<"@@REJECTED-AT-LINE", d>>, FALSE)
=============================================================================
