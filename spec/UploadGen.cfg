INIT GInit
NEXT GNext
CONSTANT SharedLeaves = {"in.file", "files.0", "files.1"}
CHECK_DEADLOCK FALSE
