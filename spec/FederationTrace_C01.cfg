SPECIFICATION TraceSpec
CONSTANT Enforce = {"C01"}
POSTCONDITION TraceAccepted
CHECK_DEADLOCK FALSE
