SPECIFICATION TraceSpec
CONSTANT SharedLeaves = {}
POSTCONDITION TraceAccepted
CHECK_DEADLOCK FALSE
