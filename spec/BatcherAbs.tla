----------------------------- MODULE BatcherAbs -----------------------------
(***************************************************************************)
(* C11 - downstream batching is transparent.  Contract of the downstream   *)
(* client (queryer.MultiOpQueryer.Query) over what its two neighbours can  *)
(* observe: the caller (N sub-requests in, N results or an error out) and  *)
(* the service (HTTP calls, each carrying some of the sub-requests).       *)
(*                                                                         *)
(*   Start(n, mm)       Query is called with requests 0..n-1, max batch mm *)
(*   Http(c, mem)       HTTP call number c is sent carrying requests mem   *)
(*   HttpDone(c, st)    it completes, st = "ok" | "fail"                   *)
(*   Return(r)          Query returns r = [ok, res]; res[k] = identity of  *)
(*                      the request that result k answers (the service     *)
(*                      echoes it), or -1 for a missing result             *)
(***************************************************************************)
EXTENDS Integers, Sequences, FiniteSets, TLC

VARIABLES n, mm,      \* size of the request list and the configured maximum batch size
          sent,       \* sent[i] = number of HTTP calls that carried request i
          open,       \* HTTP calls sent and not completed
          done,       \* done[c] = status of completed call c
          returned, ret

bvars == <<n, mm, sent, open, done, returned, ret>>

SeqSet(s) == {s[k] : k \in DOMAIN s}
Distinct(s) == Cardinality(SeqSet(s)) = Len(s)

BInit(nn, m) == /\ n = nn /\ mm = m
                /\ sent = [i \in 0 .. nn - 1 |-> 0]
                /\ open = {} /\ done = <<>>
                /\ returned = FALSE /\ ret = [ok |-> TRUE, res |-> <<>>]

EffHttp(c, mem) == /\ sent' = [i \in DOMAIN sent |-> sent[i] + Cardinality({k \in DOMAIN mem : mem[k] = i})]
                   /\ open' = open \cup {c}
                   /\ UNCHANGED <<n, mm, done, returned, ret>>
PreHttp(c, mem) == /\ ~returned
                   /\ c \notin open /\ c \notin DOMAIN done
                   /\ Len(mem) <= mm                          \* never more than m requests in one call
                   /\ SeqSet(mem) \subseteq DOMAIN sent
                   /\ Distinct(mem)
                   /\ \A i \in SeqSet(mem) : sent[i] = 0      \* every request in at most one call

EffHttpDone(c, st) == /\ open' = open \ {c}
                      /\ done' = done @@ (c :> st)
                      /\ UNCHANGED <<n, mm, sent, returned, ret>>
PreHttpDone(c, st) == c \in open /\ st \in {"ok", "fail"}

AnyFail == \E c \in DOMAIN done : done[c] = "fail"

EffReturn(r) == returned' = TRUE /\ ret' = r /\ UNCHANGED <<n, mm, sent, open, done>>
PreReturn(r) == /\ ~returned
                /\ r.ok => /\ ~AnyFail /\ open = {}
                           /\ \A i \in DOMAIN sent : sent[i] = 1        \* every request in exactly one call
                           /\ r.res = [k \in 1 .. n |-> k - 1]          \* exactly N results, result i answers request i
                /\ ~r.ok => AnyFail                                      \* an error only because a call failed ...
                /\ AnyFail => ~r.ok                                      \* ... and always when one did: no partial results

Http(c, mem)    == PreHttp(c, mem) /\ EffHttp(c, mem)
HttpDone(c, st) == PreHttpDone(c, st) /\ EffHttpDone(c, st)
Return(r)       == PreReturn(r) /\ EffReturn(r)

(* used as a PROPERTY by BatcherImpl (refinement) *)
BNext == \/ \E c \in 0 .. 2 * (n + 1), mem \in UNION {[1 .. k -> DOMAIN sent] : k \in 0 .. mm} : Http(c, mem)
         \/ \E c \in open, st \in {"ok", "fail"} : HttpDone(c, st)
         \/ \E r \in [ok : BOOLEAN, res : {[k \in 1 .. n |-> k - 1], <<>>}] : Return(r)
BQuiet == [][returned => UNCHANGED bvars]_bvars
=============================================================================
