SPECIFICATION ExtractSpec
CONSTANT SharedLeaves = {"in.file", "files.0", "files.1"}
INVARIANT BothSeeAll
CHECK_DEADLOCK FALSE
