------------------------------ MODULE MergeGen ------------------------------
(***************************************************************************)
(* Direction A for C03/C04/C05: TLC enumerates EVERY set of NSvc service   *)
(* schemas over a small grammar in which each conflict kind of the         *)
(* property arises naturally (a shared root field, one name with two       *)
(* kinds, a type that is a Node in one service only, a Node-type field     *)
(* declared twice, a plain type that overlaps partially, a shared field    *)
(* with two signatures, a union with different members), prints each set   *)
(* as JSON for the Go driver, and checks on the way that the contract      *)
(* itself is order free: Mergeable and Merged give the same answer for     *)
(* every permutation of the set.                                           *)
(***************************************************************************)
EXTENDS Merge, Json, FiniteSetsExt

CONSTANTS NSvc,       \* number of services
          Rich        \* TRUE: full grammar (2 services), FALSE: reduced (3 services)

NoArgs == <<>>
Fld(ty) == [ty |-> ty, args |-> [x \in {} |-> ""], dep |-> ""]
FldA(ty, a) == [ty |-> ty, args |-> [x \in {"a"} |-> a], dep |-> ""]

Obj(node, fs) == [kind |-> "OBJECT", node |-> node, fields |-> fs, values |-> <<>>, members |-> <<>>, impl |-> <<>>]
EnumT(vs) == [kind |-> "ENUM", node |-> FALSE, fields |-> [x \in {} |-> Fld("")], values |-> vs, members |-> <<>>, impl |-> <<>>]
UnionT(ms) == [kind |-> "UNION", node |-> FALSE, fields |-> [x \in {} |-> Fld("")], values |-> <<>>, members |-> ms, impl |-> <<>>]

NoFields == [x \in {} |-> Fld("")]
F1(n, f) == [x \in {n} |-> f]
F2(n1, f1, n2, f2) == [x \in {n1, n2} |-> IF x = n1 THEN f1 ELSE f2]

(* what a service may say about the candidate type T *)
TChoices == IF Rich
            THEN {"absent", "node", "node-f", "node-fInt", "node-g", "plain-f", "plain-fInt", "plain-fArg", "plain-fg", "plain-g"}
            ELSE {"absent", "node-f", "node-g", "plain-f", "plain-fg", "plain-g", "plain-h"}
TType(c) == CASE c = "node"       -> Obj(TRUE, NoFields)
              [] c = "node-f"     -> Obj(TRUE, F1("f", Fld("String")))
              [] c = "node-fInt"  -> Obj(TRUE, F1("f", Fld("Int")))
              [] c = "node-g"     -> Obj(TRUE, F1("g", Fld("String")))
              [] c = "plain-f"    -> Obj(FALSE, F1("f", Fld("String")))
              [] c = "plain-fInt" -> Obj(FALSE, F1("f", Fld("Int")))
              [] c = "plain-fArg" -> Obj(FALSE, F1("f", FldA("String", "Int = 1")))
              [] c = "plain-fg"   -> Obj(FALSE, F2("f", Fld("String"), "g", Fld("String")))
              [] c = "plain-g"    -> Obj(FALSE, F1("g", Fld("String")))
              \* a third field: with three services, one declaration disjoint from two that overlap each other
              [] c = "plain-h"    -> Obj(FALSE, F1("h", Fld("String")))

ScalarT == [kind |-> "SCALAR", node |-> FALSE, fields |-> [x \in {} |-> Fld("")], values |-> <<>>, members |-> <<>>, impl |-> <<>>]
EChoices == IF Rich THEN {"absent", "enum-A", "enum-AB", "object", "scalar"} ELSE {"absent"}
EType(c) == CASE c = "enum-A"  -> EnumT(<<"A">>)
              [] c = "enum-AB" -> EnumT(<<"A", "B">>)
              [] c = "object"  -> Obj(FALSE, F1("x", Fld("Int")))
              [] c = "scalar"  -> ScalarT     \* one name as a custom scalar here and as an enum / object there

UChoices == IF Rich THEN {"absent", "union-T", "union-TV"} ELSE {"absent"}

SvcChoice == [t : TChoices, e : EChoices, u : UChoices, shared : BOOLEAN, lookup : BOOLEAN]

IsNodeChoice(t) == t \in {"node", "node-f", "node-fInt", "node-g"}
WellFormed(c) == /\ (c.u # "absent" => c.t # "absent")    \* a union member must be declared
                 /\ (c.lookup => (Rich /\ IsNodeChoice(c.t)))   \* a root field shaped like the node entry point: lookup(id: ID!): Node

MkSvc(i, c) ==
   LET tys0 == (IF c.t # "absent" THEN F1("T", TType(c.t)) ELSE [x \in {} |-> Obj(FALSE, NoFields)])
       tys1 == IF c.e # "absent" THEN tys0 @@ F1("E", EType(c.e)) ELSE tys0
       tys2 == CASE c.u = "union-T"  -> tys1 @@ F1("U", UnionT(<<"T">>))
                 [] c.u = "union-TV" -> tys1 @@ F2("U", UnionT(<<"T", "V">>), "V", Obj(FALSE, F1("v", Fld("Int"))))
                 [] OTHER -> tys1
       q0 == F1("q" \o ToString(i), Fld("String"))
       q1 == IF c.shared THEN q0 @@ F1("qs", Fld("String")) ELSE q0
       q2a == IF c.u # "absent" THEN q1 @@ F1("u" \o ToString(i), Fld("U")) ELSE q1
       q2 == IF c.lookup THEN q2a @@ F1("lookup" \o ToString(i), [ty |-> "Node", args |-> [x \in {"id"} |-> "ID!"], dep |-> ""]) ELSE q2a
   IN [url |-> "http://g" \o ToString(i) \o ".test",
       types |-> tys2,
       roots |-> [r \in RootNames |-> IF r = "Query" THEN q2 ELSE NoFields],
       hasNode |-> (c.t # "absent" /\ TType(c.t).node),
       directives |-> [x \in {} |-> [args |-> <<>>, locs |-> <<>>]]]

VARIABLE set
Init == /\ set \in [1 .. NSvc -> {c \in SvcChoice : WellFormed(c)}]
        /\ PrintT("@@" \o ToJson([svcs |-> [i \in 1 .. NSvc |-> MkSvc(i, set[i])]]))
Next == UNCHANGED set

Sset == [i \in 1 .. NSvc |-> MkSvc(i, set[i])]
Perms == {p \in [1 .. NSvc -> 1 .. NSvc] : \A i, j \in 1 .. NSvc : i # j => p[i] # p[j]}
Permuted(p) == [i \in 1 .. NSvc |-> Sset[p[i]]]

(* the contract is order free (design-level sanity of Merge.tla) *)
OrderFree == \A p \in Perms : /\ Conflicts(Permuted(p)) = Conflicts(Sset)
                              /\ Mergeable(Sset) => Merged(Permuted(p)) = Merged(Sset)
=============================================================================
