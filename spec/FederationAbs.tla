--------------------------- MODULE FederationAbs ---------------------------
(***************************************************************************)
(* The request path of the gateway as a contract over what its neighbours  *)
(* observe: the client (operation in, {data, errors} out) and the services *)
(* (batched calls, each carrying sub-requests).  One module for the        *)
(* properties that quantify over (schemas x data x operations):            *)
(*   C01  response = Norm(Ref(world, op)), errors empty                    *)
(*   C02  every sub-request parses, validates against the receiving        *)
(*        service's own schema, declares the variables it uses             *)
(*   C06  every mutation root field reaches its owner exactly once, as a   *)
(*        mutation; everything else is a query                             *)
(*   C12  calls per service <= plan levels of that service; no duplicate   *)
(*        id-only lookups within one call                                  *)
(* Enforce selects which of them constrain the actions, so that each       *)
(* property's check judges traces by its own statement only.               *)
(***************************************************************************)
EXTENDS GQL, Json

CONSTANT Enforce

VARIABLES W,        \* current world
          op,       \* current operation ([] when idle)
          phase,    \* "idle" | "running"
          levels,   \* observed plan: service -> number of plan levels it appears at
          calls,    \* service -> number of calls received for this operation
          mroots,   \* mutation: root field -> number of times it was sent (as a bag over calls)
          faults,   \* faults injected into this operation (set of [kind, signal])
          inv,      \* "" or the way in which this operation is invalid (C10)
          leaves,   \* scalar leaves of everything the services answered for this operation (C09)
          fpayload  \* GraphQL errors the services answered with (C10)

fvars == <<W, op, phase, levels, calls, mroots, faults, inv, leaves, fpayload>>

E(p) == p \in Enforce

NoOp == [kind |-> "none"]

FInit == /\ W = [types |-> <<>>] /\ op = NoOp /\ phase = "idle"
         /\ levels = <<>> /\ calls = <<>> /\ mroots = <<>> /\ faults = {}
         /\ inv = "" /\ leaves = {} /\ fpayload = <<>>

NewWorld(w) == /\ phase = "idle"
               /\ W' = w
               /\ UNCHANGED <<op, phase, levels, calls, mroots, faults, inv, leaves, fpayload>>

Request(o, iv) == /\ phase = "idle"
                  /\ op' = o /\ phase' = "running" /\ inv' = iv
                  /\ levels' = <<>> /\ calls' = <<>> /\ mroots' = <<>> /\ faults' = {}
                  /\ leaves' = {} /\ fpayload' = <<>>
                  /\ UNCHANGED W

PlanSeen(lv) == /\ phase = "running"
                /\ levels' = lv
                /\ UNCHANGED <<W, op, phase, calls, mroots, faults, inv, leaves, fpayload>>

FaultSeen(f) == /\ phase = "running"
                /\ faults' = faults \cup {[kind |-> f.kind, signal |-> f.signal]}
                /\ fpayload' = fpayload \o f.payload
                /\ UNCHANGED <<W, op, phase, levels, calls, mroots, inv, leaves>>

Count(f, k) == IF k \in DOMAIN f THEN f[k] ELSE 0
Bump(f, k) == [x \in DOMAIN f \cup {k} |-> Count(f, x) + (IF x = k THEN 1 ELSE 0)]


(* owner of a root field: the service that declares it *)
Declares(svc, ty, fld) == Has(svc.decl, ty) /\ \E i \in DOMAIN svc.decl[ty] : svc.decl[ty][i] = fld
SvcByUrl(u) == LET i == CHOOSE j \in DOMAIN W.services : W.services[j].url = u IN W.services[i]
KnownSvc(u) == \E j \in DOMAIN W.services : W.services[j].url = u

(* ---------------------------------------------------------------- C02: the translation *)
(* A field node = [path (response keys from the operation root), pt (parent type), f (field   *)
(* name), key (response key)].  Fragments only change the parent type.                        *)
Range(seq) == {seq[i] : i \in DOMAIN seq}
(* Query.node(id:) returns the interface Node, which every service with Node types declares; its   *)
(* possible types are all the Node types                                                          *)
NodeTypes == {t \in DOMAIN W.types : W.types[t].node}
FieldTypeName(pt, f) == IF pt = "Query" /\ f = "node" THEN "Node"
                        ELSE IF Has(W.types, pt) /\ Has(W.types[pt].fields, f) THEN W.types[pt].fields[f].type.ty ELSE ""

RECURSIVE Nodes(_, _, _)
Nodes(sels, path, pt) ==
   UNION { IF s.k = "F"
           THEN {[path |-> path, pt |-> pt, f |-> s.name, key |-> s.key]}
                   \cup (IF s.sub # <<>> THEN Nodes(s.sub, Append(path, s.key), FieldTypeName(pt, s.name)) ELSE {})
           ELSE Nodes(s.sub, path, IF s.on = "" THEN pt ELSE s.on)
         : s \in Range(sels) }

IsRootType(t) == t \in {"Query", "Mutation", "Subscription"}
(* the nodes a plan step asks its service for, placed in the client's coordinate system *)
StepNodes(st) ==
   IF IsRootType(st.parentType) THEN Nodes(st.facts.sel, <<>>, st.parentType)
   ELSE \* node(id: $id) { ... on T { fields } } inserted at st.ip
        UNION { IF s.k = "F" /\ s.name = "node" THEN Nodes(s.sub, st.ip, st.parentType) ELSE {[path |-> st.ip, pt |-> "?", f |-> "?", key |-> "?"]}
              : s \in Range(st.facts.sel) }

SvcHasNode(svc) == \E t \in DOMAIN svc.decl : t \in NodeTypes
DeclaresField(svc, pt, f) ==
   \/ f = "__typename"
   \/ pt = "Query" /\ f = "node" /\ SvcHasNode(svc)
   \/ pt = "Node" /\ f = "id" /\ SvcHasNode(svc)
   \/ f = "id" /\ Has(svc.decl, pt) /\ Has(W.types, pt) /\ W.types[pt].node
   \/ Declares(svc, pt, f)

Scrubbed1(scrub, path, pt, f) ==
   LET k == JoinStr(path, ".") IN
   Has(scrub, k) /\ Has(scrub[k], pt) /\ \E i \in DOMAIN scrub[k][pt] : scrub[k][pt][i] = f
(* the scrub table is keyed by the runtime type: for a helper on an interface / union every member counts *)
IsAbstract(t) == t = "Node" \/ (Has(W.types, t) /\ W.types[t].kind \in {"INTERFACE", "UNION"})
Members(t) == IF t = "Node" THEN NodeTypes ELSE Range(W.types[t].members)
Scrubbed(scrub, path, pt, f) ==
   IF IsAbstract(pt)
   THEN \A m \in Members(pt) : Scrubbed1(scrub, path, m, f)
   ELSE Scrubbed1(scrub, path, pt, f)

VarOK(r, v) ==
   IF v = "id" /\ ~Has(op.varDefs, "id") THEN TRUE
   ELSE IF Has(op.vars, v) THEN Has(r.passed, v) /\ r.passed[v] = RenderArgVal(op.vars[v])
   ELSE IF Has(op.varDefs, v) /\ Has(op.varDefs[v], "def")
        THEN LET d == RenderArgVal(op.varDefs[v].def) IN (Has(r.defaults, v) /\ r.defaults[v] = d) \/ (Has(r.passed, v) /\ r.passed[v] = d)
   ELSE ~Has(r.passed, v) \/ r.passed[v] = "~"

SameSpot(a, b) == a.path = b.path /\ a.key = b.key /\ a.f = b.f
Related(t1, t2) == \/ t1 = t2
                   \/ IsAbstract(t2) /\ t1 \in Members(t2)
                   \/ IsAbstract(t1) /\ t2 \in Members(t1)

PlanOK(p) ==
   LET steps  == {p.steps[i] : i \in {j \in DOMAIN p.steps : ~p.steps[j].internal}}
       client == {n \in Nodes(op.sel, <<>>, RootName(op.kind)) : n.f # "__typename" \/ n.path # <<>>}
       sent   == UNION {{[n |-> n, url |-> st.url] : n \in StepNodes(st)} : st \in steps}
   IN /\ p.err = ""
      \* (a) each sub-request text is valid GraphQL for the schema of the service it goes to
      /\ \A st \in steps : /\ KnownSvc(st.url) /\ st.facts.parses /\ st.facts.validates
                           /\ \A i \in DOMAIN st.facts.used : Has(st.facts.declared, st.facts.used[i])
                           \* (e) root steps carry the client's operation kind and name, child steps are node queries
                           /\ IF IsRootType(st.parentType)
                              THEN st.facts.kw = op.kind /\ st.facts.opName = op.name
                              ELSE st.facts.kw = "query" /\ Has(W.types, st.parentType) /\ W.types[st.parentType].node
      \* (b) coverage: every client-selected field is asked from a service that declares it (a field
      \*     selected on an interface / union may be asked once per possible type instead)
      /\ \A n \in client :
            \/ \E x \in sent : (x.n = n /\ DeclaresField(SvcByUrl(x.url), n.pt, n.f))
            \/ /\ IsAbstract(n.pt)
               /\ \A m \in Members(n.pt) :
                     \E x \in sent : (SameSpot(x.n, n) /\ x.n.pt = m /\ DeclaresField(SvcByUrl(x.url), m, n.f))
      \* (c) what is added are only id/__typename helpers, each registered for removal
      /\ \A x \in sent : \/ \E n \in client : (SameSpot(x.n, n) /\ Related(x.n.pt, n.pt))
                          \/ ( /\ x.n.f \in {"id", "__typename"} /\ x.n.key = x.n.f
                               /\ Scrubbed(p.scrub, x.n.path, x.n.pt, x.n.f) )
      \* ... and nothing the client asked for is registered for removal
      /\ \A n \in client : (n.f \in {"id", "__typename"} /\ n.key = n.f /\ ~IsAbstract(n.pt)) => ~Scrubbed(p.scrub, n.path, n.pt, n.f)

ReqOK(svc, r) ==
   /\ E("C02") => /\ r.parses /\ r.validates            \* valid GraphQL for THAT service's own schema
                  /\ r.undeclared = <<>>                \* every variable used is declared
                  /\ r.inPlan                           \* only instances of plan steps are sent
                  /\ \A i \in DOMAIN r.used : VarOK(r, r.used[i])   \* accompanied by the client's value or default
   /\ E("C06") => \* only root steps of a mutation are mutations, sent to the owner; nothing else is
                  /\ r.kw = "mutation" => /\ op.kind = "mutation"
                                          /\ KnownSvc(svc)
                                          /\ \A i \in DOMAIN r.roots : Declares(SvcByUrl(svc), "Mutation", r.roots[i].name)
                  /\ (op.kind = "mutation" /\ r.kw # "mutation") => \A i \in DOMAIN r.roots : r.roots[i].name = "node"

RECURSIVE BumpKeys(_, _)
BumpKeys(f, roots) == IF roots = <<>> THEN f ELSE BumpKeys(Bump(f, Head(roots).key), Tail(roots))
RECURSIVE BumpReqs(_, _)
BumpReqs(f, reqs) == IF reqs = <<>> THEN f
                     ELSE BumpReqs(IF Head(reqs).kw = "mutation" THEN BumpKeys(f, Head(reqs).roots) ELSE f, Tail(reqs))

(* one batched call (Queryer.Query) made to a service: C12 *)
QCallOK(c) == /\ E("C12") => /\ Count(calls, c.svc) < Count(levels, c.svc)    \* at most one call per plan level
                             /\ ~c.dup                                         \* identical id-lookups sent once
              /\ E("C10") => inv = ""           \* an invalid operation causes no downstream request
QCallEff(c) == /\ phase = "running"
               /\ calls' = Bump(calls, c.svc)
               /\ UNCHANGED <<W, op, phase, levels, mroots, faults, inv, leaves, fpayload>>
QCall(c) == QCallOK(c) /\ QCallEff(c)

(* one HTTP call received by a service, with its sub-requests: C02, C06 *)
CallOK(c) == /\ \A i \in DOMAIN c.reqs : ReqOK(c.svc, c.reqs[i])
             /\ E("C10") => inv = ""

CallEff(c) ==
           /\ phase = "running"
           /\ leaves' = leaves \cup Range(c.leaves)
           /\ UNCHANGED <<calls, inv, fpayload>>
           /\ mroots' = IF op.kind = "mutation" THEN BumpReqs(mroots, c.reqs) ELSE mroots
           /\ UNCHANGED <<W, op, phase, levels, faults>>

Call(c) == CallOK(c) /\ CallEff(c)

(* root fields the client selected in a mutation (after @skip/@include) *)
ClientMutationRoots == LET fs == Collect(W, "Mutation", op.sel, Ctx(op)) IN {fs[i].key : i \in {j \in DOMAIN fs : fs[j].name # "__typename"}}

RespOK(r) ==
   /\ E("C01") => (faults = {} => /\ r.wellformed /\ r.status = 200
                                   /\ r.errors = <<>>
                                   /\ Norm(r.data) = Norm(Ref(W, op)))
   /\ E("C06") => (op.kind = "mutation" /\ faults = {} =>
                      \A f \in ClientMutationRoots : Count(mroots, f) = 1)
   /\ E("C06") => (op.kind = "mutation" => \A f \in DOMAIN mroots : mroots[f] <= 1)
   \* C09: whatever a service did, the client gets a well-formed answer; a failure signal is reported;
   \*      no value appears in data that no service returned
   /\ E("C09") => /\ r.wellformed /\ r.status = 200
                  /\ (\E f \in faults : f.signal) => r.errors # <<>>
                  \* (the name of the root type, answered by the gateway for a root __typename, is no service's value)
                  /\ inv = "" => Range(r.leaves) \subseteq (leaves \cup {RootName(op.kind)})
   \* C10: an invalid operation is answered by the gateway alone: errors, data null ...
   /\ E("C10") => (inv # "" => r.wellformed /\ r.status = 200 /\ r.errors # <<>> /\ r.data = ZVal)
   \*      ... and the GraphQL errors of a service reach the client with message, extensions and path intact
   /\ E("C10") => \A i \in DOMAIN fpayload :
                      \E j \in DOMAIN r.errorsFull : /\ r.errorsFull[j].message = fpayload[i].message
                                                      /\ r.errorsFull[j].ext = fpayload[i].ext
                                                      /\ r.errorsFull[j].path = fpayload[i].path

RespondEff(r) == /\ phase = "running"
                 /\ phase' = "idle" /\ op' = NoOp
                 /\ UNCHANGED <<W, levels, calls, mroots, faults, inv, leaves, fpayload>>

Respond(r) == RespOK(r) /\ RespondEff(r)
=============================================================================
