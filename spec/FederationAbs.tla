--------------------------- MODULE FederationAbs ---------------------------
(***************************************************************************)
(* The request path of the gateway as a contract over what its neighbours  *)
(* observe: the client (operation in, {data, errors} out) and the services *)
(* (batched calls, each carrying sub-requests).  One module for the        *)
(* properties that quantify over (schemas x data x operations):            *)
(*   C01  response = Norm(Ref(world, op)), errors empty                    *)
(*   C02  every sub-request parses, validates against the receiving        *)
(*        service's own schema, declares the variables it uses             *)
(*   C06  every mutation root field reaches its owner exactly once, as a   *)
(*        mutation; everything else is a query                             *)
(*   C12  calls per service <= plan levels of that service; no duplicate   *)
(*        id-only lookups within one call                                  *)
(* Enforce selects which of them constrain the actions, so that each       *)
(* property's check judges traces by its own statement only.               *)
(***************************************************************************)
EXTENDS GQL, Json

CONSTANT Enforce

VARIABLES W,        \* current world
          op,       \* current operation ([] when idle)
          phase,    \* "idle" | "running"
          levels,   \* observed plan: service -> number of plan levels it appears at
          calls,    \* service -> number of calls received for this operation
          mroots,   \* mutation: root field -> number of times it was sent (as a bag over calls)
          faults    \* faults injected into this operation (set)

fvars == <<W, op, phase, levels, calls, mroots, faults>>

E(p) == p \in Enforce

NoOp == [kind |-> "none"]

FInit == /\ W = [types |-> <<>>] /\ op = NoOp /\ phase = "idle"
         /\ levels = <<>> /\ calls = <<>> /\ mroots = <<>> /\ faults = {}

NewWorld(w) == /\ phase = "idle"
               /\ W' = w
               /\ UNCHANGED <<op, phase, levels, calls, mroots, faults>>

Request(o) == /\ phase = "idle"
              /\ op' = o /\ phase' = "running"
              /\ levels' = <<>> /\ calls' = <<>> /\ mroots' = <<>> /\ faults' = {}
              /\ UNCHANGED W

PlanSeen(lv) == /\ phase = "running"
                /\ levels' = lv
                /\ UNCHANGED <<W, op, phase, calls, mroots, faults>>

Count(f, k) == IF k \in DOMAIN f THEN f[k] ELSE 0
Bump(f, k) == [x \in DOMAIN f \cup {k} |-> Count(f, x) + (IF x = k THEN 1 ELSE 0)]


(* owner of a root field: the service that declares it *)
Declares(svc, ty, fld) == Has(svc.decl, ty) /\ \E i \in DOMAIN svc.decl[ty] : svc.decl[ty][i] = fld
SvcByUrl(u) == LET i == CHOOSE j \in DOMAIN W.services : W.services[j].url = u IN W.services[i]
KnownSvc(u) == \E j \in DOMAIN W.services : W.services[j].url = u

ReqOK(svc, r) ==
   /\ E("C02") => /\ r.parses /\ r.validates            \* valid GraphQL for THAT service's own schema
                  /\ r.undeclared = <<>>                \* every variable used is declared
   /\ E("C06") => \* only root steps of a mutation are mutations, sent to the owner; nothing else is
                  /\ r.kw = "mutation" => /\ op.kind = "mutation"
                                          /\ KnownSvc(svc)
                                          /\ \A i \in DOMAIN r.roots : Declares(SvcByUrl(svc), "Mutation", r.roots[i].name)
                  /\ (op.kind = "mutation" /\ r.kw # "mutation") => \A i \in DOMAIN r.roots : r.roots[i].name = "node"

RECURSIVE BumpKeys(_, _)
BumpKeys(f, roots) == IF roots = <<>> THEN f ELSE BumpKeys(Bump(f, Head(roots).key), Tail(roots))
RECURSIVE BumpReqs(_, _)
BumpReqs(f, reqs) == IF reqs = <<>> THEN f
                     ELSE BumpReqs(IF Head(reqs).kw = "mutation" THEN BumpKeys(f, Head(reqs).roots) ELSE f, Tail(reqs))

CallOK(c) == /\ E("C12") => /\ Count(calls, c.svc) < Count(levels, c.svc)    \* at most one call per plan level
                            /\ ~c.dup                                         \* identical id-lookups sent once
             /\ \A i \in DOMAIN c.reqs : ReqOK(c.svc, c.reqs[i])

CallEff(c) ==
           /\ phase = "running"
           /\ calls' = Bump(calls, c.svc)
           /\ mroots' = IF op.kind = "mutation" THEN BumpReqs(mroots, c.reqs) ELSE mroots
           /\ UNCHANGED <<W, op, phase, levels, faults>>

Call(c) == CallOK(c) /\ CallEff(c)

(* root fields the client selected in a mutation (after @skip/@include) *)
ClientMutationRoots == LET fs == Collect(W, "Mutation", op.sel, Ctx(op)) IN {fs[i].key : i \in {j \in DOMAIN fs : fs[j].name # "__typename"}}

RespOK(r) ==
   /\ E("C01") => (faults = {} => /\ r.wellformed /\ r.status = 200
                                   /\ r.errors = <<>>
                                   /\ Norm(r.data) = Norm(Ref(W, op)))
   /\ E("C06") => (op.kind = "mutation" /\ faults = {} =>
                      \A f \in ClientMutationRoots : Count(mroots, f) = 1)
   /\ E("C06") => (op.kind = "mutation" => \A f \in DOMAIN mroots : mroots[f] <= 1)

RespondEff(r) == /\ phase = "running"
                 /\ phase' = "idle" /\ op' = NoOp
                 /\ UNCHANGED <<W, levels, calls, mroots, faults>>

Respond(r) == RespOK(r) /\ RespondEff(r)
=============================================================================
