SPECIFICATION Spec
CONSTANTS
  Ops <- Pool
  KeyFields <- AllFields
  TTL = 3
  MaxLen = 3
INVARIANTS UsesRightPlan PrintHist
CHECK_DEADLOCK FALSE
