------------------------------- MODULE Upload -------------------------------
(***************************************************************************)
(* C19 - file uploads arrive at the owning service unchanged.              *)
(* Layout of a GraphQL multipart request: which upload mutations are       *)
(* selected (each owned by one of two services and using one variable:     *)
(* $f a top-level Upload, $in an input object with a file inside, $files a *)
(* list of two Uploads), which client file (A, B or none) the file map     *)
(* attaches to each of the four variable paths - one file at several paths *)
(* included -, single or batched.                                          *)
(* Contract (UploadOK): a service request that uses variable v carries, for *)
(* every client path under v that has a file, a part with the same name    *)
(* and bytes at the same path, and nothing else; a request that uses no    *)
(* file variable is not multipart; the operation succeeds.                 *)
(* Design model (Extract): two requests of one depth extract their files   *)
(* leaf by leaf from variables that SHARE their nested containers; TLC     *)
(* explores every interleaving (ExtractSpec / BothSeeAll).                 *)
(***************************************************************************)
EXTENDS Integers, Sequences, FiniteSets, TLC, Json

Paths == {"variables.f", "variables.in.file", "variables.files.0", "variables.files.1"}
VarOf(p) == CASE p = "variables.f" -> "f" [] p = "variables.in.file" -> "in" [] OTHER -> "files"
Fields == {"up", "up2", "upNested", "upNested0", "upList", "upList1"}
FieldVar(fl) == CASE fl \in {"up", "up2"} -> "f" [] fl \in {"upNested", "upNested0"} -> "in" [] OTHER -> "files"
FieldSvc(fl) == IF fl \in {"up", "upNested0", "upList"} THEN "http://u0.test" ELSE "http://u1.test"
FileIds == {"A", "B", "-"}

Layouts == {l \in [fields : (SUBSET Fields) \ {{}}, assign : [Paths -> FileIds], batch : BOOLEAN] :
               \* only variables that some selected field uses are declared, so only their paths may carry files
               /\ \A p \in Paths : l.assign[p] # "-" => \E fl \in l.fields : FieldVar(fl) = VarOf(p)
               /\ \E p \in Paths : l.assign[p] # "-"}

(* ---------------------------------------------------------------- contract on observations *)
(* r = [svc, mp, files: path -> "name:bytes", used: seq of variables]; client: path -> "name:bytes" *)
Has(f, k) == k \in DOMAIN f
SeqSet(s) == {s[i] : i \in DOMAIN s}
Expected(client, r) == [p \in {q \in DOMAIN client : VarOf(q) \in SeqSet(r.used)} |-> client[p]]
SvcReqOK(client, r) == /\ r.files = Expected(client, r)
                       /\ r.mp <=> (DOMAIN Expected(client, r) # {})

(* ---------------------------------------------------------------- design model of extraction *)
(* the uploads of one variable tree; containers in/files are shared by reference between the   *)
(* two requests built from the client's variables, the top-level slot is per request            *)
CONSTANT SharedLeaves      \* e.g. {"in.file", "files.0", "files.1"}
VARIABLES tree,            \* leaf -> "U" (an upload is there) | "null"
          todo,            \* todo[p]: leaves process p still has to visit
          found            \* found[p]: leaves at which p found an upload
evars == <<tree, todo, found>>
Procs == {1, 2}
EInit == /\ tree = [x \in SharedLeaves |-> "U"]
         /\ todo = [p \in Procs |-> SharedLeaves]
         /\ found = [p \in Procs |-> {}]
(* extract(): visit a leaf, remember an upload, and null it IN PLACE *)
Visit(p, x) == /\ x \in todo[p]
               /\ todo' = [todo EXCEPT ![p] = @ \ {x}]
               /\ found' = [found EXCEPT ![p] = IF tree[x] = "U" THEN @ \cup {x} ELSE @]
               /\ tree' = [tree EXCEPT ![x] = "null"]
ENext == \E p \in Procs, x \in SharedLeaves : Visit(p, x)
ExtractSpec == EInit /\ [][ENext]_evars
BothSeeAll == (\A p \in Procs : todo[p] = {}) => \A p \in Procs : found[p] = SharedLeaves
=============================================================================
