SPECIFICATION Spec
CONSTANTS
  ClientScripts <- MCClient
  UpstreamScripts <- MCUpstream
  StartFails <- MCStartFails
  Forceable = TRUE
INVARIANTS DeliveredPrefix
CHECK_DEADLOCK FALSE
