-------------------------- MODULE SubscriptionImpl --------------------------
(***************************************************************************)
(* C18 (and the delivery half of C17) - one subscription on one client     *)
(* connection, as the code is written (subscription.go,                    *)
(* subscription_entry.go, queryer/subscribe.go), one action per step       *)
(* between two `verif` hook points.  (SubscriptionImplOld.tla is the model *)
(* of the protocol before the "fix:" commits; TLC finds five ways to crash *)
(* the process and one leak in it, every one of which was reproduced on    *)
(* the code - findings/C18-prefix-histories.json.)                         *)
(*                                                                         *)
(*   H  the connection handler: reads the client's messages (stop,         *)
(*      terminate, garbage, reset = abrupt disconnect), spawns Close       *)
(*      goroutines; its deferred exit path: close frame, conn.Close,       *)
(*      CleanAll                                                           *)
(*   L  subscriptionEntry.Listen: select on respCh / closeCh, prepare      *)
(*      (follow-up steps), write the frame; on return close queryerCloseCh *)
(*   C  subscriptionEntry.Close: close closeCh once                        *)
(*   R  the upstream reader of MultiOpQueryer.Subscribe: read a frame,     *)
(*      select { respCh <- payload | <-queryerCloseCh }; on complete /     *)
(*      error / closed connection: conn.Close, select { respCh <- nil |    *)
(*      <-queryerCloseCh }                                                 *)
(*   K  the upstream closer: <-queryerCloseCh, conn.Close                  *)
(* Channels are unbuffered: a send is a rendezvous with the receiver.      *)
(* The environment: a client script and an upstream script.                *)
(***************************************************************************)
EXTENDS Integers, Sequences, FiniteSets, TLC

CONSTANTS ClientScripts,    \* set of sequences over {"stop","restart","terminate","garbage","reset"}
          UpstreamScripts,  \* set of sequences over {"data","error","complete","drop"}
          StartFails,       \* subset of BOOLEAN: does the upstream break the connection before the reader's first write
          Forceable         \* TRUE: leave out the one step a scheduler cannot force (see LRecvResp)

VARIABLES cscript, uscript,          \* the chosen scripts
          cpos, upos,                \* how much of them has been consumed
          hpc, lpc, cpc, rpc, kpc,   \* program counters ("none" for C until it is spawned)
          inDict,                    \* the subscription is still in the handler's dictionary
          closeReq,                  \* closeCh is closed (Close was called)
          qClosed,                   \* queryerCloseCh is closed (Listen is done)
          clientGone,                \* the client's connection no longer accepts writes
          upClosed,                  \* the gateway closed its upstream connection
          delivered,                 \* number of frames written to the client
          emitted,                   \* number of events the reader took from the upstream
          subEnd, connEnd,           \* the environment ended the subscription / the connection
          act

vars == <<cscript, uscript, cpos, upos, hpc, lpc, cpc, rpc, kpc, inDict, closeReq, qClosed, clientGone,
          upClosed, delivered, emitted, subEnd, connEnd, act>>

(* The initial state is the one after the client's `start`: either the subscription is established *)
(* (Listen in its select, the reader about to read, the closer waiting), or the handler is still   *)
(* inside Subscribe waiting for the reader's verdict on the upstream handshake, which will fail.   *)
Init == /\ cscript \in ClientScripts /\ uscript \in UpstreamScripts
        /\ cpos = 0 /\ upos = 0
        /\ \E sf \in StartFails :
             /\ IF sf THEN hpc = "starting" /\ lpc = "none" /\ rpc = "start" /\ inDict = FALSE /\ cscript = <<>> /\ uscript = <<>>
                      ELSE hpc = "read" /\ lpc = "select" /\ rpc = "read" /\ inDict = TRUE
             /\ act = <<"Init", cscript, uscript, sf>>
        /\ cpc = "none" /\ kpc = "wait"
        /\ closeReq = FALSE /\ qClosed = FALSE
        /\ clientGone = FALSE /\ upClosed = FALSE /\ delivered = 0 /\ emitted = 0
        /\ subEnd = FALSE /\ connEnd = FALSE

-----------------------------------------------------------------------------
(* H: the connection handler *)
SpawnClose == IF inDict THEN "enter" ELSE cpc      \* go subEntry.Close(); delete(sd, key)

HMsg == /\ hpc = "read" /\ cpos < Len(cscript)
        /\ LET m == cscript[cpos + 1] IN
           /\ cpos' = cpos + 1
           /\ act' = <<"HMsg", m>>
           /\ CASE m \in {"stop", "restart"} ->
                     \* restart = a start under the id in use: the operation running under it is stopped first
                     \* (the new operation is another instance of this protocol, not followed here)
                     /\ cpc' = SpawnClose /\ inDict' = FALSE /\ hpc' = "read" /\ subEnd' = TRUE /\ UNCHANGED <<clientGone, connEnd>>
                [] m = "terminate" -> /\ cpc' = SpawnClose /\ inDict' = FALSE /\ hpc' = "exit" /\ connEnd' = TRUE /\ UNCHANGED <<clientGone, subEnd>>
                [] m = "garbage" -> /\ hpc' = "exit" /\ connEnd' = TRUE /\ UNCHANGED <<cpc, inDict, clientGone, subEnd>>
                [] m = "reset" -> /\ hpc' = "exit" /\ clientGone' = TRUE /\ connEnd' = TRUE /\ UNCHANGED <<cpc, inDict, subEnd>>
        /\ UNCHANGED <<cscript, uscript, upos, lpc, rpc, kpc, closeReq, qClosed, upClosed, delivered, emitted>>

(* the deferred exit: the close frame (may fail), conn.Close() *)
HExit == /\ hpc = "exit"
         /\ hpc' = "cleanall" /\ clientGone' = TRUE /\ act' = <<"HExit", clientGone>>
         /\ UNCHANGED <<cscript, uscript, cpos, upos, lpc, cpc, rpc, kpc, inDict, closeReq, qClosed, upClosed, delivered, emitted, subEnd, connEnd>>

HCleanAll == /\ hpc = "cleanall"
             /\ hpc' = "done" /\ cpc' = SpawnClose /\ inDict' = FALSE /\ act' = <<"HCleanAll">>
             /\ UNCHANGED <<cscript, uscript, cpos, upos, lpc, rpc, kpc, closeReq, qClosed, clientGone, upClosed, delivered, emitted, subEnd, connEnd>>

(* The reader's first write fails: it reports the error to Subscribe (rendezvous on errCh) and    *)
(* returns into its deferred function; Subscribe and newSubscriptionEntry return the error - the  *)
(* entry, which will never be listened to, closes queryerCloseCh - and the handler returns.       *)
RStartFail == /\ rpc = "start" /\ hpc = "starting"
              /\ rpc' = "exit" /\ hpc' = "exit" /\ qClosed' = TRUE /\ subEnd' = TRUE /\ connEnd' = TRUE
              /\ act' = <<"RStartFail">>
              /\ UNCHANGED <<cscript, uscript, cpos, upos, lpc, cpc, kpc, inDict, closeReq, clientGone, upClosed, delivered, emitted>>

-----------------------------------------------------------------------------
(* C: subscriptionEntry.Close *)
CClose == /\ cpc = "enter"
          /\ closeReq' = TRUE /\ cpc' = "done" /\ act' = <<"CClose">>
          /\ UNCHANGED <<cscript, uscript, cpos, upos, hpc, lpc, rpc, kpc, inDict, qClosed, clientGone, upClosed, delivered, emitted, subEnd, connEnd>>

-----------------------------------------------------------------------------
(* L: Listen *)
LSeeClose == /\ lpc = "select" /\ closeReq
             /\ lpc' = "closech" /\ act' = <<"LSeeClose">>
             /\ UNCHANGED <<cscript, uscript, cpos, upos, hpc, cpc, rpc, kpc, inDict, closeReq, qClosed, clientGone, upClosed, delivered, emitted, subEnd, connEnd>>

(* rendezvous R -> L on respCh.  When closeCh is closed as well, Go's select picks one of the two *)
(* ready cases at random: no scheduler can force this step then (the states it leads to are       *)
(* reached anyway, by Close running after the receive).                                            *)
LRecvResp == /\ lpc = "select" /\ rpc \in {"send", "sendnil"} /\ ~qClosed
             /\ (Forceable => ~closeReq)
             /\ lpc' = IF rpc = "send" THEN "resp" ELSE "respnil"
             /\ rpc' = IF rpc = "send" THEN "read" ELSE "done"
             /\ act' = <<"LRecvResp", rpc>>
             /\ UNCHANGED <<cscript, uscript, cpos, upos, hpc, cpc, kpc, inDict, closeReq, qClosed, clientGone, upClosed, delivered, emitted, subEnd, connEnd>>

LPrepare == /\ lpc = "resp" /\ lpc' = "write" /\ act' = <<"LPrepare">>
            /\ UNCHANGED <<cscript, uscript, cpos, upos, hpc, cpc, rpc, kpc, inDict, closeReq, qClosed, clientGone, upClosed, delivered, emitted, subEnd, connEnd>>

LWrite == /\ lpc = "write"
          /\ act' = <<"LWrite", ~clientGone>>
          /\ IF clientGone THEN lpc' = "dq" /\ UNCHANGED delivered            \* write error: return
                           ELSE lpc' = "select" /\ delivered' = delivered + 1
          /\ UNCHANGED <<cscript, uscript, cpos, upos, hpc, cpc, rpc, kpc, inDict, closeReq, qClosed, clientGone, upClosed, emitted, subEnd, connEnd>>

LReturn == /\ lpc \in {"respnil", "closech"} /\ lpc' = "dq" /\ act' = <<"LReturn", lpc>>
           /\ UNCHANGED <<cscript, uscript, cpos, upos, hpc, cpc, rpc, kpc, inDict, closeReq, qClosed, clientGone, upClosed, delivered, emitted, subEnd, connEnd>>

(* deferred: close(se.queryerCloseCh) *)
LCloseQ == /\ lpc = "dq"
           /\ qClosed' = TRUE /\ lpc' = "done" /\ act' = <<"LCloseQ">>
           /\ UNCHANGED <<cscript, uscript, cpos, upos, hpc, cpc, rpc, kpc, inDict, closeReq, clientGone, upClosed, delivered, emitted, subEnd, connEnd>>

-----------------------------------------------------------------------------
(* R: the upstream reader *)
RRead == /\ rpc = "read"
         /\ IF upClosed \/ upos >= Len(uscript)
            THEN /\ upClosed                                   \* nothing to read: blocks unless the connection is closed
                 /\ rpc' = "exit" /\ act' = <<"RRead", "closed">> /\ UNCHANGED <<upos, emitted, subEnd>>
            ELSE LET e == uscript[upos + 1] IN
                 /\ upos' = upos + 1
                 /\ act' = <<"RRead", e>>
                 /\ IF e \in {"data", "error"} THEN rpc' = "send" /\ emitted' = emitted + 1 /\ UNCHANGED subEnd
                                               ELSE rpc' = "exit" /\ subEnd' = TRUE /\ UNCHANGED emitted
         /\ UNCHANGED <<cscript, uscript, cpos, hpc, lpc, cpc, kpc, inDict, closeReq, qClosed, clientGone, upClosed, delivered, connEnd>>

(* select { case resCh <- payload | case <-closeCh }: the second case once Listen is done *)
RAbort == /\ rpc = "send" /\ qClosed
          /\ rpc' = "exit" /\ act' = <<"RAbort">>
          /\ UNCHANGED <<cscript, uscript, cpos, upos, hpc, lpc, cpc, kpc, inDict, closeReq, qClosed, clientGone, upClosed, delivered, emitted, subEnd, connEnd>>

RExit == /\ rpc = "exit"
         /\ upClosed' = TRUE /\ rpc' = "sendnil" /\ act' = <<"RExit">>
         /\ UNCHANGED <<cscript, uscript, cpos, upos, hpc, lpc, cpc, kpc, inDict, closeReq, qClosed, clientGone, delivered, emitted, subEnd, connEnd>>

RNilAbort == /\ rpc = "sendnil" /\ qClosed
             /\ rpc' = "done" /\ act' = <<"RNilAbort">>
             /\ UNCHANGED <<cscript, uscript, cpos, upos, hpc, lpc, cpc, kpc, inDict, closeReq, qClosed, clientGone, upClosed, delivered, emitted, subEnd, connEnd>>

-----------------------------------------------------------------------------
(* K: the upstream closer *)
KRecv == /\ kpc = "wait" /\ qClosed
         /\ kpc' = "close" /\ act' = <<"KRecv">>
         /\ UNCHANGED <<cscript, uscript, cpos, upos, hpc, lpc, cpc, rpc, inDict, closeReq, qClosed, clientGone, upClosed, delivered, emitted, subEnd, connEnd>>

KClose == /\ kpc = "close"
          /\ upClosed' = TRUE /\ kpc' = "done" /\ act' = <<"KClose">>
          /\ UNCHANGED <<cscript, uscript, cpos, upos, hpc, lpc, cpc, rpc, inDict, closeReq, qClosed, clientGone, delivered, emitted, subEnd, connEnd>>

Next == HMsg \/ HExit \/ HCleanAll \/ RStartFail \/ CClose
        \/ LSeeClose \/ LRecvResp \/ LPrepare \/ LWrite \/ LReturn \/ LCloseQ
        \/ RRead \/ RAbort \/ RExit \/ RNilAbort \/ KRecv \/ KClose

Spec == Init /\ [][Next]_vars
FairSpec == Spec /\ WF_vars(Next)

-----------------------------------------------------------------------------
(* the contract, over what the outside can observe *)
Quiescent == ~ENABLED Next
Ended == subEnd \/ connEnd
AllGone == /\ lpc \in {"done", "none"} /\ rpc = "done" /\ kpc = "done" /\ cpc \in {"none", "done"} /\ upClosed
(* C18: after the end nothing is left behind (checked where nothing can happen any more), and    *)
(* nothing can block the protocol before it gets there                                            *)
NoLeak == (Quiescent /\ Ended) => AllGone
(* once the subscription or the connection has ended, everything eventually goes away *)
EventuallyGone == (Ended ~> AllGone)
(* C17, delivery half: never more frames than events; in order by construction *)
DeliveredPrefix == delivered <= emitted
(* a frame is written only while the subscription is wanted: nothing is delivered after Listen saw the close *)
TypeOK == /\ hpc \in {"starting", "read", "exit", "cleanall", "done"}
          /\ lpc \in {"none", "select", "resp", "respnil", "write", "closech", "dq", "done"}
          /\ cpc \in {"none", "enter", "done"}
          /\ rpc \in {"start", "read", "send", "exit", "sendnil", "done"}
          /\ kpc \in {"wait", "close", "done"}
=============================================================================
