SPECIFICATION Spec
CONSTANTS
  Calls = {1, 2, 3}
  Keys = {"n"}
  Rule = "nullkeeps"
INVARIANT OrderIndependent
CHECK_DEADLOCK FALSE
