-------------------------- MODULE SubscriptionAbsMC --------------------------
(* The delivery contract on an abstract payload domain: two subscriptions, up to MaxEv events      *)
(* each; the gateway as a set of per-subscription FIFO forwarders.  TLC checks that the forwarder   *)
(* design satisfies the contract (every Deliver is a Frame of SubscriptionAbs) and that a forwarder *)
(* that may reorder or tag with another id does not.                                                *)
EXTENDS Integers, Sequences, FiniteSets, TLC
CONSTANTS Keys, MaxEv, Faulty
VARIABLES world, subs, emitted, nframes, queue, fifoOK
MCStitch(w, sub, ev) == <<"stitched", w, sub, ev.val>>
A == INSTANCE SubscriptionAbs WITH Stitch <- MCStitch
vars == <<world, subs, emitted, nframes, queue, fifoOK>>
Init == A!AInit /\ world = "w" /\ queue = <<>> /\ fifoOK = TRUE
DoStart(k) == A!Start(k, k) /\ queue' = A!Put(queue, k, <<>>) /\ UNCHANGED fifoOK
DoEmit(k) == /\ A!Has0(subs, k) /\ Len(emitted[k]) < MaxEv
             /\ LET ev == [kind |-> "data", val |-> <<k, Len(emitted[k]) + 1>>, errs |-> <<>>] IN
                A!Emit(k, ev) /\ queue' = [queue EXCEPT ![k] = Append(@, ev)]
             /\ UNCHANGED fifoOK
(* the forwarder of k takes the head of its queue, stitches, writes under k *)
Deliver(k) == /\ A!Has0(queue, k) /\ queue[k] # <<>>
              /\ LET fr == [type |-> "data", bad |-> "", errors |-> <<>>, hasData |-> TRUE, data |-> MCStitch(world, k, Head(queue[k]))] IN
                 /\ fifoOK' = (fifoOK /\ A!FrameOK(k, fr))
                 /\ A!FrameEff(k)
              /\ queue' = [queue EXCEPT ![k] = Tail(@)]
(* a faulty forwarder: writes the frame under another subscription's id *)
Misdeliver(k, other) == /\ Faulty /\ k # other /\ A!Has0(queue, k) /\ queue[k] # <<>> /\ A!Has0(subs, other)
                        /\ LET fr == [type |-> "data", bad |-> "", errors |-> <<>>, hasData |-> TRUE, data |-> MCStitch(world, k, Head(queue[k]))] IN
                           /\ fifoOK' = (fifoOK /\ A!FrameOK(other, fr))
                           /\ A!FrameEff(other)
                        /\ queue' = [queue EXCEPT ![k] = Tail(@)]
Next == \E k \in Keys : DoStart(k) \/ DoEmit(k) \/ Deliver(k) \/ \E o \in Keys : Misdeliver(k, o)
Spec == Init /\ [][Next]_vars /\ WF_vars(\E k \in Keys : Deliver(k))
ContractHolds == fifoOK
Quiet == \A k \in DOMAIN queue : queue[k] = <<>>
QuietMeansDelivered == Quiet => A!AllDelivered
EventuallyDelivered == []<>Quiet
=============================================================================
