----------------------------- MODULE Introspect -----------------------------
(***************************************************************************)
(* C15 / C16 - introspection in both directions, over the abstract schema  *)
(* view of harness/mschema (kinds, descriptions, fields with result type   *)
(* in GraphQL notation - arbitrarily nested list / non-null wrappers -,    *)
(* arguments "Type = default", deprecations, enum values and their         *)
(* deprecations, union members, interfaces, input fields and defaults,     *)
(* custom scalars, directives with arguments and locations, root operation *)
(* type names).                                                             *)
(* C15: Rebuilt(answer of a spec-compliant responder for S) = S.            *)
(* C16: what the gateway answers to the standard introspection query,      *)
(*      rebuilt by a standard client, = the schema it enforces; __type(name) *)
(*      agrees with __schema.types; a probe operation validates iff what it  *)
(*      uses is reported.                                                    *)
(* Features: the schemas are built from a base schema plus a set of at most *)
(* two type-system features, enumerated exhaustively by TLC (Cases).        *)
(***************************************************************************)
EXTENDS Integers, Sequences, FiniteSets, TLC, Json

Features == {"desc-type", "desc-field", "desc-arg", "desc-enum-value", "dep-field", "dep-field-reason", "dep-enum-value",
             "arg-default-int", "arg-default-float", "arg-default-string", "arg-default-bool", "arg-default-enum",
             "arg-default-list", "arg-default-object", "arg-default-null",
             "input-default-int", "input-default-string", "input-default-enum", "input-default-list", "input-default-object",
             "wrap-list", "wrap-nn-list-nn", "wrap-list-list", "wrap-deep", "arg-wrap-deep",
             "custom-scalar", "directive-noargs", "directive-args", "directive-arg-default", "directive-many-locations",
             "root-names", "interface", "interface-chain", "union", "mutation", "subscription", "enum", "input-nested",
             "interface-implements", "arg-default-string-list", "root-sub-name"}

Cases == {{}} \cup {{a, b} : a \in Features, b \in Features}     \* all sets of at most two features

(* ---------------------------------------------------------------- contract *)
Has(r, k) == k \in DOMAIN r
SetOf(s) == {s[i] : i \in DOMAIN s}

FieldDiff(a, b) ==
   IF a.ty # b.ty THEN "type"
   ELSE IF DOMAIN a.args # DOMAIN b.args THEN "argument-names"
   ELSE IF a.args # b.args THEN "argument-type-or-default"
   ELSE IF a.dep # b.dep THEN "deprecation"
   ELSE IF a.desc # b.desc THEN "description"
   ELSE ""

TypeDiff(a, b) ==
   IF a.kind # b.kind THEN "kind"
   ELSE IF a.desc # b.desc THEN "type-description"
   ELSE IF DOMAIN a.fields # DOMAIN b.fields THEN "field-names"
   ELSE IF \E f \in DOMAIN a.fields : a.fields[f] # b.fields[f]
        THEN "field-" \o FieldDiff(a.fields[CHOOSE f \in DOMAIN a.fields : a.fields[f] # b.fields[f]],
                                   b.fields[CHOOSE f \in DOMAIN a.fields : a.fields[f] # b.fields[f]])
   ELSE IF SetOf(a.values) # SetOf(b.values) THEN "enum-values"
   ELSE IF a.valdep # b.valdep THEN "enum-value-deprecation"
   ELSE IF SetOf(a.members) # SetOf(b.members) THEN "union-members"
   ELSE IF SetOf(a.impl) # SetOf(b.impl) \/ a.node # b.node THEN "interfaces"
   ELSE ""

(* first difference between the original schema a and the reconstruction b ("" = equivalent) *)
SchemaDiff(a, b) ==
   IF DOMAIN a.types # DOMAIN b.types
   THEN "types: lost " \o ToString(DOMAIN a.types \ DOMAIN b.types) \o " invented " \o ToString(DOMAIN b.types \ DOMAIN a.types)
   ELSE IF \E t \in DOMAIN a.types : TypeDiff(a.types[t], b.types[t]) # ""
   THEN LET t == CHOOSE x \in DOMAIN a.types : TypeDiff(a.types[x], b.types[x]) # "" IN TypeDiff(a.types[t], b.types[t])
   ELSE IF a.rootNames # b.rootNames THEN "root-type-names"
   ELSE IF \E r \in DOMAIN a.roots : DOMAIN a.roots[r] # DOMAIN b.roots[r] THEN "root-field-names"
   ELSE IF \E r \in DOMAIN a.roots : \E f \in DOMAIN a.roots[r] : a.roots[r][f] # b.roots[r][f]
   THEN LET r == CHOOSE x \in DOMAIN a.roots : \E f \in DOMAIN a.roots[x] : a.roots[x][f] # b.roots[x][f]
            f == CHOOSE y \in DOMAIN a.roots[r] : a.roots[r][y] # b.roots[r][y]
        IN "root-field-" \o FieldDiff(a.roots[r][f], b.roots[r][f])
   ELSE IF a.hasNode # b.hasNode THEN "node-entry-point"
   ELSE IF DOMAIN a.directives # DOMAIN b.directives THEN "directive-names"
   ELSE IF \E d \in DOMAIN a.directives : a.directives[d].args # b.directives[d].args THEN "directive-arguments"
   ELSE IF \E d \in DOMAIN a.directives : SetOf(a.directives[d].locs) # SetOf(b.directives[d].locs) THEN "directive-locations"
   ELSE ""

(* e = [ok, orig, rebuilt, typeAgrees, probes: seq of [reported, validates]] *)
IntroOK(e) == /\ e.ok
              /\ SchemaDiff(e.orig, e.rebuilt) = ""
              /\ e.typeAgrees                                            \* __type(name:) = entry of __schema.types
              /\ e.aliasAgrees                                           \* the same document with every field aliased: same answer
              /\ e.concurrentAgrees                                      \* operations of one batch are answered as if alone
              /\ \A i \in DOMAIN e.probes : e.probes[i].reported = e.probes[i].validates
IntroWhy(e) == IF ~e.ok THEN "not-reconstructed"
               ELSE IF SchemaDiff(e.orig, e.rebuilt) # "" THEN SchemaDiff(e.orig, e.rebuilt)
               ELSE IF ~e.typeAgrees THEN "type-by-name-disagrees-with-schema-types"
               ELSE IF ~e.aliasAgrees THEN "aliased-introspection-answers-differently"
               ELSE IF ~e.concurrentAgrees THEN "introspection-in-a-batch-answers-differently-than-alone"
               ELSE "reported-but-not-enforced-or-vice-versa"

(* ---------------------------------------------------------------- enumeration / trace *)
VARIABLE c
GInit == c \in Cases /\ PrintT("@@" \o ToJson([features |-> c]))
GNext == UNCHANGED c
=============================================================================
