SPECIFICATION TraceSpec
CONSTANTS
  ClientScripts <- TNone
  UpstreamScripts <- TNone
  StartFails <- TBool
  Forceable = FALSE
INVARIANTS TraceInv
CONSTRAINT Watch
POSTCONDITION Report
CHECK_DEADLOCK FALSE
