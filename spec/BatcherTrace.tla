---------------------------- MODULE BatcherTrace ----------------------------
(***************************************************************************)
(* Trace validation for C11: events observed around the real               *)
(* queryer.MultiOpQueryer (its caller and its HTTP transport) must be a    *)
(* behaviour of BatcherAbs.  A Start line begins a run.                    *)
(*   {"ev":"Start","n":5,"m":2}                                            *)
(*   {"ev":"Http","c":0,"mem":[0,1]}  {"ev":"HttpDone","c":0,"st":"ok"}    *)
(*   {"ev":"Return","ok":true,"res":[0,1,2,3,4]}                           *)
(***************************************************************************)
EXTENDS BatcherAbs, Json, IOUtils

Trace == ndJsonDeserialize(IOEnv.VERIF_TRACE)

VARIABLE l
tvars == <<bvars, l>>

TraceInit == l = 1 /\ BInit(0, 1) 

IsEvent(e) == l <= Len(Trace) /\ Trace[l].ev = e /\ l' = l + 1

TStart == /\ IsEvent("Start")
          /\ n' = Trace[l].n /\ mm' = Trace[l].m
          /\ sent' = [i \in 0 .. Trace[l].n - 1 |-> 0]
          /\ open' = {} /\ done' = <<>> /\ returned' = FALSE /\ ret' = [ok |-> TRUE, res |-> <<>>]
THttp     == IsEvent("Http") /\ Http(Trace[l].c, Trace[l].mem)
THttpDone == IsEvent("HttpDone") /\ HttpDone(Trace[l].c, Trace[l].st)
TReturn   == IsEvent("Return") /\ Return([ok |-> Trace[l].ok, res |-> Trace[l].res])

TraceNext == TStart \/ THttp \/ THttpDone \/ TReturn
TraceSpec == TraceInit /\ [][TraceNext]_tvars

TraceAccepted ==
   LET d == TLCGet("stats").diameter IN
   IF d - 1 = Len(Trace) THEN TRUE ELSE Print(<<"@@REJECTED-AT-LINE", d>>, FALSE)
=============================================================================
