----------------------------- MODULE PlanCache -----------------------------
(***************************************************************************)
(* C14 - the plan cache never changes an answer.                            *)
(* An operation is a tuple of components; the plain planner's plan depends  *)
(* on all of them (PlainPlan = the operation itself, abstractly).  The      *)
(* caching planner (planner/cached_planner.go) keeps plans in a map keyed   *)
(* by KeyOf(op) - the projection of the operation the code hashes, taken    *)
(* BEFORE planning (planning rewrites the operation's selection set in      *)
(* place: helper ids are added) - with an expiry time per key; every Plan   *)
(* call first evicts expired entries.  Two requests may be in flight.       *)
(*   Arrive(r, op) -> Evict -> Lookup (hit: use the cell | miss: Compute,   *)
(*   Store under the key taken at arrival) -> Use                           *)
(* Invariant: whenever a request uses a plan, it is PlainPlan of ITS        *)
(* operation.  The behaviours (histories of operations x clock ticks x      *)
(* interleavings of two requests) are replayed on a real caching gateway    *)
(* and a real plain gateway over the same services (direction A).           *)
(***************************************************************************)
EXTENDS Integers, Sequences, FiniteSets, TLC

CONSTANTS Ops,        \* the operation pool: records [sel, kind, name, vdef, frag, ids]
          KeyFields,  \* components the cache key covers
          TTL,        \* 0 | 1 | 9 (ticks)
          MaxLen      \* history length

Reqs == {1, 2}
Proj(op) == [f \in KeyFields |-> op[f]]
KeyOf(op) == Proj(op)
PlainPlan(op) == op
(* planning sanitises the selection set in place: the operation now spells its helper ids out *)
Sanitised(op) == [op EXCEPT !.ids = TRUE]

VARIABLES cache,     \* key -> [plan, expires]
          now,
          st,        \* st[r] \in {"idle","arrived","looked","computed","done"}
          rop,       \* rop[r]: the operation of request r (as its AST currently reads)
          rkey,      \* key taken at arrival
          rplan,     \* plan the request is going to use
          hist,      \* the history so far: sequence of <<"op", r, op>> / <<"tick">> (for replay)
          act

vars == <<cache, now, st, rop, rkey, rplan, hist, act>>

NoOp == [sel |-> "-", kind |-> "-", name |-> "-", vdef |-> "-", frag |-> "-", ids |-> FALSE]

Init == /\ cache = <<>> /\ now = 0
        /\ st = [r \in Reqs |-> "idle"] /\ rop = [r \in Reqs |-> NoOp]
        /\ rkey = [r \in Reqs |-> <<>>] /\ rplan = [r \in Reqs |-> NoOp]
        /\ hist = <<>> /\ act = <<"Init">>

NOps == Cardinality({i \in DOMAIN hist : hist[i][1] = "op"})

Arrive(r, op) == /\ st[r] = "idle" /\ NOps < MaxLen
                 /\ st' = [st EXCEPT ![r] = "arrived"]
                 /\ rop' = [rop EXCEPT ![r] = op]
                 /\ rkey' = [rkey EXCEPT ![r] = KeyOf(op)]        \* hash(ctx) first ...
                 /\ cache' = [k \in {x \in DOMAIN cache : cache[x].expires >= now} |-> cache[k]]   \* ... then clean()
                 /\ hist' = Append(hist, <<"op", r, op>>)
                 /\ act' = <<"Arrive", r>>
                 /\ UNCHANGED <<now, rplan>>

Lookup(r) == /\ st[r] = "arrived"
             /\ IF rkey[r] \in DOMAIN cache
                THEN st' = [st EXCEPT ![r] = "computed"] /\ rplan' = [rplan EXCEPT ![r] = cache[rkey[r]].plan]
                ELSE st' = [st EXCEPT ![r] = "looked"] /\ UNCHANGED rplan
             /\ act' = <<"Lookup", r, rkey[r] \in DOMAIN cache>>
             /\ UNCHANGED <<cache, now, rop, rkey, hist>>

Compute(r) == /\ st[r] = "looked"
              /\ rplan' = [rplan EXCEPT ![r] = PlainPlan(rop[r])]
              /\ rop' = [rop EXCEPT ![r] = Sanitised(rop[r])]       \* in-place rewrite of the operation
              /\ cache' = [k \in DOMAIN cache \cup {rkey[r]} |->
                              IF k = rkey[r] THEN [plan |-> PlainPlan(rop[r]), expires |-> now + TTL] ELSE cache[k]]
              /\ st' = [st EXCEPT ![r] = "computed"]
              /\ act' = <<"Compute", r>>
              /\ UNCHANGED <<now, rkey, hist>>

Use(r) == /\ st[r] = "computed"
          /\ st' = [st EXCEPT ![r] = "idle"]
          /\ act' = <<"Use", r>>
          /\ UNCHANGED <<cache, now, rop, rkey, rplan, hist>>

Tick == /\ now < 12 /\ hist # <<>> /\ hist[Len(hist)][1] # "tick" /\ NOps < MaxLen
        /\ now' = now + 2
        /\ hist' = Append(hist, <<"tick">>)
        /\ act' = <<"Tick">>
        /\ UNCHANGED <<cache, st, rop, rkey, rplan>>

Next == (\E r \in Reqs : (\E op \in Ops : Arrive(r, op)) \/ Lookup(r) \/ Compute(r) \/ Use(r)) \/ Tick
Spec == Init /\ [][Next]_vars

(* the plan a request is about to use is the plain planner's plan for ITS operation (up to the *)
(* in-place sanitisation, which does not change what the plan asks the services for)           *)
SamePlan(p, op) == [p EXCEPT !.ids = FALSE] = [op EXCEPT !.ids = FALSE] /\ (op.ids => TRUE)
UsesRightPlan == \A r \in Reqs : st[r] = "computed" => SamePlan(rplan[r], rop[r])
=============================================================================
