SPECIFICATION Spec
CONSTANTS
  ClientScripts <- MCClient
  UpstreamScripts <- MCUpstream
VIEW NoAct
INVARIANTS NoCrash NoLeak DeliveredPrefix
CHECK_DEADLOCK FALSE
