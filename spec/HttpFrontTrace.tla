--------------------------- MODULE HttpFrontTrace ---------------------------
(* Trace validation for C07: {"ev":"Http","shape":{..}} then {"ev":"Answer",..}; see HttpFront.tla *)
EXTENDS HttpFront, IOUtils

Trace == ndJsonDeserialize(IOEnv.VERIF_TRACE)
VARIABLES cur, l
Refused(what) == Print(<<"@@REFUSED", l, what>>, TRUE)
TInit == cur = [f |-> "none"] /\ l = 1 /\ shape = [f |-> "none"]
THttp == l <= Len(Trace) /\ Trace[l].ev = "Http" /\ l' = l + 1 /\ cur' = Trace[l].shape /\ UNCHANGED shape
TAnswer == /\ l <= Len(Trace) /\ Trace[l].ev = "Answer" /\ l' = l + 1
           /\ (IF AnswerOK(cur, Trace[l]) THEN TRUE ELSE Refused(IF cur.f = "fuzz" THEN "{}" ELSE ToJson(Outcome(cur))))
           /\ UNCHANGED <<cur, shape>>
TReset == l <= Len(Trace) /\ Trace[l].ev = "Reset" /\ l' = l + 1 /\ UNCHANGED <<cur, shape>>
TNext == THttp \/ TAnswer \/ TReset
TraceSpec == TInit /\ [][TNext]_<<cur, l, shape>>
TraceAccepted ==
   LET d == TLCGet("stats").diameter IN
   IF d - 1 = Len(Trace) THEN TRUE ELSE Print(<<"@@REJECTED-AT-LINE", d>>, FALSE)
=============================================================================
