INIT GInit
NEXT GNext
CHECK_DEADLOCK FALSE
