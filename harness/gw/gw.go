// Package gw assembles the real gateway (pebbles.NewGateway: real merger, planner, executor,
// MultiOpQueryer) over the fake services of a world and records what the specifications need:
// the plans produced, the Queryer.Query calls made, the requests the services received.
package gw

import (
	"bytes"
	"encoding/json"
	"fmt"
	"net/http"
	"net/http/httptest"
	"sync"
	"time"

	"github.com/buildbuildio/pebbles"
	"github.com/buildbuildio/pebbles/introspection"
	"github.com/buildbuildio/pebbles/merger"
	"github.com/buildbuildio/pebbles/planner"
	"github.com/buildbuildio/pebbles/queryer"
	"github.com/buildbuildio/pebbles/requests"
	"github.com/vektah/gqlparser/v2"
	"github.com/vektah/gqlparser/v2/ast"

	"verifharness/fakesvc"
	"verifharness/world"
)

type Config struct {
	Cached       bool   `json:"cached"`
	TTLms        int    `json:"ttl_ms"`
	SanitizeNode bool   `json:"sanitize"`
	IDHint       bool   `json:"idhint"`
	BatchSize    int    `json:"batch"`
	RealIntro    bool   `json:"realintro"` // real ParallelRemoteSchemaIntrospector over the fake transport
	Order        []int  `json:"order,omitempty"`
	Name         string `json:"name"`
}

type StepRec struct {
	URL            string             `json:"url"`
	ParentType     string             `json:"parentType"`
	InsertionPoint []string           `json:"insertionPoint"`
	Query          string             `json:"query"`
	Vars           []string           `json:"vars"`
	OpName         string             `json:"opName"`
	Then           []*StepRec         `json:"then"`
	Depth          int                `json:"depth"`
	Internal       bool               `json:"internal"`
	Facts          *fakesvc.StepFacts `json:"facts"`
}

type PlanRec struct {
	Roots []*StepRec                     `json:"roots"`
	Scrub map[string]map[string][]string `json:"scrub"`
	Err   string                         `json:"err,omitempty"`
}

type QCall struct {
	URL string `json:"url"`
	N   int    `json:"n"`
	Dup bool   `json:"dup"` // two requests with the same text and {id} as only variable
}

type GW struct {
	G      *pebbles.Gateway
	Net    *fakesvc.Net
	W      *world.World
	Cfg    Config
	mu     sync.Mutex
	Plans  []*PlanRec
	Calls  []QCall
	cached *recPlanner
}

type sdlIntrospector struct{ w *world.World }

func (s *sdlIntrospector) IntrospectRemoteSchemas(urls ...string) ([]*ast.Schema, error) {
	var out []*ast.Schema
	for _, u := range urls {
		var svc *world.Service
		for _, x := range s.w.Services {
			if x.URL == u {
				svc = x
			}
		}
		sch, err := gqlparser.LoadSchema(&ast.Source{Name: u, Input: s.w.ServiceSDL(svc)})
		if err != nil {
			return nil, err
		}
		out = append(out, sch)
	}
	return out, nil
}

type recPlanner struct {
	inner planner.Planner
	g     *GW
}

func (g *GW) stepRec(s *planner.QueryPlanStep, depth int) *StepRec {
	r := &StepRec{URL: s.URL, ParentType: s.ParentType, InsertionPoint: append([]string{}, s.InsertionPoint...), Query: s.QueryString,
		Vars: append([]string{}, s.VariablesList...), Then: []*StepRec{}, Depth: depth}
	if s.OperationName != nil {
		r.OpName = *s.OperationName
	}
	if svc := g.Net.Service(s.URL); svc != nil {
		r.Facts = svc.Facts(s.QueryString)
	} else {
		r.Internal = true
		r.Facts = &fakesvc.StepFacts{Sel: []*world.Sel{}, Declared: map[string]string{}, Defaults: map[string]string{}, Used: []string{}}
	}
	for _, t := range s.Then {
		r.Then = append(r.Then, g.stepRec(t, depth+1))
	}
	return r
}

// Flat lists all steps of a plan.
func (p *PlanRec) Flat() []*StepRec {
	var out []*StepRec
	var walk func(s *StepRec)
	walk = func(s *StepRec) {
		out = append(out, s)
		for _, t := range s.Then {
			walk(t)
		}
	}
	for _, r := range p.Roots {
		walk(r)
	}
	return out
}

func (p *recPlanner) Plan(ctx *planner.PlanningContext) (*planner.QueryPlan, error) {
	qp, err := p.inner.Plan(ctx)
	rec := &PlanRec{Roots: []*StepRec{}, Scrub: map[string]map[string][]string{}}
	if err != nil {
		rec.Err = err.Error()
	} else {
		for _, s := range qp.RootSteps {
			rec.Roots = append(rec.Roots, p.g.stepRec(s, 0))
		}
		for k, v := range qp.ScrubFields {
			rec.Scrub[k] = v
		}
	}
	p.g.mu.Lock()
	p.g.Plans = append(p.g.Plans, rec)
	p.g.mu.Unlock()
	return qp, err
}

type recQueryer struct {
	inner queryer.Queryer
	g     *GW
}

func (q *recQueryer) Query(rs []*requests.Request) ([]map[string]interface{}, error) {
	seen := map[string]bool{}
	dup := false
	for _, r := range rs {
		if len(r.Variables) == 1 {
			if id, ok := r.Variables["id"]; ok {
				k := fmt.Sprintf("%v|%s", id, r.Query)
				if seen[k] {
					dup = true
				}
				seen[k] = true
			}
		}
	}
	q.g.mu.Lock()
	q.g.Calls = append(q.g.Calls, QCall{URL: q.inner.URL(), N: len(rs), Dup: dup})
	q.g.mu.Unlock()
	return q.inner.Query(rs)
}
func (q *recQueryer) Subscribe(r *requests.Request, c <-chan struct{}, out chan *requests.Response) error {
	return q.inner.Subscribe(r, c, out)
}
func (q *recQueryer) URL() string { return q.inner.URL() }

// New starts a gateway over the world's services.  A start-up error is returned as is (C05).
func New(w *world.World, cfg Config) (*GW, error) {
	n, err := fakesvc.NewNet(w)
	if err != nil {
		return nil, fmt.Errorf("harness: %v", err)
	}
	g := &GW{Net: n, W: w, Cfg: cfg}
	if cfg.BatchSize == 0 {
		cfg.BatchSize = 3000
	}
	client := &http.Client{Transport: n}
	var urls []string
	if len(cfg.Order) == len(w.Services) {
		for _, i := range cfg.Order {
			urls = append(urls, w.Services[i].URL)
		}
	} else {
		for _, s := range w.Services {
			urls = append(urls, s.URL)
		}
	}
	var inner planner.Planner
	if cfg.Cached {
		ttl := time.Duration(cfg.TTLms) * time.Millisecond
		if cfg.TTLms == 0 {
			ttl = time.Hour
		}
		inner = planner.NewCachedPlanner(ttl)
	} else {
		var sp planner.SequentialPlanner
		inner = sp
	}
	rp := &recPlanner{inner: inner, g: g}
	g.cached = rp
	opts := []pebbles.GatewayOption{
		pebbles.WithPlanner(rp),
		pebbles.WithQueryerFactory(func(ctx *planner.PlanningContext, url string) queryer.Queryer {
			return &recQueryer{inner: queryer.NewMultiOpQueryer(url, cfg.BatchSize).WithHTTPClient(client), g: g}
		}),
	}
	if cfg.RealIntro {
		opts = append(opts, pebbles.WithRemoteSchemaIntrospector(&introspection.ParallelRemoteSchemaIntrospector{
			Factory: func(url string) queryer.Queryer { return queryer.NewMultiOpQueryer(url, 1).WithHTTPClient(client) },
		}))
	} else {
		opts = append(opts, pebbles.WithRemoteSchemaIntrospector(&sdlIntrospector{w: w}))
	}
	if cfg.SanitizeNode {
		var m merger.SanitizeNodeMergerFunc
		opts = append(opts, pebbles.WithMerger(m))
	}
	if cfg.IDHint {
		opts = append(opts, pebbles.WithGetParentTypeFromIDFunc(func(id interface{}) (string, bool) {
			s, ok := id.(string)
			if !ok {
				return "", false
			}
			// "If it fails to determine, return false": undecided for about a third of the ids
			h := 0
			for _, c := range s {
				h = h*31 + int(c)
			}
			if e := w.Ents[s]; e != nil && h%3 != 0 {
				return e.Type, true
			}
			return "", false
		}))
	}
	gwy, err := pebbles.NewGateway(urls, opts...)
	if err != nil {
		return nil, err
	}
	g.G = gwy
	return g, nil
}

// SetCachedPlanner replaces the planner of a gateway built with Config.Cached by a caching planner
// with exactly this TTL (histories that straddle expiry need TTLs of a few milliseconds).
func (g *GW) SetCachedPlanner(ttl time.Duration) {
	g.cached.inner = planner.NewCachedPlanner(ttl)
}

func (g *GW) ResetLogs() {
	g.mu.Lock()
	g.Plans = nil
	g.Calls = nil
	g.mu.Unlock()
	g.Net.Reset()
}

func (g *GW) Snapshot() ([]*PlanRec, []QCall) {
	g.mu.Lock()
	defer g.mu.Unlock()
	return append([]*PlanRec{}, g.Plans...), append([]QCall{}, g.Calls...)
}

// Post sends a body to the gateway's handler and returns status and body.
func (g *GW) Post(body []byte, contentType string) (int, []byte) {
	req := httptest.NewRequest("POST", "/graphql", bytes.NewReader(body))
	if contentType != "" {
		req.Header.Set("Content-Type", contentType)
	}
	rec := httptest.NewRecorder()
	g.G.Handler(rec, req)
	return rec.Code, rec.Body.Bytes()
}

// Do sends one operation and decodes the {data, errors} envelope.
func (g *GW) Do(op *world.Op) (int, map[string]interface{}, error) {
	return g.DoText(g.W.DocText(op), op.VarsToGo(), op.Name)
}

// DoText sends an operation given as text.
func (g *GW) DoText(text string, vars map[string]interface{}, opName string) (int, map[string]interface{}, error) {
	payload := map[string]interface{}{"query": text, "variables": vars}
	if opName != "" {
		payload["operationName"] = opName
	}
	b, _ := json.Marshal(payload)
	st, body := g.Post(b, "application/json")
	var env map[string]interface{}
	if err := json.Unmarshal(body, &env); err != nil {
		return st, nil, fmt.Errorf("response is not a JSON object: %s", body)
	}
	return st, env, nil
}
