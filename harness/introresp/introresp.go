// Package introresp is a spec-compliant introspection responder written for the harness (NOT the
// repository's resolver): it builds the data graph the GraphQL specification prescribes for
// __schema over a gqlparser ast.Schema and evaluates an arbitrary introspection query on it
// (fragments, aliases, arguments includeDeprecated / name, variables).
package introresp

import (
	"fmt"
	"sort"
	"strings"

	"github.com/vektah/gqlparser/v2/ast"
)

type obj = map[string]interface{}

func typeRef(t *ast.Type, sch *ast.Schema) obj {
	if t == nil {
		return nil
	}
	if t.NonNull {
		c := *t
		c.NonNull = false
		return obj{"__k": "__Type", "kind": "NON_NULL", "name": nil, "ofType": typeRef(&c, sch)}
	}
	if t.Elem != nil {
		return obj{"__k": "__Type", "kind": "LIST", "name": nil, "ofType": typeRef(t.Elem, sch)}
	}
	return obj{"__k": "__TypeLazy", "name": t.NamedType}
}

func deprecation(ds ast.DirectiveList) (bool, interface{}) {
	d := ds.ForName("deprecated")
	if d == nil {
		return false, nil
	}
	if a := d.Arguments.ForName("reason"); a != nil && a.Value != nil {
		return true, a.Value.Raw
	}
	return true, "No longer supported"
}

func desc(s string) interface{} {
	if s == "" {
		return nil
	}
	return s
}

func inputValue(name, description string, t *ast.Type, def *ast.Value, sch *ast.Schema) obj {
	var dv interface{}
	if def != nil {
		dv = def.String() // a GraphQL literal, as a string (spec: __InputValue.defaultValue)
	}
	return obj{"__k": "__InputValue", "name": name, "description": desc(description), "type": typeRef(t, sch), "defaultValue": dv}
}

func fullType(def *ast.Definition, sch *ast.Schema) obj {
	o := obj{"__k": "__Type", "kind": string(def.Kind), "name": def.Name, "description": desc(def.Description), "ofType": nil,
		"fields": nil, "inputFields": nil, "interfaces": nil, "enumValues": nil, "possibleTypes": nil, "specifiedByURL": nil}
	switch def.Kind {
	case ast.Object, ast.Interface:
		fs := []interface{}{}
		for _, f := range def.Fields {
			if strings.HasPrefix(f.Name, "__") {
				continue
			}
			args := []interface{}{}
			for _, a := range f.Arguments {
				args = append(args, inputValue(a.Name, a.Description, a.Type, a.DefaultValue, sch))
			}
			dep, reason := deprecation(f.Directives)
			fs = append(fs, obj{"__k": "__Field", "name": f.Name, "description": desc(f.Description), "args": args, "type": typeRef(f.Type, sch),
				"isDeprecated": dep, "deprecationReason": reason})
		}
		o["fields"] = fs
		is := []interface{}{}
		for _, i := range def.Interfaces {
			is = append(is, obj{"__k": "__TypeLazy", "name": i})
		}
		o["interfaces"] = is
		if def.Kind == ast.Interface {
			ps := []interface{}{}
			for _, p := range sch.PossibleTypes[def.Name] {
				ps = append(ps, obj{"__k": "__TypeLazy", "name": p.Name})
			}
			o["possibleTypes"] = ps
		}
	case ast.Union:
		ps := []interface{}{}
		for _, p := range def.Types {
			ps = append(ps, obj{"__k": "__TypeLazy", "name": p})
		}
		o["possibleTypes"] = ps
	case ast.Enum:
		vs := []interface{}{}
		for _, v := range def.EnumValues {
			dep, reason := deprecation(v.Directives)
			vs = append(vs, obj{"__k": "__EnumValue", "name": v.Name, "description": desc(v.Description), "isDeprecated": dep, "deprecationReason": reason})
		}
		o["enumValues"] = vs
	case ast.InputObject:
		fs := []interface{}{}
		for _, f := range def.Fields {
			fs = append(fs, inputValue(f.Name, f.Description, f.Type, f.DefaultValue, sch))
		}
		o["inputFields"] = fs
	}
	return o
}

// Responder answers introspection queries for one schema.
type Responder struct {
	Sch   *ast.Schema
	types map[string]obj
	root  obj
}

func New(sch *ast.Schema) *Responder {
	r := &Responder{Sch: sch, types: map[string]obj{}}
	var names []string
	for n := range sch.Types {
		names = append(names, n)
	}
	sort.Strings(names)
	all := []interface{}{}
	for _, n := range names {
		t := fullType(sch.Types[n], sch)
		r.types[n] = t
		all = append(all, t)
	}
	ds := []interface{}{}
	var dn []string
	for n := range sch.Directives {
		dn = append(dn, n)
	}
	sort.Strings(dn)
	for _, n := range dn {
		d := sch.Directives[n]
		args := []interface{}{}
		for _, a := range d.Arguments {
			args = append(args, inputValue(a.Name, a.Description, a.Type, a.DefaultValue, sch))
		}
		locs := []interface{}{}
		for _, l := range d.Locations {
			locs = append(locs, string(l))
		}
		ds = append(ds, obj{"__k": "__Directive", "name": d.Name, "description": desc(d.Description), "locations": locs, "args": args, "isRepeatable": d.IsRepeatable})
	}
	named := func(d *ast.Definition) interface{} {
		if d == nil {
			return nil
		}
		return obj{"__k": "__TypeLazy", "name": d.Name}
	}
	r.root = obj{"__k": "__Schema", "description": nil, "types": all, "queryType": named(sch.Query), "mutationType": named(sch.Mutation),
		"subscriptionType": named(sch.Subscription), "directives": ds}
	return r
}

func (r *Responder) resolve(v interface{}) interface{} {
	if o, ok := v.(obj); ok && o["__k"] == "__TypeLazy" {
		if t, ok := r.types[o["name"].(string)]; ok {
			return t
		}
		return nil
	}
	return v
}

func (r *Responder) project(v interface{}, ss ast.SelectionSet, vars map[string]interface{}) interface{} {
	v = r.resolve(v)
	switch x := v.(type) {
	case nil:
		return nil
	case []interface{}:
		out := make([]interface{}, len(x))
		for i, e := range x {
			out[i] = r.project(e, ss, vars)
		}
		return out
	case obj:
		out := map[string]interface{}{}
		r.collect(x, ss, vars, out)
		return out
	}
	return v
}

func (r *Responder) collect(x obj, ss ast.SelectionSet, vars map[string]interface{}, out map[string]interface{}) {
	for _, sel := range ss {
		switch s := sel.(type) {
		case *ast.Field:
			if s.Name == "__typename" {
				out[s.Alias] = x["__k"]
				continue
			}
			val, ok := x[s.Name]
			if !ok {
				panic(fmt.Sprintf("introresp: no field %s on %v", s.Name, x["__k"]))
			}
			if s.Name == "fields" || s.Name == "enumValues" {
				incl := false
				if a := s.Arguments.ForName("includeDeprecated"); a != nil {
					if b, err := a.Value.Value(vars); err == nil {
						incl, _ = b.(bool)
					}
				}
				if lst, ok := val.([]interface{}); ok && !incl {
					var kept []interface{}
					for _, e := range lst {
						if !e.(obj)["isDeprecated"].(bool) {
							kept = append(kept, e)
						}
					}
					if kept == nil {
						kept = []interface{}{}
					}
					val = kept
				}
			}
			if len(s.SelectionSet) > 0 {
				out[s.Alias] = r.project(val, s.SelectionSet, vars)
			} else {
				out[s.Alias] = val
			}
		case *ast.InlineFragment:
			r.collect(x, s.SelectionSet, vars, out)
		case *ast.FragmentSpread:
			r.collect(x, s.Definition.SelectionSet, vars, out)
		}
	}
}

// Answer evaluates the selection set of an introspection operation (root fields __schema and
// __type(name:)).
func (r *Responder) Answer(op *ast.OperationDefinition, vars map[string]interface{}) map[string]interface{} {
	out := map[string]interface{}{}
	for _, sel := range op.SelectionSet {
		f, ok := sel.(*ast.Field)
		if !ok {
			continue
		}
		switch f.Name {
		case "__schema":
			out[f.Alias] = r.project(r.root, f.SelectionSet, vars)
		case "__type":
			name := ""
			if a := f.Arguments.ForName("name"); a != nil {
				if v, err := a.Value.Value(vars); err == nil {
					name, _ = v.(string)
				}
			}
			if t, ok := r.types[name]; ok {
				out[f.Alias] = r.project(t, f.SelectionSet, vars)
			} else {
				out[f.Alias] = nil
			}
		case "__typename":
			out[f.Alias] = "Query"
		}
	}
	return out
}
