package introresp

import (
	"fmt"
	"sort"
	"strings"

	"verifharness/mschema"
)

// StandardQuery is the introspection query standard clients send (graphql-js getIntrospectionQuery,
// with nine levels of ofType).
const StandardQuery = `
query IntrospectionQuery {
  __schema {
    queryType { name }
    mutationType { name }
    subscriptionType { name }
    types { ...FullType }
    directives { name description locations args { ...InputValue } }
  }
}
fragment FullType on __Type {
  kind name description
  fields(includeDeprecated: true) { name description args { ...InputValue } type { ...TypeRef } isDeprecated deprecationReason }
  inputFields { ...InputValue }
  interfaces { ...TypeRef }
  enumValues(includeDeprecated: true) { name description isDeprecated deprecationReason }
  possibleTypes { ...TypeRef }
}
fragment InputValue on __InputValue { name description type { ...TypeRef } defaultValue }
fragment TypeRef on __Type {
  kind name ofType { kind name ofType { kind name ofType { kind name ofType { kind name ofType { kind name ofType { kind name ofType { kind name ofType { kind name } } } } } } } }
}
`

func str(v interface{}) string {
	if s, ok := v.(string); ok {
		return s
	}
	return ""
}

func list(v interface{}) []interface{} {
	l, _ := v.([]interface{})
	return l
}

func m(v interface{}) map[string]interface{} {
	x, _ := v.(map[string]interface{})
	return x
}

func refString(v interface{}) string {
	r := m(v)
	if r == nil {
		return "?"
	}
	switch str(r["kind"]) {
	case "NON_NULL":
		return refString(r["ofType"]) + "!"
	case "LIST":
		return "[" + refString(r["ofType"]) + "]"
	}
	return str(r["name"])
}

func inputSig(v interface{}) string {
	iv := m(v)
	s := refString(iv["type"])
	if d, ok := iv["defaultValue"].(string); ok {
		s += " = " + d
	}
	return s
}

func dep(v map[string]interface{}) string {
	if b, _ := v["isDeprecated"].(bool); !b {
		return ""
	}
	r := str(v["deprecationReason"])
	if r == "" || r == "No longer supported" {
		return "-"
	}
	return r
}

// Rebuild reconstructs the abstract schema from the `data` of an answer to StandardQuery, the way a
// standard client (buildClientSchema) does.
func Rebuild(data map[string]interface{}) (*mschema.Schema, error) {
	sc := m(data["__schema"])
	if sc == nil {
		return nil, fmt.Errorf("no __schema in the answer")
	}
	out := (&mschema.Schema{}).Fill()
	rootOf := map[string]string{}
	for r, k := range map[string]string{"Query": "queryType", "Mutation": "mutationType", "Subscription": "subscriptionType"} {
		if t := m(sc[k]); t != nil {
			rootOf[str(t["name"])] = r
			out.RootNames[r] = str(t["name"])
		}
	}
	for _, tv := range list(sc["types"]) {
		t := m(tv)
		name := str(t["name"])
		if strings.HasPrefix(name, "__") || name == "String" || name == "Int" || name == "Float" || name == "Boolean" || name == "ID" || name == "Node" {
			continue
		}
		fields := map[string]*mschema.Field{}
		kind := str(t["kind"])
		// a standard client reads `fields` of objects and interfaces and `inputFields` of input objects
		fl, ifl := list(t["fields"]), list(t["inputFields"])
		if kind != "OBJECT" && kind != "INTERFACE" {
			fl = nil
		}
		if kind != "INPUT_OBJECT" {
			ifl = nil
		}
		for _, fv := range fl {
			f := m(fv)
			fd := &mschema.Field{Ty: refString(f["type"]), Args: map[string]string{}, Dep: dep(f), Desc: str(f["description"])}
			for _, av := range list(f["args"]) {
				fd.Args[str(m(av)["name"])] = inputSig(av)
			}
			fields[str(f["name"])] = fd
		}
		for _, fv := range ifl {
			f := m(fv)
			fields[str(f["name"])] = &mschema.Field{Ty: inputSig(fv), Args: map[string]string{}, Desc: str(f["description"])}
		}
		if r, isRoot := rootOf[name]; isRoot {
			if r == "Query" {
				if _, has := fields["node"]; has {
					out.HasNode = true
					delete(fields, "node")
				}
			}
			out.Roots[r] = fields
			continue
		}
		td := &mschema.Type{Kind: str(t["kind"]), Fields: fields, Values: []string{}, Members: []string{}, Impl: []string{}, Desc: str(t["description"]), ValDep: map[string]string{}}
		for _, iv := range list(t["interfaces"]) {
			n := str(m(iv)["name"])
			if n == "Node" {
				td.Node = true
			} else {
				td.Impl = append(td.Impl, n)
			}
		}
		sort.Strings(td.Impl)
		if td.Node {
			delete(td.Fields, "id")
		}
		for _, ev := range list(t["enumValues"]) {
			e := m(ev)
			td.Values = append(td.Values, str(e["name"]))
			if d := dep(e); d != "" {
				td.ValDep[str(e["name"])] = d
			}
		}
		sort.Strings(td.Values)
		if td.Kind == "UNION" {
			for _, pv := range list(t["possibleTypes"]) {
				td.Members = append(td.Members, str(m(pv)["name"]))
			}
			sort.Strings(td.Members)
		}
		out.Types[name] = td
	}
	for _, dv := range list(sc["directives"]) {
		d := m(dv)
		switch str(d["name"]) {
		case "skip", "include", "deprecated", "specifiedBy":
			continue
		}
		dd := &mschema.Directive{Args: map[string]string{}, Locs: []string{}}
		for _, av := range list(d["args"]) {
			dd.Args[str(m(av)["name"])] = inputSig(av)
		}
		for _, l := range list(d["locations"]) {
			dd.Locs = append(dd.Locs, str(l))
		}
		sort.Strings(dd.Locs)
		out.Directives[str(d["name"])] = dd
	}
	return out.Fill(), nil
}
