// Package mschema is the abstract type-system view used by the merge specifications
// (spec/Merge*.tla) and by the introspection checks: a schema as plain data - kinds, fields with
// result type and arguments (type, default), enum values, union members, implemented interfaces,
// input fields, directives - with a renderer to SDL and a projection from gqlparser's ast.Schema.
package mschema

import (
	"fmt"
	"sort"
	"strings"

	"github.com/vektah/gqlparser/v2/ast"
)

type Field struct {
	Ty   string            `json:"ty"`   // result type, GraphQL notation: [String!]!
	Args map[string]string `json:"args"` // name -> "Type" or "Type = default"
	Dep  string            `json:"dep"`  // "" | "-" (deprecated without reason) | reason
	Desc string            `json:"desc"`
}

type Type struct {
	Kind    string            `json:"kind"` // OBJECT INTERFACE UNION ENUM INPUT_OBJECT SCALAR
	Node    bool              `json:"node"` // implements Node
	Fields  map[string]*Field `json:"fields"`
	Values  []string          `json:"values"`  // enum values (sorted)
	Members []string          `json:"members"` // union members (sorted)
	Impl    []string          `json:"impl"`    // implemented interfaces other than Node (sorted)
	Desc    string            `json:"desc"`
	ValDep  map[string]string `json:"valdep"` // deprecated enum values: value -> "-" | reason
	Order   []string          `json:"-"`
}

type Directive struct {
	Args map[string]string `json:"args"`
	Locs []string          `json:"locs"`
}

type Schema struct {
	URL        string                       `json:"url"`
	Types      map[string]*Type             `json:"types"` // without the root types and without Node
	Roots      map[string]map[string]*Field `json:"roots"` // Query / Mutation / Subscription -> fields (without node)
	HasNode    bool                         `json:"hasNode"`
	Directives map[string]*Directive        `json:"directives"`
	RootNames  map[string]string            `json:"rootNames"` // Query/Mutation/Subscription -> type name in this schema
}

func (s *Schema) rootName(r string) string {
	if n := s.RootNames[r]; n != "" {
		return n
	}
	return r
}

func descBlock(indent, d string) string {
	if d == "" {
		return ""
	}
	return indent + "\"\"\"" + d + "\"\"\"\n"
}

func sortedKeys(m map[string]*Field) []string {
	out := make([]string, 0, len(m))
	for k := range m {
		out = append(out, k)
	}
	sort.Strings(out)
	return out
}

func renderField(name string, f *Field) string {
	s := descBlock("  ", f.Desc) + "  " + name
	if len(f.Args) > 0 {
		var names []string
		for a := range f.Args {
			names = append(names, a)
		}
		sort.Strings(names)
		var parts []string
		for _, a := range names {
			parts = append(parts, a+": "+f.Args[a])
		}
		s += "(" + strings.Join(parts, ", ") + ")"
	}
	s += ": " + f.Ty
	if f.Dep == "-" {
		s += " @deprecated"
	} else if f.Dep != "" {
		s += fmt.Sprintf(" @deprecated(reason: %q)", f.Dep)
	}
	return s + "\n"
}

// SDL renders the schema of one service.
func (s *Schema) SDL() string {
	var b strings.Builder
	if s.HasNode {
		b.WriteString("interface Node {\n  id: ID!\n}\n\n")
	}
	var dnames []string
	for d := range s.Directives {
		dnames = append(dnames, d)
	}
	sort.Strings(dnames)
	for _, d := range dnames {
		dd := s.Directives[d]
		b.WriteString("directive @" + d)
		if len(dd.Args) > 0 {
			var names []string
			for a := range dd.Args {
				names = append(names, a)
			}
			sort.Strings(names)
			var parts []string
			for _, a := range names {
				parts = append(parts, a+": "+dd.Args[a])
			}
			b.WriteString("(" + strings.Join(parts, ", ") + ")")
		}
		b.WriteString(" on " + strings.Join(dd.Locs, " | ") + "\n\n")
	}
	var names []string
	for t := range s.Types {
		names = append(names, t)
	}
	sort.Strings(names)
	for _, t := range names {
		td := s.Types[t]
		b.WriteString(descBlock("", td.Desc))
		switch td.Kind {
		case "SCALAR":
			b.WriteString("scalar " + t + "\n\n")
		case "UNION":
			b.WriteString("union " + t + " = " + strings.Join(td.Members, " | ") + "\n\n")
		case "ENUM":
			b.WriteString("enum " + t + " {\n")
			for _, v := range td.Values {
				b.WriteString("  " + v)
				if r, ok := td.ValDep[v]; ok {
					if r == "-" {
						b.WriteString(" @deprecated")
					} else {
						b.WriteString(fmt.Sprintf(" @deprecated(reason: %q)", r))
					}
				}
				b.WriteString("\n")
			}
			b.WriteString("}\n\n")
		default:
			kw := map[string]string{"OBJECT": "type", "INTERFACE": "interface", "INPUT_OBJECT": "input"}[td.Kind]
			head := kw + " " + t
			var impl []string
			if td.Node {
				impl = append(impl, "Node")
			}
			impl = append(impl, td.Impl...)
			if len(impl) > 0 && td.Kind == "OBJECT" {
				head += " implements " + strings.Join(impl, " & ")
			}
			b.WriteString(head + " {\n")
			if td.Node {
				b.WriteString("  id: ID!\n")
			}
			order := td.Order
			if len(order) == 0 {
				order = sortedKeys(td.Fields)
			}
			for _, f := range order {
				if f == "id" && td.Node {
					continue
				}
				b.WriteString(renderField(f, td.Fields[f]))
			}
			b.WriteString("}\n\n")
		}
	}
	for _, root := range []string{"Query", "Mutation", "Subscription"} {
		fs := s.Roots[root]
		if root != "Query" && len(fs) == 0 {
			continue
		}
		b.WriteString("type " + s.rootName(root) + " {\n")
		if root == "Query" && s.HasNode {
			b.WriteString("  node(id: ID!): Node\n")
		}
		for _, f := range sortedKeys(fs) {
			b.WriteString(renderField(f, fs[f]))
		}
		b.WriteString("}\n\n")
	}
	custom := false
	for _, r := range []string{"Query", "Mutation", "Subscription"} {
		if s.rootName(r) != r {
			custom = true
		}
	}
	if custom {
		b.WriteString("schema {\n  query: " + s.rootName("Query") + "\n")
		if len(s.Roots["Mutation"]) > 0 {
			b.WriteString("  mutation: " + s.rootName("Mutation") + "\n")
		}
		if len(s.Roots["Subscription"]) > 0 {
			b.WriteString("  subscription: " + s.rootName("Subscription") + "\n")
		}
		b.WriteString("}\n")
	}
	return b.String()
}

func isBuiltinScalar(n string) bool {
	switch n {
	case "String", "Int", "Float", "Boolean", "ID":
		return true
	}
	return false
}

func absField(fd *ast.FieldDefinition) *Field {
	f := &Field{Ty: fd.Type.String(), Args: map[string]string{}, Desc: fd.Description}
	for _, a := range fd.Arguments {
		s := a.Type.String()
		if a.DefaultValue != nil {
			s += " = " + a.DefaultValue.String()
		}
		f.Args[a.Name] = s
	}
	if fd.DefaultValue != nil { // input field default
		f.Ty += " = " + fd.DefaultValue.String()
	}
	if d := fd.Directives.ForName("deprecated"); d != nil {
		f.Dep = "-"
		if r := d.Arguments.ForName("reason"); r != nil && r.Value != nil {
			f.Dep = r.Value.Raw
		}
	}
	return f
}

// Abs projects a gqlparser schema to the abstract view (built-ins and the Node interface left out;
// the `node` root field reported through HasNode).
func Abs(sch *ast.Schema) *Schema {
	out := &Schema{Types: map[string]*Type{}, Roots: map[string]map[string]*Field{}, Directives: map[string]*Directive{}, RootNames: map[string]string{}}
	rootOf := map[string]string{}
	for r, d := range map[string]*ast.Definition{"Query": sch.Query, "Mutation": sch.Mutation, "Subscription": sch.Subscription} {
		if d != nil {
			rootOf[d.Name] = r
			out.RootNames[r] = d.Name
		}
	}
	for name, def := range sch.Types {
		if strings.HasPrefix(name, "__") || isBuiltinScalar(name) || name == "Node" {
			continue
		}
		if r, isRoot := rootOf[name]; isRoot {
			name = r
			fs := map[string]*Field{}
			for _, fd := range def.Fields {
				if strings.HasPrefix(fd.Name, "__") {
					continue
				}
				if name == "Query" && fd.Name == "node" {
					out.HasNode = true
					continue
				}
				fs[fd.Name] = absField(fd)
			}
			out.Roots[name] = fs
			continue
		}
		t := &Type{Kind: string(def.Kind), Fields: map[string]*Field{}, Values: []string{}, Members: []string{}, Impl: []string{}, Desc: def.Description, ValDep: map[string]string{}}
		for _, i := range def.Interfaces {
			if i == "Node" {
				t.Node = true
			} else {
				t.Impl = append(t.Impl, i)
			}
		}
		sort.Strings(t.Impl)
		for _, fd := range def.Fields {
			if strings.HasPrefix(fd.Name, "__") {
				continue
			}
			if fd.Name == "id" && t.Node {
				continue
			}
			t.Fields[fd.Name] = absField(fd)
		}
		for _, v := range def.EnumValues {
			t.Values = append(t.Values, v.Name)
			if d := v.Directives.ForName("deprecated"); d != nil {
				t.ValDep[v.Name] = "-"
				if r := d.Arguments.ForName("reason"); r != nil && r.Value != nil {
					t.ValDep[v.Name] = r.Value.Raw
				}
			}
		}
		sort.Strings(t.Values)
		t.Members = append(t.Members, def.Types...)
		sort.Strings(t.Members)
		out.Types[name] = t
	}
	for name, d := range sch.Directives {
		switch name {
		case "skip", "include", "deprecated", "specifiedBy":
			continue
		}
		dd := &Directive{Args: map[string]string{}, Locs: []string{}}
		for _, a := range d.Arguments {
			s := a.Type.String()
			if a.DefaultValue != nil {
				s += " = " + a.DefaultValue.String()
			}
			dd.Args[a.Name] = s
		}
		for _, l := range d.Locations {
			dd.Locs = append(dd.Locs, string(l))
		}
		sort.Strings(dd.Locs)
		out.Directives[name] = dd
	}
	for _, r := range []string{"Query", "Mutation", "Subscription"} {
		if out.Roots[r] == nil {
			out.Roots[r] = map[string]*Field{}
		}
	}
	return out
}

// Fill replaces nil collections (the TLA+ Json module cannot read null).
func (s *Schema) Fill() *Schema {
	if s.Types == nil {
		s.Types = map[string]*Type{}
	}
	if s.Directives == nil {
		s.Directives = map[string]*Directive{}
	}
	if s.Roots == nil {
		s.Roots = map[string]map[string]*Field{}
	}
	for _, r := range []string{"Query", "Mutation", "Subscription"} {
		if s.Roots[r] == nil {
			s.Roots[r] = map[string]*Field{}
		}
		for _, f := range s.Roots[r] {
			if f.Args == nil {
				f.Args = map[string]string{}
			}
		}
	}
	for _, t := range s.Types {
		if t.Fields == nil {
			t.Fields = map[string]*Field{}
		}
		for _, f := range t.Fields {
			if f.Args == nil {
				f.Args = map[string]string{}
			}
		}
		if t.Values == nil {
			t.Values = []string{}
		}
		if t.Members == nil {
			t.Members = []string{}
		}
		if t.Impl == nil {
			t.Impl = []string{}
		}
		if t.ValDep == nil {
			t.ValDep = map[string]string{}
		}
	}
	if s.RootNames == nil {
		s.RootNames = map[string]string{}
	}
	for _, d := range s.Directives {
		if d.Args == nil {
			d.Args = map[string]string{}
		}
		if d.Locs == nil {
			d.Locs = []string{}
		}
	}
	return s
}
