// Package fakesvc implements the services behind the gateway under test: each one parses and
// validates every request against ITS OWN schema (gqlparser), evaluates it over its share of the
// world's data with a small executor written for the harness, logs what it received and can be
// told to misbehave.  It is reached through an in-process http.RoundTripper.
package fakesvc

import (
	"bytes"
	"encoding/json"
	"fmt"
	"io"
	"mime"
	"mime/multipart"
	"net/http"
	"sort"
	"strings"
	"sync"
	"time"

	"github.com/vektah/gqlparser/v2"
	"github.com/vektah/gqlparser/v2/ast"
	"github.com/vektah/gqlparser/v2/parser"
	"github.com/vektah/gqlparser/v2/validator"

	"verifharness/world"
)

type ReqLog struct {
	Svc       string                 `json:"svc"`
	Call      int                    `json:"call"` // per-service call number
	Pos       int                    `json:"pos"`  // position in the batch
	Batch     int                    `json:"batch"`
	Multipart bool                   `json:"mp"`
	Kw        string                 `json:"kw"`
	OpName    string                 `json:"opName"`
	Query     string                 `json:"query"`
	Vars      map[string]interface{} `json:"vars"`
	Parses    bool                   `json:"parses"`
	Validates bool                   `json:"validates"`
	Err       string                 `json:"err,omitempty"`
	Roots     []RootSel              `json:"roots"`              // root fields selected
	Declared  map[string]string      `json:"declared,omitempty"` // variables the request declares, with types
	Used      []string               `json:"used,omitempty"`     // variables it uses
	Files     map[string]string      `json:"files,omitempty"`    // multipart: variable path -> "name:content"
	Passed    map[string]string      `json:"passed"`             // variable values received, rendered canonically
	Defaults  map[string]string      `json:"defaults"`           // default values the request declares, rendered canonically
}

type RootSel struct {
	Key  string `json:"key"`
	Name string `json:"name"`
}

type Service struct {
	URL    string
	W      *world.World
	Schema *ast.Schema
	mu     sync.Mutex
	calls  int
}

func New(w *world.World, s *world.Service) (*Service, error) {
	sdl := w.ServiceSDL(s)
	sch, err := gqlparser.LoadSchema(&ast.Source{Name: s.URL, Input: sdl})
	if err != nil {
		return nil, fmt.Errorf("service %s: invalid SDL: %v\n%s", s.URL, err, sdl)
	}
	s.SDL = sdl
	return &Service{URL: s.URL, W: w, Schema: sch}, nil
}

type gqlReq struct {
	Query         string                 `json:"query"`
	Variables     map[string]interface{} `json:"variables"`
	OperationName *string                `json:"operationName"`
}

type obj struct {
	ty string
	f  map[string]world.Val
}

func typeMatches(sch *ast.Schema, rt, cond string) bool {
	if cond == "" || cond == rt {
		return true
	}
	for _, pt := range sch.PossibleTypes[cond] {
		if pt.Name == rt {
			return true
		}
	}
	return false
}

func included(ds ast.DirectiveList, vars map[string]interface{}) bool {
	for _, d := range ds {
		if d.Name != "skip" && d.Name != "include" {
			continue
		}
		a := d.Arguments.ForName("if")
		if a == nil {
			continue
		}
		v, err := a.Value.Value(vars)
		b, _ := v.(bool)
		if err != nil {
			b = false
		}
		if d.Name == "skip" && b {
			return false
		}
		if d.Name == "include" && !b {
			return false
		}
	}
	return true
}

type group struct {
	key    string
	fields []*ast.Field
}

func collect(sch *ast.Schema, rt string, ss ast.SelectionSet, vars map[string]interface{}, out *[]*group) {
	for _, sel := range ss {
		switch s := sel.(type) {
		case *ast.Field:
			if !included(s.Directives, vars) {
				continue
			}
			var g *group
			for _, x := range *out {
				if x.key == s.Alias {
					g = x
				}
			}
			if g == nil {
				g = &group{key: s.Alias}
				*out = append(*out, g)
			}
			g.fields = append(g.fields, s)
		case *ast.InlineFragment:
			if !included(s.Directives, vars) || !typeMatches(sch, rt, s.TypeCondition) {
				continue
			}
			collect(sch, rt, s.SelectionSet, vars, out)
		case *ast.FragmentSpread:
			if !included(s.Directives, vars) || s.Definition == nil || !typeMatches(sch, rt, s.Definition.TypeCondition) {
				continue
			}
			collect(sch, rt, s.Definition.SelectionSet, vars, out)
		}
	}
}

func (s *Service) execObj(o *obj, ss ast.SelectionSet, vars map[string]interface{}) (map[string]interface{}, error) {
	var groups []*group
	collect(s.Schema, o.ty, ss, vars, &groups)
	out := map[string]interface{}{}
	for _, g := range groups {
		f := g.fields[0]
		var sub ast.SelectionSet
		for _, x := range g.fields {
			sub = append(sub, x.SelectionSet...)
		}
		v, err := s.execField(o, f, sub, vars)
		if err != nil {
			return nil, err
		}
		out[g.key] = v
	}
	return out, nil
}

func (s *Service) execField(o *obj, f *ast.Field, sub ast.SelectionSet, vars map[string]interface{}) (interface{}, error) {
	if f.Name == "__typename" {
		return o.ty, nil
	}
	if o.ty == "Query" && f.Name == "node" {
		args := f.ArgumentMap(vars)
		id, _ := args["id"].(string)
		e := s.W.Ents[id]
		if e == nil {
			return nil, nil
		}
		if _, ok := s.Schema.Types[e.Type]; !ok {
			return nil, nil
		}
		return s.execObj(&obj{ty: e.Type, f: e.F}, sub, vars)
	}
	raw, ok := o.f[f.Name]
	if !ok {
		return nil, fmt.Errorf("fake service %s holds no data for %s.%s", s.URL, o.ty, f.Name)
	}
	if raw["t"] == "fn" {
		args := f.ArgumentMap(vars)
		td := s.W.Types[o.ty]
		var parts []string
		for _, an := range toStrs(raw["args"]) {
			var at world.TypeRef
			if td != nil && td.Fields[f.Name] != nil {
				for _, ad := range td.Fields[f.Name].Args {
					if ad.Name == an {
						at = ad.Type
					}
				}
			}
			parts = append(parts, world.RenderArg(args[an], at, s.W))
		}
		key := strings.Join(parts, "|")
		by := raw["by"].(map[string]interface{})
		if v, ok := by[key]; ok {
			raw = v.(map[string]interface{})
		} else {
			raw = raw["else"].(map[string]interface{})
		}
	}
	return s.complete(raw, sub, vars)
}

func toStrs(v interface{}) []string {
	switch x := v.(type) {
	case []string:
		return x
	case []interface{}:
		out := make([]string, len(x))
		for i, e := range x {
			out[i] = e.(string)
		}
		return out
	}
	return nil
}

func (s *Service) complete(v world.Val, sub ast.SelectionSet, vars map[string]interface{}) (interface{}, error) {
	switch v["t"] {
	case "z":
		return nil, nil
	case "s":
		return world.ScalarGo(v), nil
	case "r":
		e := s.W.Ents[v["id"].(string)]
		if e == nil {
			return nil, fmt.Errorf("dangling reference %v", v["id"])
		}
		return s.execObj(&obj{ty: e.Type, f: e.F}, sub, vars)
	case "o":
		f := map[string]world.Val{}
		for k, x := range v["f"].(map[string]interface{}) {
			f[k] = x.(map[string]interface{})
		}
		return s.execObj(&obj{ty: v["ty"].(string), f: f}, sub, vars)
	case "l":
		out := []interface{}{}
		for _, e := range v["v"].([]interface{}) {
			x, err := s.complete(e.(map[string]interface{}), sub, vars)
			if err != nil {
				return nil, err
			}
			out = append(out, x)
		}
		return out, nil
	}
	return nil, fmt.Errorf("bad value %v", v)
}

func usedVars(ss ast.SelectionSet, acc map[string]bool, frags map[string]bool) {
	var walkVal func(v *ast.Value)
	walkVal = func(v *ast.Value) {
		if v == nil {
			return
		}
		if v.Kind == ast.Variable {
			acc[v.Raw] = true
		}
		for _, c := range v.Children {
			walkVal(c.Value)
		}
	}
	dirs := func(ds ast.DirectiveList) {
		for _, d := range ds {
			for _, a := range d.Arguments {
				walkVal(a.Value)
			}
		}
	}
	for _, sel := range ss {
		switch x := sel.(type) {
		case *ast.Field:
			for _, a := range x.Arguments {
				walkVal(a.Value)
			}
			dirs(x.Directives)
			usedVars(x.SelectionSet, acc, frags)
		case *ast.InlineFragment:
			dirs(x.Directives)
			usedVars(x.SelectionSet, acc, frags)
		case *ast.FragmentSpread:
			dirs(x.Directives)
			if x.Definition != nil && !frags[x.Name] {
				frags[x.Name] = true
				usedVars(x.Definition.SelectionSet, acc, frags)
			}
		}
	}
}

func parseOnly(q string) (*ast.QueryDocument, error) {
	doc, err := parser.ParseQuery(&ast.Source{Input: q})
	if err != nil {
		return nil, err
	}
	return doc, nil
}

// Answer evaluates one GraphQL request and returns the response object plus the log entry.
func (s *Service) Answer(r gqlReq) (map[string]interface{}, *ReqLog) {
	lg := &ReqLog{Svc: s.URL, Query: r.Query, Vars: r.Variables, Passed: map[string]string{}, Defaults: map[string]string{}}
	for k, v := range r.Variables {
		lg.Passed[k] = world.RenderArg(v, world.TypeRef{}, s.W)
	}
	if r.OperationName != nil {
		lg.OpName = *r.OperationName
	}
	fail := func(msg string) (map[string]interface{}, *ReqLog) {
		lg.Err = msg
		return map[string]interface{}{"data": nil, "errors": []interface{}{map[string]interface{}{"message": msg}}}, lg
	}
	doc, perr := gqlparser.LoadQuery(s.Schema, r.Query)
	if perr != nil {
		// distinguish syntax from validation errors
		if d2, e2 := parseOnly(r.Query); e2 == nil {
			lg.Parses = true
			// what the request is, even though this service will not execute it
			if len(d2.Operations) == 1 {
				lg.Kw = string(d2.Operations[0].Operation)
				for _, sel := range d2.Operations[0].SelectionSet {
					if f, ok := sel.(*ast.Field); ok {
						alias := f.Alias
						if alias == "" {
							alias = f.Name
						}
						lg.Roots = append(lg.Roots, RootSel{Key: alias, Name: f.Name})
					}
				}
			}
		}
		return fail("fake service rejects the request: " + perr.Error())
	}
	lg.Parses, lg.Validates = true, true
	var op *ast.OperationDefinition
	if r.OperationName != nil && *r.OperationName != "" {
		op = doc.Operations.ForName(*r.OperationName)
	} else if len(doc.Operations) == 1 {
		op = doc.Operations[0]
	}
	if op == nil {
		lg.Validates = false
		return fail("fake service: cannot select operation")
	}
	lg.Kw = string(op.Operation)
	lg.Declared = map[string]string{}
	for _, vd := range op.VariableDefinitions {
		lg.Declared[vd.Variable] = vd.Type.String()
		if v, ok := r.Variables[vd.Variable]; ok {
			// rendered with the declared type (key order of input objects)
			lg.Passed[vd.Variable] = world.RenderArg(v, world.TypeRef{Name: vd.Type.Name()}, s.W)
		}
		if vd.DefaultValue != nil {
			if v, err := vd.DefaultValue.Value(nil); err == nil {
				lg.Defaults[vd.Variable] = world.RenderArg(v, world.TypeRef{Name: vd.Type.Name()}, s.W)
			}
		}
	}
	used := map[string]bool{}
	usedVars(op.SelectionSet, used, map[string]bool{})
	for v := range used {
		lg.Used = append(lg.Used, v)
	}
	for _, sel := range op.SelectionSet {
		if f, ok := sel.(*ast.Field); ok {
			lg.Roots = append(lg.Roots, RootSel{Key: f.Alias, Name: f.Name})
		}
	}
	vars, verr := validator.VariableValues(s.Schema, op, r.Variables)
	if verr != nil {
		lg.Validates = false
		return fail("fake service: variables rejected: " + verr.Error())
	}
	rootName := "Query"
	switch op.Operation {
	case ast.Mutation:
		rootName = "Mutation"
	case ast.Subscription:
		rootName = "Subscription"
	}
	data, err := s.execObj(&obj{ty: rootName, f: s.W.Roots[rootName]}, op.SelectionSet, vars)
	if err != nil {
		return fail(err.Error())
	}
	return map[string]interface{}{"data": data}, lg
}

// ---------------------------------------------------------------------------- network

// Fault lets a driver replace the answer of one HTTP call.  It gets the service, the per-service
// call number, the decoded batch and the honest answers; it returns (status, body, transportError,
// handled).
type Fault func(svc string, call int, reqs []gqlReq, honest []map[string]interface{}) (int, []byte, error, bool)

type Net struct {
	mu    sync.Mutex
	svcs  map[string]*Service
	Log   []*ReqLog
	Calls []CallLog
	Fault Fault
	Gate  func(svc string, call int) // blocks a call until the driver lets it complete
	// OpRule decides by the operationName a sub-request carries: "" (answer honestly), "fail"
	// (answer with GraphQL errors) or "slow" (answer late).  Identity based, hence the same for an
	// operation sent alone or inside a batch (C08).
	OpRule func(opName string) string
}

type CallLog struct {
	Svc    string   `json:"svc"`
	Call   int      `json:"call"`
	Batch  int      `json:"batch"`
	MP     bool     `json:"mp"`
	Leaves []string `json:"leaves"` // scalar leaves of the body actually returned (honest or faulty)
}

func NewNet(w *world.World) (*Net, error) {
	n := &Net{svcs: map[string]*Service{}}
	for _, s := range w.Services {
		svc, err := New(w, s)
		if err != nil {
			return nil, err
		}
		n.svcs[s.URL] = svc
	}
	return n, nil
}

func (n *Net) Service(url string) *Service { return n.svcs[url] }

func (n *Net) Reset() {
	n.mu.Lock()
	n.Log = nil
	n.Calls = nil
	for _, s := range n.svcs {
		s.calls = 0
	}
	n.mu.Unlock()
}

func (n *Net) Snapshot() ([]*ReqLog, []CallLog) {
	n.mu.Lock()
	defer n.mu.Unlock()
	return append([]*ReqLog{}, n.Log...), append([]CallLog{}, n.Calls...)
}

func jsonResp(status int, body []byte) *http.Response {
	return &http.Response{StatusCode: status, Body: io.NopCloser(bytes.NewReader(body)), Header: http.Header{"Content-Type": []string{"application/json"}}}
}

func (n *Net) RoundTrip(req *http.Request) (*http.Response, error) {
	url := req.URL.Scheme + "://" + req.URL.Host
	svc := n.svcs[url]
	if svc == nil {
		return nil, fmt.Errorf("no fake service at %s", url)
	}
	body, err := io.ReadAll(req.Body)
	if err != nil {
		return nil, err
	}
	ct, params, _ := mime.ParseMediaType(req.Header.Get("Content-Type"))
	var reqs []gqlReq
	single := false
	var files map[string]string
	if ct == "multipart/form-data" {
		single = true
		mr := multipart.NewReader(bytes.NewReader(body), params["boundary"])
		form, ferr := mr.ReadForm(8 << 20)
		if ferr != nil {
			return jsonResp(400, []byte(`{"errors":[{"message":"bad multipart"}]}`)), nil
		}
		var one gqlReq
		if len(form.Value["operations"]) == 0 || json.Unmarshal([]byte(form.Value["operations"][0]), &one) != nil {
			return jsonResp(400, []byte(`{"errors":[{"message":"bad operations"}]}`)), nil
		}
		var fmap map[string][]string
		if len(form.Value["map"]) > 0 {
			json.Unmarshal([]byte(form.Value["map"][0]), &fmap)
		}
		files = map[string]string{}
		for key, paths := range fmap {
			fhs := form.File[key]
			if len(fhs) == 0 {
				for _, p := range paths {
					files[p] = "<missing part>"
				}
				continue
			}
			f, _ := fhs[0].Open()
			b, _ := io.ReadAll(f)
			for _, p := range paths {
				files[p] = fhs[0].Filename + ":" + string(b)
			}
		}
		reqs = []gqlReq{one}
	} else {
		trim := bytes.TrimSpace(body)
		if len(trim) > 0 && trim[0] == '[' {
			if err := json.Unmarshal(body, &reqs); err != nil {
				return jsonResp(400, []byte(`{"errors":[{"message":"bad json"}]}`)), nil
			}
		} else {
			single = true
			var one gqlReq
			if err := json.Unmarshal(body, &one); err != nil {
				return jsonResp(400, []byte(`{"errors":[{"message":"bad json"}]}`)), nil
			}
			reqs = []gqlReq{one}
		}
	}
	n.mu.Lock()
	call := svc.calls
	svc.calls++
	n.Calls = append(n.Calls, CallLog{Svc: url, Call: call, Batch: len(reqs), MP: ct == "multipart/form-data"})
	gate := n.Gate
	n.mu.Unlock()
	honest := make([]map[string]interface{}, len(reqs))
	logs := make([]*ReqLog, len(reqs))
	for i, r := range reqs {
		honest[i], logs[i] = svc.Answer(r)
		logs[i].Call, logs[i].Pos, logs[i].Batch, logs[i].Multipart = call, i, len(reqs), ct == "multipart/form-data"
		logs[i].Files = files
	}
	n.mu.Lock()
	n.Log = append(n.Log, logs...)
	fault := n.Fault
	rule := n.OpRule
	n.mu.Unlock()
	if rule != nil {
		for i, r := range reqs {
			name := ""
			if r.OperationName != nil {
				name = *r.OperationName
			}
			switch rule(name) {
			case "fail":
				honest[i] = map[string]interface{}{"data": nil, "errors": []interface{}{map[string]interface{}{"message": "service failure for " + name, "extensions": map[string]interface{}{"code": "DOWNSTREAM"}}}}
			case "slow":
				time.Sleep(3 * time.Millisecond)
			}
		}
	}
	if gate != nil {
		gate(url, call)
	}
	setLeaves := func(body []byte) {
		var v interface{}
		acc := map[string]bool{}
		if json.Unmarshal(body, &v) == nil {
			ScalarLeaves(v, acc)
		}
		ls := []string{}
		for k := range acc {
			ls = append(ls, k)
		}
		sort.Strings(ls)
		n.mu.Lock()
		for i := range n.Calls {
			if n.Calls[i].Svc == url && n.Calls[i].Call == call {
				n.Calls[i].Leaves = ls
			}
		}
		n.mu.Unlock()
	}
	if fault != nil {
		if st, b, terr, handled := fault(url, call, reqs, honest); handled {
			if terr != nil {
				return nil, terr
			}
			setLeaves(b)
			return jsonResp(st, b), nil
		}
	}
	var out []byte
	if single {
		out, _ = json.Marshal(honest[0])
	} else {
		out, _ = json.Marshal(honest)
	}
	setLeaves(out)
	return jsonResp(200, out), nil
}

// AbsSel projects a parsed selection set to the abstract Sel trees of the specifications
// (named fragments inlined).
func AbsSel(ss ast.SelectionSet) []*world.Sel {
	out := []*world.Sel{}
	for _, sel := range ss {
		switch x := sel.(type) {
		case *ast.Field:
			out = append(out, &world.Sel{K: "F", Key: x.Alias, Name: x.Name, Args: map[string]world.ArgExpr{}, Dirs: []world.Dir{}, Sub: AbsSel(x.SelectionSet)})
		case *ast.InlineFragment:
			out = append(out, &world.Sel{K: "I", On: x.TypeCondition, Args: map[string]world.ArgExpr{}, Dirs: []world.Dir{}, Sub: AbsSel(x.SelectionSet)})
		case *ast.FragmentSpread:
			if x.Definition != nil {
				out = append(out, &world.Sel{K: "I", On: x.Definition.TypeCondition, Args: map[string]world.ArgExpr{}, Dirs: []world.Dir{}, Sub: AbsSel(x.Definition.SelectionSet)})
			}
		}
	}
	return out
}

// StepFacts is what the receiving service's own parser and validator say about a sub-request
// text (data independent): used for the per-translation claims of C02.
type StepFacts struct {
	Parses    bool              `json:"parses"`
	Validates bool              `json:"validates"`
	Err       string            `json:"err"`
	Kw        string            `json:"kw"`
	OpName    string            `json:"opName"`
	Sel       []*world.Sel      `json:"sel"`
	Declared  map[string]string `json:"declared"`
	Defaults  map[string]string `json:"defaults"` // declared default values, rendered canonically
	Used      []string          `json:"used"`
}

func (s *Service) Facts(query string) *StepFacts {
	f := &StepFacts{Sel: []*world.Sel{}, Declared: map[string]string{}, Defaults: map[string]string{}, Used: []string{}}
	doc, perr := gqlparser.LoadQuery(s.Schema, query)
	if perr != nil {
		f.Err = perr.Error()
		if d2, e2 := parseOnly(query); e2 == nil {
			f.Parses = true
			doc = d2
		} else {
			return f
		}
	} else {
		f.Parses, f.Validates = true, true
	}
	if len(doc.Operations) != 1 {
		f.Validates = false
		return f
	}
	op := doc.Operations[0]
	f.Kw, f.OpName = string(op.Operation), op.Name
	f.Sel = AbsSel(op.SelectionSet)
	for _, vd := range op.VariableDefinitions {
		f.Declared[vd.Variable] = vd.Type.String()
		if vd.DefaultValue != nil {
			if v, err := vd.DefaultValue.Value(nil); err == nil {
				f.Defaults[vd.Variable] = world.RenderArg(v, world.TypeRef{Name: vd.Type.Name()}, s.W)
			}
		}
	}
	used := map[string]bool{}
	usedVars(op.SelectionSet, used, map[string]bool{})
	for v := range used {
		f.Used = append(f.Used, v)
	}
	sort.Strings(f.Used)
	return f
}

// AnswerFor evaluates one request directly (no network): used for the R7 cross-check of the
// harness evaluator against the specification's Ref.
func AnswerFor(s *Service, query string, vars map[string]interface{}, opName string) (map[string]interface{}, *ReqLog) {
	r := gqlReq{Query: query, Variables: vars}
	if opName != "" {
		r.OperationName = &opName
	}
	return s.Answer(r)
}
