package fakesvc

import (
	"encoding/json"
	"fmt"
	"io"
	"sort"
	"syscall"
)

// FaultSpec names one misbehaviour of one service call: kind x service x per-service call number
// x position in the batch (C09).
type FaultSpec struct {
	Kind string `json:"kind"`
	Svc  string `json:"svc"`
	Call int    `json:"call"`
	Pos  int    `json:"pos"`
	// payload of kind "errors"
	Errors []map[string]interface{} `json:"errors,omitempty"`
	// Match, when set, selects the position by the identity of the sub-request (text | variables)
	// instead of Pos: the order of the requests inside a batch may legitimately vary (C13)
	Match string `json:"match,omitempty"`
	// Salt makes position-independent what would otherwise depend on Pos (the status of statusother)
	Salt int `json:"salt,omitempty"`
}

// Identity of a sub-request as used by FaultSpec.Match.
func Identity(query string, vars map[string]interface{}) string {
	b, _ := json.Marshal(vars)
	return query + " | " + string(b)
}

// FailureSignals are the kinds after which the client must see a non-empty `errors`.
var FailureSignals = map[string]bool{
	"transport": true, "status500": true, "notjson": true, "notarray": true, "tooshort": true, "toolong": true,
	"errors": true, "errorsall": true, "errorswithdata": true, "statusother": true, "nodata": true, "nulldata": true, "nonode": true, "nodestring": true,
}

var AllFaultKinds = []string{
	"transport", "status500", "statusother", "notjson", "notarray", "tooshort", "toolong", "errors", "errorsall", "errorswithdata", "nodata", "nulldata",
	"emptylistforobject",
	"nonode", "nodestring", "nodelist", "listforobject", "objectforlist", "scalarinlist", "nullleaf", "extrakey",
	"nodenull", "nodenullall",
}

// firstObjectField finds (depth-first) a key of m whose value satisfies pred and replaces it.
func mutateFirst(v interface{}, pred func(interface{}) bool, repl func(interface{}) interface{}) bool {
	switch x := v.(type) {
	case map[string]interface{}:
		// sorted keys: the same fault must alter the same place on every execution (C13)
		keys := make([]string, 0, len(x))
		for k := range x {
			keys = append(keys, k)
		}
		sort.Strings(keys)
		for _, k := range keys {
			if e := x[k]; k != "id" && k != "__typename" && pred(e) {
				x[k] = repl(e)
				return true
			}
		}
		for _, k := range keys {
			if mutateFirst(x[k], pred, repl) {
				return true
			}
		}
	case []interface{}:
		for _, e := range x {
			if mutateFirst(e, pred, repl) {
				return true
			}
		}
	}
	return false
}

// Apply returns a Fault callback that misbehaves exactly once, at the named call; *applied reports
// whether the fault could be applied to the honest answer (some kinds need a particular shape).
func (f FaultSpec) Apply(applied *bool) Fault {
	return func(svc string, call int, reqs []gqlReq, honest []map[string]interface{}) (int, []byte, error, bool) {
		if svc != f.Svc || call != f.Call {
			return 0, nil, nil, false
		}
		pos := f.Pos
		if f.Match != "" {
			// the service answers THIS request this way, wherever and however often it occurs in the call (the same
			// lookup may be in the batch twice, for two places of the result, in an order that may vary)
			var ps []int
			for i, r := range reqs {
				if Identity(r.Query, r.Variables) == f.Match {
					ps = append(ps, i)
				}
			}
			if len(ps) == 0 {
				return 0, nil, nil, false
			}
			if len(ps) > 1 {
				cur := honest
				st, out, any := 0, []byte(nil), false
				for _, p := range ps {
					g := f
					g.Match, g.Pos, g.Salt = "", p, 1+len(f.Match)
					a := false
					s2, o2, e2, h2 := g.Apply(&a)(svc, call, reqs, cur)
					if !h2 {
						continue
					}
					if e2 != nil || s2 != 200 {
						*applied = true
						return s2, o2, e2, true
					}
					var next []map[string]interface{}
					if json.Unmarshal(o2, &next) != nil || len(next) != len(cur) {
						*applied = true
						return s2, o2, e2, true // the answer is no longer one entry per request: nothing more to do per position
					}
					cur, st, out, any = next, s2, o2, true
				}
				if !any {
					return 0, nil, nil, false
				}
				*applied = true
				return st, out, nil, true
			}
			pos = ps[0]
		}
		if pos >= len(honest) {
			pos = len(honest) - 1
		}
		// deep copy
		var resp []map[string]interface{}
		b, _ := json.Marshal(honest)
		json.Unmarshal(b, &resp)
		isObj := func(v interface{}) bool { _, ok := v.(map[string]interface{}); return ok }
		isList := func(v interface{}) bool { _, ok := v.([]interface{}); return ok }
		isNonEmptyList := func(v interface{}) bool { l, ok := v.([]interface{}); return ok && len(l) > 0 }
		isLeaf := func(v interface{}) bool { return v != nil && !isObj(v) && !isList(v) }
		data, _ := resp[pos]["data"].(map[string]interface{})
		ok := true
		switch f.Kind {
		case "transport":
			*applied = true
			return 0, nil, LostConn{}, true
		case "status500":
			*applied = true
			return 500, []byte(`{"message":"internal"}`), nil, true
		case "notjson":
			*applied = true
			return 200, []byte("<html>502 Bad Gateway</html>"), nil, true
		case "notarray":
			*applied = true
			return 200, []byte(`{"data":{"unexpected":"object"}}`), nil, true
		case "tooshort":
			resp = resp[:len(resp)-1]
		case "toolong":
			resp = append(resp, map[string]interface{}{"data": map[string]interface{}{"injected": "extra"}})
		case "errors":
			es := []interface{}{}
			for _, e := range f.Errors {
				es = append(es, e)
			}
			resp[pos] = map[string]interface{}{"data": nil, "errors": es}
		case "errorswithdata":
			// partial success: the honest data AND errors
			es := []interface{}{}
			for _, e := range f.Errors {
				es = append(es, e)
			}
			resp[pos]["errors"] = es
		case "statusother":
			// a non-2xx status that is not 500, with a perfectly well-formed body
			*applied = true
			out, _ := json.Marshal(resp)
			salt := f.Pos
			if f.Match != "" {
				salt = 1 + len(f.Match) // the position of the request in its batch may vary between executions
			}
			if f.Salt != 0 {
				salt = f.Salt
			}
			return []int{300, 302, 400, 403, 404, 429, 503}[(f.Call+salt+len(f.Svc))%7], out, nil, true
		case "emptylistforobject":
			ok = mutateFirst(data, isObj, func(v interface{}) interface{} { return []interface{}{} })
		case "errorsall":
			// every sub-request of the batch is answered with its own errors
			for i := range resp {
				es := []interface{}{}
				for k, e := range f.Errors {
					c := map[string]interface{}{}
					for kk, vv := range e {
						c[kk] = vv
					}
					c["message"] = fmt.Sprintf("%v [request %d of the batch, error %d]", e["message"], i, k)
					es = append(es, c)
				}
				resp[i] = map[string]interface{}{"data": nil, "errors": es}
			}
		case "nodata":
			resp[pos] = map[string]interface{}{}
		case "nulldata":
			resp[pos] = map[string]interface{}{"data": nil}
		case "nonode":
			if _, has := data["node"]; has {
				delete(data, "node")
			} else {
				ok = false
			}
		case "nodenull":
			// not a failure at all: the service does not know the entity
			if _, has := data["node"]; has {
				data["node"] = nil
			} else {
				ok = false
			}
		case "nodenullall":
			// the service knows none of the entities it is asked for in this call
			ok = false
			for _, r := range resp {
				if d, _ := r["data"].(map[string]interface{}); d != nil {
					if _, has := d["node"]; has {
						d["node"] = nil
						ok = true
					}
				}
			}
		case "nodestring":
			if _, has := data["node"]; has {
				data["node"] = "not-an-object"
			} else {
				ok = false
			}
		case "nodelist":
			if _, has := data["node"]; has {
				data["node"] = []interface{}{map[string]interface{}{"id": "x"}}
			} else {
				ok = false
			}
		case "listforobject":
			ok = mutateFirst(data, isObj, func(v interface{}) interface{} { return []interface{}{v} })
		case "objectforlist":
			ok = mutateFirst(data, isNonEmptyList, func(v interface{}) interface{} { return v.([]interface{})[0] })
		case "scalarinlist":
			ok = mutateFirst(data, isNonEmptyList, func(v interface{}) interface{} { return append([]interface{}{"injected-scalar"}, v.([]interface{})...) })
		case "nullleaf":
			ok = mutateFirst(data, isLeaf, func(v interface{}) interface{} { return nil })
		case "extrakey":
			if data != nil {
				data["injectedKey"] = "injected-value"
			} else {
				ok = false
			}
		default:
			panic(fmt.Sprintf("unknown fault kind %s", f.Kind))
		}
		if !ok {
			return 0, nil, nil, false
		}
		*applied = true
		out, _ := json.Marshal(resp)
		return 200, out, nil, true
	}
}

// ScalarLeaves collects the scalar leaves of a JSON value as strings (for "nothing fabricated").
func ScalarLeaves(v interface{}, acc map[string]bool) {
	switch x := v.(type) {
	case map[string]interface{}:
		for _, e := range x {
			ScalarLeaves(e, acc)
		}
	case []interface{}:
		for _, e := range x {
			ScalarLeaves(e, acc)
		}
	case nil:
	default:
		acc[fmt.Sprintf("%v", x)] = true
	}
}

// SparseFault makes every service ignorant of a fixed part of the entities, in every call of the
// operation: node(id:) lookups for an id with hash(salt, service, id) % 3 != 0 are answered with
// node: null (a legitimate answer: the service does not know the entity).  What it leaves behind are
// objects that hold nothing but helper fields, at several depths at once.
func SparseFault(salt int, applied *bool) Fault {
	return func(svc string, call int, reqs []gqlReq, honest []map[string]interface{}) (int, []byte, error, bool) {
		var resp []map[string]interface{}
		b, _ := json.Marshal(honest)
		json.Unmarshal(b, &resp)
		changed := false
		for i, r := range reqs {
			id, ok := r.Variables["id"].(string)
			if !ok || i >= len(resp) {
				continue
			}
			d, _ := resp[i]["data"].(map[string]interface{})
			if d == nil {
				continue
			}
			if _, has := d["node"]; !has {
				continue
			}
			h := salt
			for _, c := range svc + "|" + id {
				h = h*31 + int(c)
			}
			if h < 0 {
				h = -h
			}
			if h%3 != 0 {
				d["node"] = nil
				changed = true
			}
		}
		if !changed {
			return 0, nil, nil, false
		}
		*applied = true
		out, _ := json.Marshal(resp)
		return 200, out, nil, true
	}
}

// LostConn is the injected transport error.  It looks like what net/http returns when the peer goes away after the
// request was written (a stale keep-alive connection, a service that crashed while answering): errors.Is finds
// io.EOF, io.ErrUnexpectedEOF, ECONNRESET and EPIPE in it.  The request HAS reached the service - a client that sends
// it again on such an error delivers it twice.
type LostConn struct{}

func (LostConn) Error() string   { return "read tcp: unexpected EOF: connection reset by peer" }
func (LostConn) Timeout() bool   { return false }
func (LostConn) Temporary() bool { return false }
func (LostConn) Is(t error) bool {
	return t == io.EOF || t == io.ErrUnexpectedEOF || t == syscall.ECONNRESET || t == syscall.EPIPE
}
