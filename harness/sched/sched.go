// Package sched is the gate scheduler of the verification harness.
//
// Goroutines of the code under test call Arrive(key) at `verif` hook points (and inside
// harness-supplied user functions).  In gated mode a goroutine parks there until the controller
// releases the key, so a schedule computed by TLC can be forced step by step; in free mode the
// call only records the event (optionally after a seeded random delay: perturbed stress).
package sched

import (
	"fmt"
	"math/rand"
	"runtime"
	"sync"
	"time"
)

type Event struct {
	Seq  int           `json:"seq"`
	Key  string        `json:"key"`
	Args []interface{} `json:"args,omitempty"`
}

type Sched struct {
	mu       sync.Mutex
	cond     *sync.Cond
	gated    bool
	gate     func(key string) bool // which keys park in gated mode
	tokens   map[string]int        // releases not yet consumed
	parked   map[string]int        // goroutines currently parked at key
	arrivals map[string]int        // total arrivals at key
	Log      []Event
	seq      int

	// perturbation (free mode)
	rng     *rand.Rand
	perturb int // 0 = none; otherwise 1/perturb of the arrivals yield or sleep
}

func New(gated bool, gate func(string) bool) *Sched {
	s := &Sched{gated: gated, gate: gate, tokens: map[string]int{}, parked: map[string]int{}, arrivals: map[string]int{}}
	s.cond = sync.NewCond(&s.mu)
	return s
}

func (s *Sched) Perturb(seed int64, one_in int) {
	s.rng = rand.New(rand.NewSource(seed))
	s.perturb = one_in
}

// Arrive is called by the code under test.  The event is logged under the scheduler's lock,
// so the log is a linearisation consistent with real time.
func (s *Sched) Arrive(key string, args ...interface{}) {
	s.mu.Lock()
	s.seq++
	s.Log = append(s.Log, Event{Seq: s.seq, Key: key, Args: args})
	s.arrivals[key]++
	if s.gated && (s.gate == nil || s.gate(key)) {
		s.parked[key]++
		s.cond.Broadcast()
		for s.gated && s.tokens[key] == 0 {
			s.cond.Wait()
		}
		if s.tokens[key] > 0 {
			s.tokens[key]--
		}
		s.parked[key]--
		s.cond.Broadcast()
		s.mu.Unlock()
		return
	}
	s.cond.Broadcast()
	var d time.Duration
	yield := false
	if s.perturb > 0 && s.rng != nil {
		switch r := s.rng.Intn(s.perturb * 4); {
		case r == 0:
			d = time.Duration(s.rng.Intn(200)) * time.Microsecond
		case r < 4:
			yield = true
		}
	}
	s.mu.Unlock()
	if d > 0 {
		time.Sleep(d)
	} else if yield {
		runtime.Gosched()
	}
}

// Note records a harness-side event (not a gate).
func (s *Sched) Note(key string, args ...interface{}) {
	s.mu.Lock()
	s.seq++
	s.Log = append(s.Log, Event{Seq: s.seq, Key: key, Args: args})
	s.mu.Unlock()
}

func (s *Sched) Release(keys ...string) {
	s.mu.Lock()
	for _, k := range keys {
		s.tokens[k]++
	}
	s.cond.Broadcast()
	s.mu.Unlock()
}

// Open switches to free mode and lets every parked goroutine go.
func (s *Sched) Open() {
	s.mu.Lock()
	s.gated = false
	s.cond.Broadcast()
	s.mu.Unlock()
}

func (s *Sched) waitFor(pred func() bool, timeout time.Duration) bool {
	deadline := time.Now().Add(timeout)
	timer := time.AfterFunc(timeout, func() { s.mu.Lock(); s.cond.Broadcast(); s.mu.Unlock() })
	defer timer.Stop()
	s.mu.Lock()
	defer s.mu.Unlock()
	for !pred() {
		if time.Now().After(deadline) {
			return false
		}
		s.cond.Wait()
	}
	return true
}

// WaitParked waits until a goroutine is parked at key.
func (s *Sched) WaitParked(key string, timeout time.Duration) bool {
	return s.waitFor(func() bool { return s.parked[key] > 0 && s.tokens[key] == 0 }, timeout)
}

// WaitCount waits until key has been reached n times in total.
func (s *Sched) WaitCount(key string, n int, timeout time.Duration) bool {
	return s.waitFor(func() bool { return s.arrivals[key] >= n }, timeout)
}

func (s *Sched) Count(key string) int {
	s.mu.Lock()
	defer s.mu.Unlock()
	return s.arrivals[key]
}

func (s *Sched) Parked() map[string]int {
	s.mu.Lock()
	defer s.mu.Unlock()
	out := map[string]int{}
	for k, v := range s.parked {
		if v > 0 {
			out[k] = v
		}
	}
	return out
}

func (s *Sched) Snapshot() []Event {
	s.mu.Lock()
	defer s.mu.Unlock()
	out := make([]Event, len(s.Log))
	copy(out, s.Log)
	return out
}

// Key builds "point/arg" keys for indexed hook points.
func Key(point string, kv ...interface{}) string {
	if len(kv) == 0 {
		return point
	}
	return fmt.Sprintf("%s/%v", point, kv[0])
}

// GoroutinesLeft polls until the number of goroutines is back to baseline (or the timeout
// expires) and returns how many are left above it.
func GoroutinesLeft(baseline int, timeout time.Duration) int {
	deadline := time.Now().Add(timeout)
	for {
		n := runtime.NumGoroutine() - baseline
		if n <= 0 {
			return 0
		}
		if time.Now().After(deadline) {
			return n
		}
		time.Sleep(200 * time.Microsecond)
	}
}

func Stacks() string {
	buf := make([]byte, 1<<20)
	n := runtime.Stack(buf, true)
	return string(buf[:n])
}
