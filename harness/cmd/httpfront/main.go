// httpfront renders the request shapes enumerated by TLC from spec/HttpFront.tla into bytes,
// sends them to the real Gateway.Handler and records the answers for HttpFrontTrace (C07).
package main

import (
	"bufio"
	"bytes"
	"encoding/json"
	"flag"
	"fmt"
	"math/rand"
	"mime/multipart"
	"net/http"
	"net/http/httptest"
	"os"
	"runtime"
	"strings"
	"time"

	"verifharness/gw"
	"verifharness/world"
)

type shape struct {
	F     string   `json:"f"`
	Ct    string   `json:"ct"`
	Body  string   `json:"body"`
	Q     string   `json:"q"`
	Vars  string   `json:"vars"`
	Opn   string   `json:"opn"`
	Elems []string `json:"elems"`
	Ops   string   `json:"ops"`
	Map   string   `json:"map"`
	Path  string   `json:"path"`
	File  bool     `json:"file"`
}

type caseIn struct {
	Shape shape `json:"shape"`
}

type texts struct {
	valid, valid2, mutation, ping string
}

// frontWorld: a generated world plus the corner cases the property names: an interface without
// members, a scalar root field for mixed introspection, upload mutations for multipart requests.
func frontWorld(seed int64) (*world.World, texts) {
	rng := rand.New(rand.NewSource(seed))
	cfg := world.DefaultCfg()
	cfg.Off = map[string]bool{"vars": true, "roottypename": true, "dupkey": true, "dirid": true, "fragdirs": true}
	w := world.Gen(rng, cfg, int(seed))
	q := w.Types["Query"]
	s0 := w.Services[0]
	q.Fields["ping"] = &world.FieldDecl{Type: world.TypeRef{Name: "String"}}
	q.Fields["lonely"] = &world.FieldDecl{Type: world.TypeRef{Name: "Lonely"}}
	q.Order = append(q.Order, "ping", "lonely")
	s0.Decl["Query"] = append(s0.Decl["Query"], "ping", "lonely")
	w.Types["Lonely"] = &world.TypeDecl{Kind: "INTERFACE", Fields: map[string]*world.FieldDecl{"x": {Type: world.TypeRef{Name: "Int"}}}, Order: []string{"x"}}
	s0.Decl["Lonely"] = []string{"x"}
	w.Roots["Query"]["ping"] = world.S("pong")
	w.Roots["Query"]["lonely"] = world.Z()
	w.Types["Upload"] = &world.TypeDecl{Kind: "SCALAR"}
	w.Types["FileIn"] = &world.TypeDecl{Kind: "INPUT", Order: []string{"file", "name"}, Fields: map[string]*world.FieldDecl{
		"file": {Type: world.TypeRef{Name: "Upload"}}, "name": {Type: world.TypeRef{Name: "String"}}}}
	s0.Decl["Upload"] = []string{}
	s0.Decl["FileIn"] = []string{"file", "name"}
	if w.Types["Mutation"] == nil {
		w.Types["Mutation"] = &world.TypeDecl{Kind: "OBJECT", Fields: map[string]*world.FieldDecl{}}
		w.Roots["Mutation"] = map[string]world.Val{}
	}
	m := w.Types["Mutation"]
	m.Fields["up"] = &world.FieldDecl{Type: world.TypeRef{Name: "String"}, Args: []world.ArgDecl{{Name: "file", Type: world.TypeRef{Name: "Upload"}}}}
	m.Fields["upNested"] = &world.FieldDecl{Type: world.TypeRef{Name: "String"}, Args: []world.ArgDecl{{Name: "in", Type: world.TypeRef{Name: "FileIn"}}}}
	m.Fields["upList"] = &world.FieldDecl{Type: world.TypeRef{Name: "String"}, Args: []world.ArgDecl{{Name: "files", Type: world.TypeRef{Name: "Upload", List: true}}}}
	m.Order = append(m.Order, "up", "upNested", "upList")
	s0.Decl["Mutation"] = append(s0.Decl["Mutation"], "up", "upNested", "upList")
	for _, f := range []string{"up", "upNested", "upList"} {
		w.Roots["Mutation"][f] = world.S("stored")
	}
	w.Fill()
	var t texts
	mk := func(kind, name string) string {
		for {
			op := world.GenOp(rng, w, cfg, kind)
			op.Name = name
			op.Fill()
			txt := w.OpText(op)
			if !strings.Contains(txt, "lonely") && !strings.Contains(txt, "up") {
				return txt
			}
		}
	}
	t.valid = mk("query", "OpV")
	t.valid2 = mk("query", "OpW")
	t.mutation = "mutation OpM { a: up(file: null) }"
	t.ping = "query OpP { ping }"
	return w, t
}

func queryText(t texts, class string) (string, string) {
	switch class {
	case "valid":
		return t.valid, "OpV"
	case "valid2":
		return t.valid2, "OpW"
	case "anonymous":
		return "{ ping }", "ZZNoSuchOperation"
	case "validmutation":
		return t.mutation, "OpM"
	case "syntaxerror":
		return t.valid[:strings.LastIndex(t.valid, "}")], "OpV"
	case "unknownfield", "invalidquery":
		return "query OpU { zzUnknownField }", "OpU"
	case "manyopsnoname":
		return "query A { ping } query B { ping }", ""
	case "manyopsrightname":
		return "query A { ping } query B { ping }", "A"
	case "wrongopname":
		return "query A { ping }", "ZZNoSuchOperation"
	case "roottypename":
		return "query OpT { __typename }", "OpT"
	case "introspection":
		return "query OpI { __schema { queryType { name } } t: __type(name: \"Query\") { name kind } }", "OpI"
	case "introspectionvars":
		// introspection arguments taken from variables (the driver sends values of several JSON types for $d)
		return "query OpJ($d: Boolean, $n: String!) { t: __type(name: $n) { name fields(includeDeprecated: $d) { name } enumValues(includeDeprecated: $d) { name } } }", "OpJ"
	case "introspectionmixed":
		return "query OpX { __schema { queryType { name } } ping }", "OpX"
	case "lonelyinterface":
		return "query OpL { lonely { x } }", "OpL"
	}
	panic("query class " + class)
}

func objectBody(t texts, s shape, rng *rand.Rand) interface{} {
	m := map[string]interface{}{}
	text, name := "", ""
	switch s.Q {
	case "missing":
	case "empty":
		m["query"] = ""
	case "number":
		m["query"] = 42
	case "null":
		m["query"] = nil
	default:
		text, name = queryText(t, s.Q)
		m["query"] = text
	}
	switch s.Vars {
	case "null":
		m["variables"] = nil
	case "object":
		m["variables"] = map[string]interface{}{"unused": 1}
		if s.Q == "introspectionvars" {
			// a value of the wrong JSON type for a Boolean variable, one rendering per variant
			m["variables"] = map[string]interface{}{"n": "Query", "d": []interface{}{"yes", 1, true, nil, []interface{}{}, map[string]interface{}{}}[rng.Intn(6)]}
		}
	case "string":
		m["variables"] = "not-an-object"
	case "array":
		m["variables"] = []interface{}{1, 2}
	}
	switch s.Opn {
	case "null":
		m["operationName"] = nil
	case "string":
		if s.Q == "manyopsnoname" {
			m["operationName"] = "ZZThird"
		} else if name != "" {
			m["operationName"] = name
		} else {
			m["operationName"] = "OpV"
		}
	case "number":
		m["operationName"] = 7
	}
	return m
}

func elemBody(t texts, class string) interface{} {
	switch class {
	case "valid", "valid2", "invalidquery", "introspection":
		text, name := queryText(t, class)
		return map[string]interface{}{"query": text, "operationName": name}
	case "null":
		return nil
	case "number":
		return 5
	case "string":
		return "{ ping }"
	case "nestedarray":
		return []interface{}{map[string]interface{}{"query": t.ping}}
	case "missingquery":
		return map[string]interface{}{"variables": map[string]interface{}{}}
	}
	panic("elem class " + class)
}

const upQuery = "mutation Up($f: Upload, $in: FileIn, $files: [Upload], $s: String) { a: up(file: $f) b: upNested(in: $in) c: upList(files: $files) }"

func upOp() map[string]interface{} {
	return map[string]interface{}{"query": upQuery, "variables": map[string]interface{}{
		"f": nil, "in": map[string]interface{}{"file": nil, "name": "n"}, "files": []interface{}{nil, nil}, "s": "str"}}
}

func pathFor(class string, batch bool) []string {
	p := map[string][]string{
		"ok": {"variables.f"}, "oknested": {"variables.in.file"}, "oklist": {"variables.files.1"},
		"novariables": {"vars.f"}, "tooshort": {"variables"}, "unknownkey": {"variables.nope"},
		"throughnonnull": {"variables.s"}, "duplicate": {"variables.f", "variables.f"},
		"listindexnotnumeric": {"variables.files.x"}, "listindexoutofrange": {"variables.files.7"},
		"listindexnegative": {"variables.files.-1"}, "listindexmissing": {"variables.files"}, "empty": {""},
		"listindexhuge": {"variables.files.18446744073709551615"}, "batchindexhuge": {"18446744073709551615.variables.f"},
		"batchindexmissing": {"variables.f"}, "batchindexnotnumeric": {"x.variables.f"},
		"batchindexoutofrange": {"5.variables.f"}, "batchindexnegative": {"-1.variables.f"},
	}[class]
	if !batch || strings.HasPrefix(class, "batchindex") {
		return p
	}
	out := []string{}
	for _, x := range p {
		out = append(out, "1."+x)
	}
	return out
}

// render: shape -> content type + body
func render(t texts, s shape, rng *rand.Rand) (string, []byte) {
	ct := map[string]string{"json": "application/json", "jsonparams": "application/json; charset=utf-8", "textplain": "text/plain", "none": "", "other": "application/xml"}[s.Ct]
	switch s.F {
	case "simple":
		body := map[string][]string{
			"empty": {""}, "garbage": {"{not json", "\x00\x01\x02", "query { ping }"}, "null": {"null", " null "}, "number": {"42", "-1.5e3"},
			"string": {"\"{ ping }\"", "\"\""}, "emptyobject": {"{}", " { } "}, "emptyarray": {"[]", " [ ] "},
			"truncated": {"{\"query\": \"{ ping }\"", "[{\"query\": \"{ ping }\"}"},
		}[s.Body]
		return ct, []byte(body[rng.Intn(len(body))])
	case "object":
		b, _ := json.Marshal(objectBody(t, s, rng))
		return ct, b
	case "array":
		arr := []interface{}{}
		for _, e := range s.Elems {
			arr = append(arr, elemBody(t, e))
		}
		b, _ := json.Marshal(arr)
		return ct, b
	case "multipart":
		var buf bytes.Buffer
		mw := multipart.NewWriter(&buf)
		switch s.Ops {
		case "garbage":
			fw, _ := mw.CreateFormField("operations")
			fw.Write([]byte("{not json"))
		case "single":
			fw, _ := mw.CreateFormField("operations")
			b, _ := json.Marshal(upOp())
			fw.Write(b)
		case "batch":
			fw, _ := mw.CreateFormField("operations")
			b, _ := json.Marshal([]interface{}{upOp(), upOp()})
			fw.Write(b)
		}
		switch s.Map {
		case "garbage":
			fw, _ := mw.CreateFormField("map")
			fw.Write([]byte("[1,2"))
		case "emptymap":
			fw, _ := mw.CreateFormField("map")
			fw.Write([]byte("{}"))
		case "paths":
			fw, _ := mw.CreateFormField("map")
			b, _ := json.Marshal(map[string][]string{"0": pathFor(s.Path, s.Ops == "batch")})
			fw.Write(b)
		}
		if s.File {
			fw, _ := mw.CreateFormFile("0", "a.txt")
			fw.Write([]byte("file-content"))
		}
		mw.Close()
		return mw.FormDataContentType(), buf.Bytes()
	}
	panic("shape family " + s.F)
}

type elemObs struct {
	HasData    bool `json:"hasData"`
	DataNull   bool `json:"dataNull"`
	HasErrors  bool `json:"hasErrors"`
	Wellformed bool `json:"wellformed"`
}

func obsElem(v interface{}) elemObs {
	m, ok := v.(map[string]interface{})
	if !ok {
		return elemObs{}
	}
	e := elemObs{Wellformed: true}
	for k := range m {
		if k != "data" && k != "errors" {
			e.Wellformed = false
		}
	}
	d, hasData := m["data"]
	e.HasData = hasData
	e.DataNull = d == nil
	if es, ok := m["errors"].([]interface{}); ok && len(es) > 0 {
		e.HasErrors = true
	}
	if !hasData && !e.HasErrors {
		e.Wellformed = false
	}
	return e
}

type answer struct {
	Ev     string    `json:"ev"`
	Panic  bool      `json:"panic"`
	Hang   bool      `json:"hang"`
	Status int       `json:"status"`
	JSON   bool      `json:"json"`
	Batch  bool      `json:"batch"`
	Elems  []elemObs `json:"elems"`
	Canary bool      `json:"canary"`
	What   string    `json:"what"`
}

func send(g *gw.GW, ct string, body []byte) (a answer) {
	a = answer{Ev: "Answer", Elems: []elemObs{}}
	type res struct {
		code int
		body []byte
		pan  interface{}
	}
	ch := make(chan res, 1)
	go func() {
		var r res
		defer func() {
			if p := recover(); p != nil {
				r.pan = p
				buf := make([]byte, 4096)
				r.body = buf[:runtime.Stack(buf, false)]
			}
			ch <- r
		}()
		req := httptest.NewRequest("POST", "/graphql", bytes.NewReader(body))
		if ct != "" {
			req.Header.Set("Content-Type", ct)
		}
		rec := httptest.NewRecorder()
		g.G.Handler(rec, req)
		r.code, r.body = rec.Code, rec.Body.Bytes()
	}()
	select {
	case r := <-ch:
		if r.pan != nil {
			a.Panic = true
			a.What = fmt.Sprintf("panic: %v\n%s", r.pan, r.body)
			return
		}
		a.Status = r.code
		var v interface{}
		if err := json.Unmarshal(r.body, &v); err != nil {
			a.What = "body is not JSON: " + string(r.body)
			return
		}
		a.JSON = true
		if arr, ok := v.([]interface{}); ok {
			a.Batch = true
			for _, e := range arr {
				a.Elems = append(a.Elems, obsElem(e))
			}
		} else {
			a.Elems = append(a.Elems, obsElem(v))
		}
	case <-time.After(15 * time.Second):
		a.Hang = true
	}
	return
}

func main() {
	in := flag.String("in", "", "")
	out := flag.String("out", "", "")
	seed := flag.Int64("seed", 1, "")
	renderings := flag.Int("renderings", 1, "")
	fuzz := flag.Int("fuzz", 0, "number of byte-mutated requests to send after the shapes")
	flag.Parse()
	w, t := frontWorld(*seed)
	g, err := gw.New(w, gw.Config{Name: "default"})
	if err != nil {
		fmt.Fprintln(os.Stderr, "HARNESS: gateway did not start:", err)
		os.Exit(4)
	}
	f, err := os.Open(*in)
	if err != nil {
		panic(err)
	}
	of, _ := os.Create(*out)
	defer of.Close()
	bw := bufio.NewWriter(of)
	defer bw.Flush()
	enc := json.NewEncoder(bw)
	rng := rand.New(rand.NewSource(*seed))
	sc := bufio.NewScanner(f)
	sc.Buffer(make([]byte, 1<<20), 1<<24)
	for sc.Scan() {
		var c caseIn
		if err := json.Unmarshal(sc.Bytes(), &c); err != nil {
			panic(err)
		}
		for k := 0; k < *renderings; k++ {
			ct, body := render(t, c.Shape, rng)
			var raw map[string]interface{}
			json.Unmarshal(sc.Bytes(), &raw)
			enc.Encode(map[string]interface{}{"ev": "Http", "shape": raw["shape"], "ct": ct, "body": string(body)})
			bw.Flush()
			a := send(g, ct, body)
			// canary: the next request is served
			pb, _ := json.Marshal(map[string]interface{}{"query": t.ping})
			cn := send(g, "application/json", pb)
			a.Canary = !cn.Panic && !cn.Hang && cn.Status == 200 && len(cn.Elems) == 1 && cn.Elems[0].HasData && !cn.Elems[0].DataNull
			enc.Encode(a)
		}
	}
	// byte-level mutations of rendered shapes (direction B)
	var all []shape
	f2, _ := os.Open(*in)
	sc2 := bufio.NewScanner(f2)
	sc2.Buffer(make([]byte, 1<<20), 1<<24)
	for sc2.Scan() {
		var c caseIn
		json.Unmarshal(sc2.Bytes(), &c)
		all = append(all, c.Shape)
	}
	for k := 0; k < *fuzz && len(all) > 0; k++ {
		s := all[rng.Intn(len(all))]
		ct, body := render(t, s, rng)
		nm := 1 + rng.Intn(3)
		for m := 0; m < nm && len(body) > 0; m++ {
			i := rng.Intn(len(body))
			switch rng.Intn(6) {
			case 0:
				body[i] ^= byte(1 << uint(rng.Intn(8)))
			case 1:
				body = append(body[:i], body[i+1:]...)
			case 2:
				body = append(body[:i], append([]byte{"[]{}\",:0n\\"[rng.Intn(10)]}, body[i:]...)...)
			case 3:
				body = body[:i]
			case 4:
				j := rng.Intn(len(body))
				if i > j {
					i, j = j, i
				}
				body = append(body[:j], append(append([]byte{}, body[i:j]...), body[j:]...)...)
			case 5:
				body[i] = "[]{}\",:0n\\"[rng.Intn(10)]
			}
		}
		enc.Encode(map[string]interface{}{"ev": "Http", "shape": map[string]interface{}{"f": "fuzz", "from": s.F}, "ct": ct, "body": string(bytes.ToValidUTF8(body, []byte("?")))})
		bw.Flush()
		a := send(g, ct, body)
		pb, _ := json.Marshal(map[string]interface{}{"query": t.ping})
		cn := send(g, "application/json", pb)
		a.Canary = !cn.Panic && !cn.Hang && cn.Status == 200 && len(cn.Elems) == 1 && cn.Elems[0].HasData && !cn.Elems[0].DataNull
		enc.Encode(a)
	}
	_ = http.StatusOK
}
