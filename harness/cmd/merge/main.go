// merge drives the real schema merger (merger.ExtendMergerFunc, merger.SanitizeNodeMergerFunc and
// pebbles.NewGateway) over sets of service schemas - generated here from a seed, or enumerated by
// TLC (spec/MergeGen.tla) - in EVERY order of the service list, and records what Merge.tla judges:
// accepted or rejected, the resulting schema and the routing table (C03, C04, C05).
package main

import (
	"bufio"
	"encoding/json"
	"flag"
	"fmt"
	"math/rand"
	"os"
	"sort"

	"github.com/buildbuildio/pebbles"
	"github.com/buildbuildio/pebbles/merger"
	"github.com/vektah/gqlparser/v2"
	"github.com/vektah/gqlparser/v2/ast"

	"verifharness/mschema"
)

type caseIn struct {
	ID    int               `json:"id"`
	Svcs  []*mschema.Schema `json:"svcs"`
	Perms [][]int           `json:"perms"` // nil = all
	Tags  []string          `json:"tags"`
}

func perms(n int) [][]int {
	if n == 1 {
		return [][]int{{1}}
	}
	var out [][]int
	for _, p := range perms(n - 1) {
		for i := 0; i <= len(p); i++ {
			q := append([]int{}, p[:i]...)
			q = append(q, n)
			q = append(q, p[i:]...)
			out = append(out, q)
		}
	}
	return out
}

type sdlIntro struct{ schemas map[string]*ast.Schema }

func (s *sdlIntro) IntrospectRemoteSchemas(urls ...string) ([]*ast.Schema, error) {
	var out []*ast.Schema
	for _, u := range urls {
		out = append(out, s.schemas[u])
	}
	return out, nil
}

func loadAll(c *caseIn) (map[string]string, error) {
	sdls := map[string]string{}
	for _, s := range c.Svcs {
		s.Fill()
		sdl := s.SDL()
		if _, err := gqlparser.LoadSchema(&ast.Source{Name: s.URL, Input: sdl}); err != nil {
			return nil, fmt.Errorf("service %s: the generated SDL is not a valid schema on its own: %v\n%s", s.URL, err, sdl)
		}
		sdls[s.URL] = sdl
	}
	return sdls, nil
}

func runOne(c *caseIn, sdls map[string]string, perm []int, which string, shared map[string]*ast.Schema) (res map[string]interface{}) {
	res = map[string]interface{}{"ev": "Result", "perm": perm, "merger": which, "ok": false, "panic": false, "err": "", "valid": false,
		"schema": mschema.Abs(&ast.Schema{Types: map[string]*ast.Definition{}}).Fill(), "routes": map[string]interface{}{}, "nodeTypes": []string{}, "urls": []string{}}
	defer func() {
		if r := recover(); r != nil {
			res["panic"] = true
			res["err"] = fmt.Sprintf("panic: %v", r)
		}
	}()
	var inputs []*merger.MergeInput
	var urls []string
	schemas := map[string]*ast.Schema{}
	for _, i := range perm {
		s := c.Svcs[i-1]
		// a fresh parse per run - except in the mode "extend-again", where every order of the list is merged from the
		// SAME parsed schemas: what one merge leaves behind in its inputs must not change the next one's outcome
		// (a gateway that re-merges after a change of its service list, a caller that merges a subset)
		sch := shared[s.URL]
		if which != "extend-again" || sch == nil {
			sch, _ = gqlparser.LoadSchema(&ast.Source{Name: s.URL, Input: sdls[s.URL]})
			if which == "extend-again" {
				shared[s.URL] = sch
			}
		}
		inputs = append(inputs, &merger.MergeInput{Schema: sch, URL: s.URL})
		urls = append(urls, s.URL)
		schemas[s.URL] = sch
	}
	var mr *merger.MergeResult
	var err error
	switch which {
	case "extend", "extend-again":
		var m merger.ExtendMergerFunc
		mr, err = m.Merge(inputs)
	case "sanitize":
		var m merger.SanitizeNodeMergerFunc
		mr, err = m.Merge(inputs)
	case "gateway":
		_, err = pebbles.NewGateway(urls, pebbles.WithRemoteSchemaIntrospector(&sdlIntro{schemas: schemas}))
		if err != nil {
			res["err"] = err.Error()
			return res
		}
		res["ok"] = true
		return res
	}
	if err != nil {
		res["err"] = err.Error()
		return res
	}
	res["ok"] = true
	res["schema"] = mschema.Abs(mr.Schema).Fill()
	// the result was produced by gqlparser.LoadSchema, i.e. it passed the schema validator
	res["valid"] = true
	routes := map[string]interface{}{}
	nodeTypes := []string{}
	for t, props := range mr.TypeURLMap {
		fs := map[string]interface{}{}
		for f, u := range props.Fields {
			fs[f] = u
		}
		routes[t] = fs
		if props.IsImplementsNode {
			nodeTypes = append(nodeTypes, t)
		}
	}
	sort.Strings(nodeTypes)
	res["routes"] = routes
	res["nodeTypes"] = nodeTypes
	us := mr.TypeURLMap.GetURLs()
	if us == nil {
		us = []string{}
	}
	sort.Strings(us)
	res["urls"] = us
	return res
}

// customRoots: in every other set one service (never only the first of the list) calls its root operation types RootQ /
// RootM / RootS.  The abstract schema - and with it everything the contract expects - is the same: the names of the
// root operation types are the service's private matter; the merged schema and the routing table speak of Query,
// Mutation and Subscription.
func customRoots(c *caseIn) {
	h := c.ID
	if h < 0 {
		h = -h
	}
	if len(c.Svcs) == 0 || h%2 == 1 {
		return
	}
	s := c.Svcs[(h/2)%len(c.Svcs)]
	for _, t := range []string{"RootQ", "RootM", "RootS"} {
		for _, x := range c.Svcs {
			if _, used := x.Types[t]; used {
				return
			}
		}
	}
	if len(s.RootNames) == 0 {
		s.RootNames = map[string]string{"Query": "RootQ", "Mutation": "RootM", "Subscription": "RootS"}
		c.Tags = append(c.Tags, "custom-root-names")
	}
}

func runCase(enc *json.Encoder, c *caseIn, mergers []string) {
	customRoots(c)
	sdls, err := loadAll(c)
	if err != nil {
		enc.Encode(map[string]interface{}{"ev": "HarnessError", "what": err.Error()})
		return
	}
	if c.Tags == nil {
		c.Tags = []string{}
	}
	enc.Encode(map[string]interface{}{"ev": "Set", "id": c.ID, "svcs": c.Svcs, "tags": c.Tags})
	ps := c.Perms
	if ps == nil {
		ps = perms(len(c.Svcs))
	}
	shared := map[string]*ast.Schema{}
	for _, p := range ps {
		for _, m := range mergers {
			enc.Encode(runOne(c, sdls, p, m, shared))
		}
	}
	// once more in the first order, after every other order has been through the same objects
	if len(ps) > 0 {
		for _, m := range mergers {
			if m == "extend-again" {
				enc.Encode(runOne(c, sdls, ps[0], m, shared))
			}
		}
	}
	// ... and every service on its own, from the same objects: a gateway whose service list shrank.  (A new Set: the
	// contract's expectation is computed from what the service declared, not from what earlier merges left in the object.)
	if len(c.Svcs) > 1 && len(shared) > 0 && c.ID%3 == 0 { // (a third of the sets: keeps the quick tier short)
		for _, sv := range c.Svcs {
			sub := &caseIn{ID: c.ID, Svcs: []*mschema.Schema{sv}, Tags: append(append([]string{}, c.Tags...), "alone-after-the-set")}
			enc.Encode(map[string]interface{}{"ev": "Set", "id": sub.ID, "svcs": sub.Svcs, "tags": sub.Tags})
			enc.Encode(runOne(sub, sdls, []int{1}, "extend-again", shared))
		}
	}
}

func cmdRun(args []string) {
	fs := flag.NewFlagSet("run", flag.ExitOnError)
	in := fs.String("in", "", "")
	out := fs.String("out", "", "")
	fs.Parse(args)
	f, err := os.Open(*in)
	if err != nil {
		panic(err)
	}
	of, _ := os.Create(*out)
	defer of.Close()
	bw := bufio.NewWriterSize(of, 1<<20)
	defer bw.Flush()
	enc := json.NewEncoder(bw)
	sc := bufio.NewScanner(f)
	sc.Buffer(make([]byte, 1<<20), 1<<26)
	for sc.Scan() {
		var c caseIn
		if err := json.Unmarshal(sc.Bytes(), &c); err != nil {
			panic(err)
		}
		runCase(enc, &c, []string{"extend", "sanitize", "gateway", "extend-again"})
	}
}

// ---------------------------------------------------------------------------- generator

func F(ty string, args ...string) *mschema.Field {
	f := &mschema.Field{Ty: ty, Args: map[string]string{}}
	for i := 0; i+1 < len(args); i += 2 {
		f.Args[args[i]] = args[i+1]
	}
	return f
}

type gen struct {
	r *rand.Rand
}

func (g *gen) pick(n int) int        { return g.r.Intn(n) }
func (g *gen) chance(p float64) bool { return g.r.Float64() < p }

var scalarTys = []string{"String", "Int", "Boolean!", "[String!]", "ID"}

func (g *gen) fieldSig() *mschema.Field {
	f := F(scalarTys[g.pick(len(scalarTys))])
	if g.chance(0.3) {
		f.Args["a"] = []string{"Int", "String = \"x\"", "Boolean! = true", "[Int!]"}[g.pick(4)]
	}
	return f
}

// genSet builds a MERGEABLE set of 1..4 service schemas covering every kind of type.
func (g *gen) genSet(id int) *caseIn {
	n := 1 + g.pick(4)
	c := &caseIn{ID: id}
	for i := 0; i < n; i++ {
		c.Svcs = append(c.Svcs, (&mschema.Schema{URL: fmt.Sprintf("http://m%d.test", i)}).Fill())
	}
	tag := map[string]bool{}
	anySvc := func() *mschema.Schema { return c.Svcs[g.pick(n)] }
	// root fields: unique owners; every service gets at least one Query field
	k := 0
	for i, s := range c.Svcs {
		s.Roots["Query"][fmt.Sprintf("q%d", i)] = g.fieldSig()
		_ = i
	}
	for k = 0; k < g.pick(4); k++ {
		anySvc().Roots["Query"][fmt.Sprintf("qx%d", k)] = g.fieldSig()
	}
	for k = 0; k < g.pick(3); k++ {
		anySvc().Roots["Mutation"][fmt.Sprintf("m%d", k)] = g.fieldSig()
	}
	if g.chance(0.3) {
		anySvc().Roots["Subscription"]["s0"] = g.fieldSig()
	}
	// Node types: declared by 1..n services with disjoint fields
	for t := 0; t < 1+g.pick(3); t++ {
		name := fmt.Sprintf("N%d", t)
		decl := g.r.Perm(n)[:1+g.pick(n)]
		if len(decl) >= 3 {
			tag["node-type-in-3-services"] = true
		}
		for _, i := range decl {
			c.Svcs[i].HasNode = true
			c.Svcs[i].Types[name] = &mschema.Type{Kind: "OBJECT", Node: true, Fields: map[string]*mschema.Field{}}
		}
		for f := 0; f < g.pick(5); f++ {
			i := decl[g.pick(len(decl))]
			c.Svcs[i].Types[name].Fields[fmt.Sprintf("f%d", f)] = g.fieldSig()
		}
	}
	// an extra interface implemented by a shared Node type in ONE of the services declaring it
	if g.chance(0.5) {
		var cands []string
		for t := range c.Svcs[0].Types {
			_ = t
		}
		seen := map[string][]int{}
		for i, s := range c.Svcs {
			for t, td := range s.Types {
				if td.Kind == "OBJECT" && td.Node {
					seen[t] = append(seen[t], i)
				}
			}
		}
		for t, is := range seen {
			if len(is) >= 2 {
				cands = append(cands, t)
			}
		}
		sort.Strings(cands)
		if len(cands) > 0 {
			t := cands[g.pick(len(cands))]
			i := seen[t][g.pick(len(seen[t]))]
			s := c.Svcs[i]
			s.Types["Named"] = &mschema.Type{Kind: "INTERFACE", Fields: map[string]*mschema.Field{"label": F("String")}}
			s.Types[t].Impl = []string{"Named"}
			s.Types[t].Fields["label"] = F("String")
			s.Roots["Query"][fmt.Sprintf("named%d", i)] = F("Named")
			tag["interface-on-shared-node-type"] = true
		}
	}
	// shared value / input types: identical copies, or disjoint declarations
	for t := 0; t < g.pick(3); t++ {
		kind := []string{"OBJECT", "INPUT_OBJECT"}[g.pick(2)]
		name := fmt.Sprintf("%c%d", map[string]byte{"OBJECT": 'P', "INPUT_OBJECT": 'I'}[kind], t)
		fields := map[string]*mschema.Field{}
		for f := 0; f < 1+g.pick(3); f++ {
			sig := g.fieldSig()
			if kind == "INPUT_OBJECT" {
				sig.Args = map[string]string{}
			}
			fields[fmt.Sprintf("p%d", f)] = sig
		}
		decl := g.r.Perm(n)[:1+g.pick(n)]
		if len(decl) >= 2 && g.chance(0.25) {
			// disjoint: every declaring service gets its own fields
			tag["disjoint-plain-type"] = true
			for j, i := range decl {
				sig := g.fieldSig()
				if kind == "INPUT_OBJECT" {
					sig.Args = map[string]string{}
				}
				c.Svcs[i].Types[name] = &mschema.Type{Kind: kind, Fields: map[string]*mschema.Field{fmt.Sprintf("d%d", j): sig}}
			}
			continue
		}
		if len(decl) >= 2 {
			tag["shared-identical-type"] = true
		}
		for _, i := range decl {
			cp := map[string]*mschema.Field{}
			for k2, v := range fields {
				vv := *v
				vv.Args = map[string]string{}
				for a, b := range v.Args {
					vv.Args[a] = b
				}
				cp[k2] = &vv
			}
			c.Svcs[i].Types[name] = &mschema.Type{Kind: kind, Fields: cp}
		}
	}
	// enum (values may differ: they are united), custom scalar, directive
	if g.chance(0.6) {
		vals := []string{"A", "B", "C"}
		for _, i := range g.r.Perm(n)[:1+g.pick(n)] {
			sub := []string{}
			for _, v := range vals {
				if g.chance(0.6) {
					sub = append(sub, v)
				}
			}
			if len(sub) == 0 {
				sub = []string{"A"}
			}
			c.Svcs[i].Types["E0"] = &mschema.Type{Kind: "ENUM", Values: sub}
			tag["enum"] = true
		}
	}
	if g.chance(0.4) {
		for _, i := range g.r.Perm(n)[:1+g.pick(n)] {
			c.Svcs[i].Types["Date"] = &mschema.Type{Kind: "SCALAR"}
		}
	}
	if g.chance(0.4) {
		for _, i := range g.r.Perm(n)[:1+g.pick(n)] {
			c.Svcs[i].Directives["tag"] = &mschema.Directive{Args: map[string]string{"name": "String!"}, Locs: []string{"FIELD_DEFINITION", "OBJECT"}}
		}
	}
	// union over Node types (same members everywhere, members declared as stubs where needed)
	if g.chance(0.5) {
		members := []string{}
		for t := range c.Svcs[0].Types {
			_ = t
		}
		all := map[string]bool{}
		for _, s := range c.Svcs {
			for t, td := range s.Types {
				if td.Kind == "OBJECT" && td.Node {
					all[t] = true
				}
			}
		}
		for t := range all {
			members = append(members, t)
		}
		sort.Strings(members)
		if len(members) > 0 {
			tag["union"] = true
			for _, i := range g.r.Perm(n)[:1+g.pick(n)] {
				s := c.Svcs[i]
				s.Types["U0"] = &mschema.Type{Kind: "UNION", Members: members}
				for _, m := range members {
					if s.Types[m] == nil {
						s.Types[m] = &mschema.Type{Kind: "OBJECT", Node: true, Fields: map[string]*mschema.Field{}}
						s.HasNode = true
					}
				}
				s.Roots["Query"][fmt.Sprintf("u%d", i)] = F("U0")
			}
		}
	}
	// interface declared by one service over a value type declared there
	if g.chance(0.4) {
		s := anySvc()
		s.Types["Face"] = &mschema.Type{Kind: "INTERFACE", Fields: map[string]*mschema.Field{"label": F("String")}}
		s.Types["FaceImpl"] = &mschema.Type{Kind: "OBJECT", Impl: []string{"Face"}, Fields: map[string]*mschema.Field{"label": F("String"), "extra": F("Int")}}
		tag["interface"] = true
	}
	for t := range tag {
		c.Tags = append(c.Tags, t)
	}
	sort.Strings(c.Tags)
	return c
}

// edit introduces ONE conflict of the kinds the property names (or returns false when the set
// offers no place for it).
func (g *gen) edit(c *caseIn) (string, bool) {
	n := len(c.Svcs)
	if n < 2 {
		return "", false
	}
	kinds := []string{"root-dup", "kind-clash", "node-clash", "node-field-dup", "plain-partial", "plain-partial-3way", "sig-clash", "union-clash"}
	kind := kinds[g.pick(len(kinds))]
	a, b := c.Svcs[0], c.Svcs[1]
	if p := g.r.Perm(n); true {
		a, b = c.Svcs[p[0]], c.Svcs[p[1]]
	}
	shared := func(pred func(x, y *mschema.Type) bool) string {
		var names []string
		for t, x := range a.Types {
			if y, ok := b.Types[t]; ok && pred(x, y) {
				names = append(names, t)
			}
		}
		sort.Strings(names)
		if len(names) == 0 {
			return ""
		}
		return names[g.pick(len(names))]
	}
	switch kind {
	case "root-dup":
		root := []string{"Query", "Mutation"}[g.pick(2)]
		var fs []string
		for f, sig := range a.Roots[root] {
			if sig.Ty != "U0" && sig.Ty != "Named" { // the other service may not declare the type
				fs = append(fs, f)
			}
		}
		sort.Strings(fs)
		if len(fs) == 0 {
			return "", false
		}
		f := fs[g.pick(len(fs))]
		cp := *a.Roots[root][f]
		b.Roots[root][f] = &cp
	case "kind-clash":
		var names []string
		for t, x := range a.Types {
			if x.Kind == "OBJECT" && !x.Node && b.Types[t] == nil {
				names = append(names, t)
			}
		}
		sort.Strings(names)
		if len(names) == 0 {
			return "", false
		}
		b.Types[names[g.pick(len(names))]] = &mschema.Type{Kind: "ENUM", Values: []string{"X"}}
	case "node-clash":
		t := shared(func(x, y *mschema.Type) bool { return x.Kind == "OBJECT" && x.Node && y.Node && len(y.Fields) > 0 })
		if t == "" {
			return "", false
		}
		for _, s := range c.Svcs {
			if u := s.Types["U0"]; u != nil && s == b {
				return "", false // a union member must stay a Node there
			}
		}
		b.Types[t].Node = false
	case "node-field-dup":
		t := shared(func(x, y *mschema.Type) bool { return x.Kind == "OBJECT" && x.Node && y.Node && len(x.Fields) > 0 })
		if t == "" {
			return "", false
		}
		for f, sig := range a.Types[t].Fields {
			cp := *sig
			b.Types[t].Fields[f] = &cp
			break
		}
	case "plain-partial":
		t := shared(func(x, y *mschema.Type) bool {
			return (x.Kind == "OBJECT" || x.Kind == "INPUT_OBJECT") && !x.Node && x.Kind == y.Kind && len(x.Fields) > 0 && sameKeys(x.Fields, y.Fields)
		})
		if t == "" {
			return "", false
		}
		b.Types[t].Fields["extraOnlyHere"] = F("String")
	case "plain-partial-3way":
		// X declares {x}, Y declares {y} (disjoint: fine), Z declares {x, y}: Z overlaps each of them partially
		if n < 3 {
			return "", false
		}
		p := g.r.Perm(n)
		name := fmt.Sprintf("W%d", g.pick(100))
		c.Svcs[p[0]].Types[name] = &mschema.Type{Kind: "OBJECT", Fields: map[string]*mschema.Field{"x": F("Int")}}
		c.Svcs[p[1]].Types[name] = &mschema.Type{Kind: "OBJECT", Fields: map[string]*mschema.Field{"y": F("Int")}}
		c.Svcs[p[2]].Types[name] = &mschema.Type{Kind: "OBJECT", Fields: map[string]*mschema.Field{"x": F("Int"), "y": F("Int")}}
	case "sig-clash":
		t := shared(func(x, y *mschema.Type) bool {
			return (x.Kind == "OBJECT" || x.Kind == "INPUT_OBJECT") && !x.Node && x.Kind == y.Kind && len(x.Fields) > 0 && sameKeys(x.Fields, y.Fields)
		})
		if t == "" {
			return "", false
		}
		for f := range b.Types[t].Fields {
			if g.chance(0.5) || b.Types[t].Kind == "INPUT_OBJECT" {
				if b.Types[t].Fields[f].Ty == "Float" {
					b.Types[t].Fields[f].Ty = "Int"
				} else {
					b.Types[t].Fields[f].Ty = "Float"
				}
			} else {
				b.Types[t].Fields[f].Args["other"] = "Int"
			}
			break
		}
	case "union-clash":
		if a.Types["U0"] == nil || b.Types["U0"] == nil {
			return "", false
		}
		b.Types["ExtraMember"] = &mschema.Type{Kind: "OBJECT", Fields: map[string]*mschema.Field{"x": F("Int")}}
		b.Types["U0"].Members = append(append([]string{}, b.Types["U0"].Members...), "ExtraMember")
	}
	return kind, true
}

func sameKeys(a, b map[string]*mschema.Field) bool {
	if len(a) != len(b) {
		return false
	}
	for k := range a {
		if _, ok := b[k]; !ok {
			return false
		}
	}
	return true
}

func cmdGen(args []string) {
	fs := flag.NewFlagSet("gen", flag.ExitOnError)
	seed := fs.Int64("seed", 1, "")
	sets := fs.Int("sets", 100, "")
	out := fs.String("out", "", "")
	fs.Parse(args)
	of, _ := os.Create(*out)
	defer of.Close()
	bw := bufio.NewWriterSize(of, 1<<20)
	defer bw.Flush()
	enc := json.NewEncoder(bw)
	g := &gen{r: rand.New(rand.NewSource(*seed))}
	for k := 0; k < *sets; k++ {
		c := g.genSet(int(*seed)*100000 + k)
		if g.chance(0.5) {
			ne := 1 + g.pick(2)
			for e := 0; e < ne; e++ {
				if kind, ok := g.edit(c); ok {
					c.Tags = append(c.Tags, "edit:"+kind)
				}
			}
		}
		runCase(enc, c, []string{"extend", "sanitize", "gateway", "extend-again"})
	}
}

func main() {
	if len(os.Args) < 2 {
		os.Exit(2)
	}
	switch os.Args[1] {
	case "run":
		cmdRun(os.Args[2:])
	case "gen":
		cmdGen(os.Args[2:])
	default:
		os.Exit(2)
	}
}
