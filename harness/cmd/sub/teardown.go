package main

// Direction A for C18: behaviours of spec/SubscriptionImpl.tla are forced on the real gateway.
// Every goroutine of the teardown protocol parks at its `verif` hook points; one action of the
// model = release the goroutines that take part in it, then compare where every goroutine is
// parked with the program counters of the model's next state.

import (
	"bufio"
	"encoding/json"
	"fmt"
	"os"
	"sort"
	"strings"
	"sync"
	"sync/atomic"
	"time"

	"github.com/buildbuildio/pebbles/common"

	"verifharness/gw"
	"verifharness/sched"
	"verifharness/world"
)

type tdState struct {
	H, L, C, R, K string
	Delivered     int    `json:"delivered"`
	Crashed       string `json:"crashed"`
	UpClosed      bool   `json:"upClosed"`
	ClientGone    bool   `json:"clientGone"`
	InDict        bool   `json:"inDict"`
}

type tdStep struct {
	Act  []interface{} `json:"act"`
	Post tdState       `json:"post"`
}

type tdCase struct {
	ID    string        `json:"id"`
	Init  []interface{} `json:"init"` // ["Init", client script, upstream script, startFails]
	Steps []tdStep      `json:"steps"`
	// what the model says about the last state
	Quiescent bool `json:"quiescent"`
	Ended     bool `json:"ended"`
	AllGone   bool `json:"allGone"`
}

type tdResult struct {
	ID        string   `json:"id"`
	Steps     int      `json:"steps"`
	Deviation string   `json:"deviation,omitempty"` // the code did not do what the model says (machinery / model fidelity)
	Leak      []string `json:"leak,omitempty"`      // goroutines left behind after the end
	UpOpen    bool     `json:"upOpen,omitempty"`    // upstream connection still open after the end
	BadFrames []string `json:"badFrames,omitempty"`
	Delivered int      `json:"delivered"`
	Emitted   int      `json:"emitted"`
	ConnEnded bool     `json:"connEnded"`
	SubEnded  bool     `json:"subEnded"`
	ModelSays string   `json:"modelSays,omitempty"`
	Log       []string `json:"log,omitempty"`
}

var gateOfPC = map[string]map[string]string{
	"L": {"select": "se.listen.select", "resp": "se.listen.resp", "respnil": "se.listen.resp", "write": "se.listen.write", "closech": "se.listen.closech",
		"dq": "se.listen.defer.qclose"},
	"C": {"enter": "se.close.enter"},
	"R": {"start": "sub.reader.start", "read": "sub.reader.read", "send": "sub.reader.send", "exit": "sub.reader.exit", "sendnil": "sub.reader.exit.nil"},
	"K": {"wait": "sub.closer.wait", "close": "sub.closer.close"},
	"H": {"exit": "sub.handler.exit", "cleanall": "sub.handler.cleanall"},
}

var gated = func() map[string]bool {
	m := map[string]bool{"sub.handler.msg": true}
	for _, g := range gateOfPC {
		for _, k := range g {
			m[k] = true
		}
	}
	return m
}()

func wantParked(s tdState) []string {
	var out []string
	for p, pc := range map[string]string{"H": s.H, "L": s.L, "C": s.C, "R": s.R, "K": s.K} {
		if g, ok := gateOfPC[p][pc]; ok {
			out = append(out, g)
		}
	}
	sort.Strings(out)
	return out
}

// router sends hook calls of the current case to its scheduler.  Instances of a kind are numbered
// per case in creation order; points of the second, third ... instance get the key "point#n".
type router struct {
	mu    sync.Mutex
	cur   *sched.Sched
	minID uint64
	ord   map[uint64]int
	n     map[string]int
}

var rt router

func (r *router) begin(s *sched.Sched) {
	id := common.VerifNew("case")
	r.mu.Lock()
	r.cur, r.minID, r.ord, r.n = s, id, map[uint64]int{}, map[string]int{}
	r.mu.Unlock()
}

func (r *router) end() {
	r.mu.Lock()
	r.cur = nil
	r.mu.Unlock()
}

// counts: how many subscription entries and upstream subscriptions the current case has created so far
func (r *router) counts() (int, int) {
	r.mu.Lock()
	defer r.mu.Unlock()
	return r.n["se"], r.n["qsub"]
}

func (r *router) sched() *sched.Sched {
	r.mu.Lock()
	defer r.mu.Unlock()
	return r.cur
}

func baseKey(k string) string {
	if i := strings.IndexByte(k, '#'); i >= 0 {
		return k[:i]
	}
	return k
}

func installHook() {
	common.VerifHook.Store(func(id uint64, point string, kv ...interface{}) {
		rt.mu.Lock()
		s := rt.cur
		if s == nil || (id != 0 && id < rt.minID) {
			rt.mu.Unlock()
			return
		}
		if strings.HasSuffix(point, ".new") {
			kind := strings.TrimSuffix(point, ".new")
			rt.n[kind]++
			rt.ord[id] = rt.n[kind]
			rt.mu.Unlock()
			s.Note(point, id)
			return
		}
		key := point
		if o := rt.ord[id]; o > 1 {
			key = fmt.Sprintf("%s#%d", point, o)
		}
		rt.mu.Unlock()
		s.Arrive(key, kv...)
	})
}

const stepTimeout = 2 * time.Second

func parkedList(s *sched.Sched) []string {
	var out []string
	for k, n := range s.Parked() {
		for i := 0; i < n; i++ {
			out = append(out, k)
		}
	}
	sort.Strings(out)
	return out
}

func waitParkedSet(s *sched.Sched, want []string, timeout time.Duration) (bool, []string) {
	deadline := time.Now().Add(timeout)
	for {
		got := parkedList(s)
		if strings.Join(got, ",") == strings.Join(want, ",") {
			return true, got
		}
		if time.Now().After(deadline) {
			return false, got
		}
		time.Sleep(100 * time.Microsecond)
	}
}

// tdWorld is the fixed world of the teardown replay: the subscription's root field lives on
// service 0, one selected field of its result on service 1 (so every event needs a follow-up step).
func tdWorld() *world.World {
	nn := func(n string) world.TypeRef { return world.TypeRef{Name: n, NN: true} }
	w := &world.World{
		ID: 1,
		Types: map[string]*world.TypeDecl{
			"Item": {Kind: "OBJECT", Node: true, Order: []string{"id", "name", "price"}, Fields: map[string]*world.FieldDecl{
				"id": {Type: nn("ID")}, "name": {Type: nn("String")}, "price": {Type: nn("Int")}}},
			"Query":        {Kind: "OBJECT", Order: []string{"first", "count"}, Fields: map[string]*world.FieldDecl{"first": {Type: world.TypeRef{Name: "Item"}}, "count": {Type: nn("Int")}}},
			"Subscription": {Kind: "OBJECT", Order: []string{"itemChanged"}, Fields: map[string]*world.FieldDecl{"itemChanged": {Type: nn("Item")}}},
		},
		Services: []*world.Service{
			{URL: "http://s0.test", Decl: map[string][]string{"Item": {"name"}, "Query": {"first"}, "Subscription": {"itemChanged"}}},
			{URL: "http://s1.test", Decl: map[string][]string{"Item": {"price"}, "Query": {"count"}}},
		},
		Ents: map[string]*world.Entity{
			"Item_1": {Type: "Item", F: map[string]world.Val{"id": world.S("Item_1"), "name": world.S("one"), "price": world.S(11)}},
			"Item_2": {Type: "Item", F: map[string]world.Val{"id": world.S("Item_2"), "name": world.S("two"), "price": world.S(22)}},
			"Item_3": {Type: "Item", F: map[string]world.Val{"id": world.S("Item_3"), "name": world.S("three"), "price": world.S(33)}},
			// an event bigger than any buffer a writer might put in front of the connection
			"Item_big": {Type: "Item", F: map[string]world.Val{"id": world.S("Item_big"), "name": world.S(strings.Repeat("0123456789", 900)), "price": world.S(44)}},
		},
		Roots: map[string]map[string]world.Val{
			"Query":        {"first": world.R("Item_1"), "count": world.S(3)},
			"Subscription": {"itemChanged": world.R("Item_1")},
		},
	}
	return w.Fill()
}

const tdQuery = "subscription { itemChanged { name price } }"

type tdRunner struct {
	e *env
}

func strAt(a []interface{}, i int) string {
	if i < len(a) {
		if s, ok := a[i].(string); ok {
			return s
		}
	}
	return ""
}

func (r *tdRunner) run(tc *tdCase) (res tdResult) {
	res.ID = tc.ID
	logf := func(f string, a ...interface{}) { res.Log = append(res.Log, fmt.Sprintf(f, a...)) }
	dev := func(f string, a ...interface{}) string { return fmt.Sprintf(f, a...) }
	base := pebblesGoroutines()
	// only the first instance of every kind is gated (a restart creates second instances, which run freely)
	s := sched.New(true, func(k string) bool { return gated[k] })
	second := false // a second operation is running under the id
	rt.begin(s)
	defer func() {
		s.Open()
		rt.end()
	}()

	var cl *client
	var up, up2 *upConn
	defer func() {
		if cl != nil {
			cl.conn.Close()
		}
	}()
	res.Deviation = func() string {
		var err error
		cl, err = dial(r.e.gsrv.URL)
		if err != nil {
			return dev("dial: %v", err)
		}
		passMsg := func() bool {
			if !s.WaitParked("sub.handler.msg", stepTimeout) {
				return false
			}
			s.Release("sub.handler.msg")
			return true
		}
		cl.send(map[string]string{"type": "connection_init"})
		if !passMsg() {
			return dev("setup: handler did not read connection_init")
		}
		if !cl.waitFor(func() bool { return cl.countTypeLocked("connection_ack") == 1 }, stepTimeout) {
			return dev("setup: no connection_ack")
		}
		startFails := len(tc.Init) > 3 && tc.Init[3] == true
		upsvc := r.e.ups[r.e.w.Services[0].URL]
		if startFails {
			atomic.StoreInt32(&upsvc.resetNext, 1)
		}
		cl.start("7", tdQuery, map[string]interface{}{}, "")
		if !passMsg() {
			return dev("setup: handler did not read start")
		}
		var init tdState
		if startFails {
			select {
			case <-upsvc.resets:
			case <-time.After(stepTimeout):
				return dev("setup: the gateway did not connect upstream")
			}
			time.Sleep(3 * time.Millisecond) // the RST must have arrived before the reader writes
			up = &upConn{closed: make(chan struct{})}
			close(up.closed)
			init = tdState{H: "starting", L: "none", C: "none", R: "start", K: "wait"}
			res.SubEnded, res.ConnEnded = true, true
		} else {
			if !s.WaitParked("sub.reader.start", stepTimeout) {
				return dev("setup: the upstream reader did not start")
			}
			s.Release("sub.reader.start")
			select {
			case up = <-upsvc.conns:
			case <-time.After(stepTimeout):
				return dev("setup: the gateway did not connect upstream")
			}
			select {
			case <-up.started:
			case <-time.After(stepTimeout):
				return dev("setup: no upstream start")
			}
			// the reader's first frame is the upstream's connection_ack, which it skips
			if !s.WaitParked("sub.reader.read", stepTimeout) {
				return dev("setup: the upstream reader did not start")
			}
			s.Release("sub.reader.read")
			if !s.WaitCount("sub.reader.read", 2, stepTimeout) {
				return dev("setup: the upstream reader did not skip connection_ack")
			}
			init = tdState{H: "read", L: "select", C: "none", R: "read", K: "wait"}
		}
		if ok, got := waitParkedSet(s, wantParked(init), stepTimeout); !ok {
			return dev("setup: parked %v, want %v", got, wantParked(init))
		}
		prev := init
		prev.InDict = true
		items := []string{"Item_1", "Item_2", "Item_3"}
		for i, st := range tc.Steps {
			act := strAt(st.Act, 0)
			logf("%d %v", i, st.Act)
			res.Steps = i
			switch act {
			case "HMsg":
				switch m := strAt(st.Act, 1); m {
				case "stop":
					cl.send(map[string]string{"type": "stop", "id": "7"})
					res.SubEnded = true
					second = false
				case "restart":
					// a start under the id in use; the operation it starts is a second instance, which runs freely
					cl.start("7", tdQuery, map[string]interface{}{}, "")
					res.SubEnded = true
					second = true
				case "terminate":
					cl.send(map[string]string{"type": "connection_terminate"})
					res.ConnEnded = true
				case "garbage":
					cl.sendRaw([]byte("{not json"))
					res.ConnEnded = true
				case "reset":
					cl.reset()
					res.ConnEnded = true
				default:
					return dev("unknown client message %q", m)
				}
				if !passMsg() {
					return dev("step %d %v: the handler did not read the message; parked %v", i, st.Act, parkedList(s))
				}
				if strAt(st.Act, 1) == "restart" {
					// the upstream connection of the operation that replaces ours
					select {
					case up2 = <-upsvc.conns:
						select {
						case <-up2.started:
						case <-time.After(stepTimeout):
						}
					case <-time.After(stepTimeout):
						return dev("step %d %v: the replacing operation did not connect upstream", i, st.Act)
					}
				}
			case "Race":
				// Listen's select has two ready cases (closeCh closed, the reader sending): which one it takes cannot be
				// forced.  Both goroutines are let go, then everything runs freely; only the end state is judged.
				s.Release("se.listen.select", gateOfPC["R"][strAt(st.Act, 1)])
				res.Steps = i + 1
				return ""
			case "RStartFail":
				s.Release("sub.reader.start")
			case "HExit":
				s.Release("sub.handler.exit")
			case "HCleanAll":
				n := s.Count("sub.handler.done")
				s.Release("sub.handler.cleanall")
				if !s.WaitCount("sub.handler.done", n+1, stepTimeout) {
					return dev("step %d %v: the handler did not finish", i, st.Act)
				}
			case "CClose":
				n := s.Count("se.close.closed")
				s.Release("se.close.enter")
				if !s.WaitCount("se.close.closed", n+1, stepTimeout) {
					return dev("step %d %v: Close did not return", i, st.Act)
				}
			case "LSeeClose":
				s.Release("se.listen.select")
			case "LRecvResp":
				s.Release("se.listen.select", gateOfPC["R"][strAt(st.Act, 1)])
			case "LPrepare":
				s.Release("se.listen.resp")
			case "LWrite":
				s.Release("se.listen.write")
			case "LReturn":
				s.Release(gateOfPC["L"][strAt(st.Act, 1)])
			case "LCloseQ":
				n := s.Count("se.listen.done")
				s.Release("se.listen.defer.qclose")
				if !s.WaitCount("se.listen.done", n+1, stepTimeout) {
					return dev("step %d %v: Listen did not return", i, st.Act)
				}
			case "RRead":
				switch what := strAt(st.Act, 1); what {
				case "data":
					p := r.e.payloadFor(up, "itemChanged", world.R(items[res.Emitted%len(items)]))
					res.Emitted++
					if err := up.SendData(p); err != nil {
						return dev("step %d: upstream write: %v", i, err)
					}
				case "error":
					res.Emitted++
					if err := up.write(map[string]interface{}{"type": "error", "id": "1", "payload": []map[string]interface{}{{"message": fmt.Sprintf("upstream error %d", res.Emitted)}}}); err != nil {
						return dev("step %d: upstream write: %v", i, err)
					}
				case "complete":
					up.SendComplete()
					res.SubEnded = true
				case "drop":
					up.Drop()
					res.SubEnded = true
				case "closed":
				}
				s.Release("sub.reader.read")
			case "RAbort":
				s.Release("sub.reader.send")
			case "RExit":
				s.Release("sub.reader.exit")
			case "RNilAbort":
				n := s.Count("sub.reader.done")
				s.Release("sub.reader.exit.nil")
				if !s.WaitCount("sub.reader.done", n+1, stepTimeout) {
					return dev("step %d %v: the upstream reader did not return", i, st.Act)
				}
			case "KRecv":
				s.Release("sub.closer.wait")
			case "KClose":
				n := s.Count("sub.closer.done")
				s.Release("sub.closer.close")
				if !s.WaitCount("sub.closer.done", n+1, stepTimeout) {
					return dev("step %d %v: the upstream closer did not return", i, st.Act)
				}
			default:
				return dev("unknown action %v", st.Act)
			}
			if st.Post.Crashed != "" {
				// the model says the process dies here; the parent sees the child's death
				res.ModelSays = st.Post.Crashed
				time.Sleep(2 * time.Second)
				return dev("step %d %v: the model predicts %q but the process is alive; parked %v", i, st.Act, st.Post.Crashed, parkedList(s))
			}
			if ok, got := waitParkedSet(s, wantParked(st.Post), stepTimeout); !ok {
				return dev("step %d %v: goroutines parked at %v, the model says %v", i, st.Act, got, wantParked(st.Post))
			}
			if st.Post.Delivered != prev.Delivered {
				if !cl.waitFor(func() bool { return cl.countTypeLocked("data") >= st.Post.Delivered }, stepTimeout) {
					return dev("step %d %v: client has %d data frames, the model says %d", i, st.Act, cl.countType("data"), st.Post.Delivered)
				}
			}
			if st.Post.UpClosed && !prev.UpClosed {
				if !up.IsClosed(stepTimeout) {
					return dev("step %d %v: the model says the upstream connection is closed, the upstream still sees it open", i, st.Act)
				}
			}
			prev = st.Post
		}
		res.Steps = len(tc.Steps)
		return ""
	}()
	if cl == nil || up == nil {
		return res // the set-up failed: nothing to look at
	}
	// the behaviour is over (or the code left the model's path): let everything run freely and look at what is left
	s.Open()
	ended := res.SubEnded || res.ConnEnded
	want := []string{}
	if !res.ConnEnded {
		want = []string{"handler", "heartbeat"}
		if second {
			want = append(want, "Listen", "closer", "reader")
		}
	}
	if ended {
		extra, _ := settle(base, want, 400*time.Millisecond)
		if len(extra) > 0 {
			// a leak never goes away, a teardown on a starved machine does
			extra, _ = settle(base, want, 6*time.Second)
		}
		res.Leak = extra
		if !up.IsClosed(400*time.Millisecond) && !up.IsClosed(6*time.Second) {
			res.UpOpen = true
		}
	}
	frames, end := cl.snapshot()
	for _, f := range frames {
		if f.Bad != "" {
			res.BadFrames = append(res.BadFrames, f.Bad+": "+f.Raw)
		}
		if f.Type == "data" {
			res.Delivered++
			if f.ID != "7" {
				res.BadFrames = append(res.BadFrames, "data frame under id "+f.ID)
			}
		}
	}
	if strings.HasPrefix(end, "protocol-error") {
		res.BadFrames = append(res.BadFrames, end)
	}
	if res.Delivered > res.Emitted {
		res.BadFrames = append(res.BadFrames, fmt.Sprintf("%d data frames for %d events", res.Delivered, res.Emitted))
	}
	// the model's verdict on its last state must agree with what the code did
	leaked := len(res.Leak) > 0 || res.UpOpen
	if res.Deviation == "" && tc.Quiescent && tc.Ended && ended && leaked == tc.AllGone {
		res.ModelSays = fmt.Sprintf("model: allGone=%v; code: leak=%v upOpen=%v", tc.AllGone, res.Leak, res.UpOpen)
	}
	// clean up: end the connection and the upstream, whatever state they are in
	cl.reset()
	up.Drop()
	if up2 != nil {
		if ended && res.ConnEnded && !up2.IsClosed(400*time.Millisecond) {
			res.UpOpen = true // the replacing operation's upstream connection outlived the client connection
		}
		up2.Drop()
	}
	settle(base, nil, 300*time.Millisecond)
	return res
}

// cmdTeardownChild runs cases [from, to) of the file in this process, one result line each.
func cmdTeardownChild(path string, from, to int) {
	installHook()
	e, err := newEnv(tdWorld(), gw.Config{Name: "default"})
	if err != nil {
		fmt.Fprintln(os.Stderr, "HARNESS: "+err.Error())
		os.Exit(4)
	}
	f, err := os.Open(path)
	if err != nil {
		fmt.Fprintln(os.Stderr, "HARNESS: "+err.Error())
		os.Exit(4)
	}
	sc := bufio.NewScanner(f)
	sc.Buffer(make([]byte, 1<<20), 64<<20)
	out := bufio.NewWriter(os.Stdout)
	r := &tdRunner{e: e}
	for i := 0; sc.Scan(); i++ {
		if i < from || i >= to {
			continue
		}
		var tc tdCase
		if err := json.Unmarshal(sc.Bytes(), &tc); err != nil {
			fmt.Fprintln(os.Stderr, "HARNESS: bad case: "+err.Error())
			os.Exit(4)
		}
		fmt.Fprintf(out, "BEGIN %d %s\n", i, tc.ID)
		out.Flush()
		res := r.run(&tc)
		b, _ := json.Marshal(res)
		fmt.Fprintf(out, "RESULT %d %s\n", i, b)
		out.Flush()
		if len(res.Leak) > 0 || res.Deviation != "" {
			// leaked goroutines stay for the life of the process: continue in a fresh one
			fmt.Fprintf(out, "RESTART %d\n", i+1)
			out.Flush()
			os.Exit(0)
		}
	}
	fmt.Fprintf(out, "DONE\n")
	out.Flush()
}
