package main

import (
	"context"
	"encoding/json"
	"errors"
	"fmt"
	"io"
	"net"
	"net/http"
	"net/http/httptest"
	"runtime"
	"sort"
	"strings"
	"sync"
	"sync/atomic"
	"time"

	"github.com/buildbuildio/pebbles/requests"
	"github.com/gobwas/ws"
	"github.com/gobwas/ws/wsutil"

	"verifharness/fakesvc"
	"verifharness/gw"
	"verifharness/world"
)

// ---------------------------------------------------------------------------- fake upstream

// upConn is one websocket connection the gateway opened to a service (one per subscription).
type upConn struct {
	svc     string
	conn    net.Conn
	mu      sync.Mutex // writes
	Query   string
	Vars    map[string]interface{}
	OpName  string
	started chan struct{}
	closed  chan struct{} // the gateway's side is gone (read error / close frame)
	stops   int
}

func (u *upConn) write(v interface{}) error {
	b, _ := json.Marshal(v)
	u.mu.Lock()
	defer u.mu.Unlock()
	return wsutil.WriteServerText(u.conn, b)
}

func (u *upConn) SendData(payload map[string]interface{}) error {
	return u.write(map[string]interface{}{"type": "data", "id": "1", "payload": payload})
}
func (u *upConn) SendComplete() error {
	return u.write(map[string]interface{}{"type": "complete", "id": "1"})
}
func (u *upConn) SendRaw(b []byte) error {
	u.mu.Lock()
	defer u.mu.Unlock()
	return wsutil.WriteServerText(u.conn, b)
}
func (u *upConn) Drop() {
	if u.conn != nil {
		u.conn.Close()
	}
}
func (u *upConn) IsClosed(timeout time.Duration) bool {
	select {
	case <-u.closed:
		return true
	case <-time.After(timeout):
		return false
	}
}

type upstream struct {
	url       string
	srv       *httptest.Server
	conns     chan *upConn
	resetNext int32         // break the next connection right after the upgrade (RST)
	resets    chan struct{} // one token per broken connection
}

func newUpstream() *upstream {
	u := &upstream{conns: make(chan *upConn, 64), resets: make(chan struct{}, 64)}
	u.srv = httptest.NewServer(http.HandlerFunc(u.handle))
	u.url = u.srv.URL
	return u
}

func (u *upstream) handle(w http.ResponseWriter, r *http.Request) {
	upgrader := ws.HTTPUpgrader{Timeout: time.Second * 60, Protocol: func(p string) bool { return p == "graphql-ws" }}
	conn, _, _, err := upgrader.Upgrade(r, w)
	if err != nil {
		return
	}
	if atomic.CompareAndSwapInt32(&u.resetNext, 1, 0) {
		if t, ok := conn.(*net.TCPConn); ok {
			t.SetLinger(0)
		}
		conn.Close()
		u.resets <- struct{}{}
		return
	}
	c := &upConn{svc: u.url, conn: conn, started: make(chan struct{}), closed: make(chan struct{})}
	u.conns <- c
	defer close(c.closed)
	for {
		msg, err := wsutil.ReadClientText(conn)
		if err != nil {
			return
		}
		var m struct {
			Type    string `json:"type"`
			ID      string `json:"id"`
			Payload struct {
				Query         string                 `json:"query"`
				Variables     map[string]interface{} `json:"variables"`
				OperationName *string                `json:"operationName"`
			} `json:"payload"`
		}
		if err := json.Unmarshal(msg, &m); err != nil {
			return
		}
		switch m.Type {
		case "connection_init":
			c.write(map[string]interface{}{"type": "connection_ack"})
		case "start":
			c.Query, c.Vars = m.Payload.Query, m.Payload.Variables
			if m.Payload.OperationName != nil {
				c.OpName = *m.Payload.OperationName
			}
			close(c.started)
		case "stop":
			c.stops++
		}
	}
}

// ---------------------------------------------------------------------------- environment

type env struct {
	w    *world.World
	g    *gw.GW
	ups  map[string]*upstream // by service url
	gsrv *httptest.Server
	mu   sync.Mutex // guards w.Roots["Subscription"] while an event payload is computed
}

// newEnv starts one real listener per service of the world (the websocket side of the service; its
// HTTP side stays on the in-process transport of package fakesvc), rewrites the service urls to
// them, and starts the real gateway behind a real HTTP server.
func newEnv(w *world.World, cfg gw.Config) (*env, error) {
	e := &env{w: w, ups: map[string]*upstream{}}
	for _, s := range w.Services {
		u := newUpstream()
		s.URL = u.url
		e.ups[u.url] = u
	}
	g, err := gw.New(w, cfg)
	if err != nil {
		return nil, err
	}
	e.g = g
	e.gsrv = startGatewayServer(http.HandlerFunc(g.G.Handler))
	return e, nil
}

func (e *env) close() {
	e.gsrv.Close()
	for _, u := range e.ups {
		u.srv.Close()
	}
}

// payloadFor evaluates the subscription operation the gateway sent upstream with the root field's
// value for this event.
func (e *env) payloadFor(c *upConn, field string, v world.Val) map[string]interface{} {
	e.mu.Lock()
	defer e.mu.Unlock()
	old := e.w.Roots["Subscription"][field]
	e.w.Roots["Subscription"][field] = v
	defer func() { e.w.Roots["Subscription"][field] = old }()
	res, _ := fakesvc.AnswerFor(e.g.Net.Service(c.svc), c.Query, c.Vars, c.OpName)
	return res
}

// ---------------------------------------------------------------------------- client

type frame struct {
	Raw     string                 `json:"raw"`
	Type    string                 `json:"type"`
	ID      string                 `json:"id"`
	Payload map[string]interface{} `json:"payload"`
	Bad     string                 `json:"bad,omitempty"` // why the frame is not a well-formed protocol message
}

type client struct {
	conn   net.Conn
	mu     sync.Mutex
	cond   *sync.Cond
	frames []frame
	end    string // "" while open; how the read side ended
}

func dial(url string) (*client, error) {
	d := ws.Dialer{Timeout: 2 * time.Second, Protocols: []string{"graphql-ws"}}
	conn, _, _, err := d.Dial(context.Background(), strings.Replace(url, "http", "ws", 1))
	if err != nil {
		return nil, err
	}
	c := &client{conn: conn}
	c.cond = sync.NewCond(&c.mu)
	go c.read()
	return c, nil
}

var knownTypes = map[string]bool{"connection_ack": true, "ka": true, "data": true, "error": true, "complete": true, "connection_error": true}

func (c *client) read() {
	for {
		msg, op, err := wsutil.ReadServerData(c.conn)
		c.mu.Lock()
		if err != nil {
			var ce wsutil.ClosedError
			switch {
			case errors.As(err, &ce):
				c.end = fmt.Sprintf("close-frame:%d", ce.Code)
			case errors.Is(err, io.EOF):
				c.end = "eof"
			case errors.Is(err, net.ErrClosed) || strings.Contains(err.Error(), "use of closed network connection"):
				c.end = "closed-by-client"
			case strings.Contains(err.Error(), "connection reset"):
				c.end = "reset"
			default:
				c.end = "protocol-error: " + err.Error()
			}
			c.cond.Broadcast()
			c.mu.Unlock()
			return
		}
		f := frame{Raw: string(msg)}
		if op != ws.OpText {
			f.Bad = fmt.Sprintf("opcode %d", op)
		} else {
			var m struct {
				Type    string                 `json:"type"`
				ID      string                 `json:"id"`
				Payload map[string]interface{} `json:"payload"`
			}
			if err := json.Unmarshal(msg, &m); err != nil {
				f.Bad = "not JSON: " + err.Error()
			} else {
				f.Type, f.ID, f.Payload = m.Type, m.ID, m.Payload
				if !knownTypes[m.Type] {
					f.Bad = "unknown message type " + m.Type
				}
			}
		}
		c.frames = append(c.frames, f)
		c.cond.Broadcast()
		c.mu.Unlock()
	}
}

func (c *client) send(v interface{}) error {
	b, _ := json.Marshal(v)
	return wsutil.WriteClientText(c.conn, b)
}
func (c *client) sendRaw(b []byte) error { return wsutil.WriteClientText(c.conn, b) }

func (c *client) start(id string, text string, vars map[string]interface{}, opName string) error {
	req := &requests.Request{Query: text, Variables: vars}
	if opName != "" {
		req.OperationName = &opName
	}
	return c.send(requests.ClientSubMsg{Type: requests.SubStart, ID: id, Payload: req})
}

// reset closes the connection abruptly (RST): the gateway's reads and writes fail from then on.
func (c *client) reset() {
	if t, ok := c.conn.(*net.TCPConn); ok {
		t.SetLinger(0)
	}
	c.conn.Close()
}

func (c *client) waitFor(pred func() bool, timeout time.Duration) bool {
	deadline := time.Now().Add(timeout)
	t := time.AfterFunc(timeout, func() { c.mu.Lock(); c.cond.Broadcast(); c.mu.Unlock() })
	defer t.Stop()
	c.mu.Lock()
	defer c.mu.Unlock()
	for !pred() {
		if time.Now().After(deadline) {
			return false
		}
		c.cond.Wait()
	}
	return true
}

// count of frames of a type (caller holds no lock)
func (c *client) countType(ty string) int {
	c.mu.Lock()
	defer c.mu.Unlock()
	return c.countTypeLocked(ty)
}
func (c *client) countTypeLocked(ty string) int {
	n := 0
	for _, f := range c.frames {
		if f.Type == ty {
			n++
		}
	}
	return n
}
func (c *client) snapshot() ([]frame, string) {
	c.mu.Lock()
	defer c.mu.Unlock()
	return append([]frame{}, c.frames...), c.end
}

// ---------------------------------------------------------------------------- goroutines of the code under test

var roleOf = []struct{ pat, role string }{
	{"pebbles.(*subscriptionEntry).Listen", "Listen"},
	{"pebbles.(*subscriptionEntry).Close", "Close"},
	{"queryer.(*MultiOpQueryer).Subscribe.func1", "closer"},
	{"queryer.(*MultiOpQueryer).Subscribe.func2", "reader"},
	{"queryer.(*MultiOpQueryer).Subscribe", "Subscribe"},
	{"pebbles.sendHeartbeat", "heartbeat"},
	{"pebbles.(*Gateway).subscriptionHandler", "handler"},
}

// pebblesGoroutines lists, by role, the goroutines currently running code of the repository's
// subscription machinery.
func pebblesGoroutines() []string {
	buf := make([]byte, 4<<20)
	n := runtime.Stack(buf, true)
	var out []string
	for _, g := range strings.Split(string(buf[:n]), "\n\n") {
		if !strings.Contains(g, "github.com/buildbuildio/pebbles") {
			continue
		}
		role := ""
		for _, r := range roleOf {
			if strings.Contains(g, r.pat) {
				role = r.role
				break
			}
		}
		if role != "" {
			out = append(out, role)
		}
	}
	sort.Strings(out)
	return out
}

// minus removes the elements of b from a (multisets).
func minus(a, b []string) []string {
	cnt := map[string]int{}
	for _, x := range b {
		cnt[x]++
	}
	out := []string{}
	for _, x := range a {
		if cnt[x] > 0 {
			cnt[x]--
			continue
		}
		out = append(out, x)
	}
	return out
}

// settle polls until the subscription goroutines above `base` are exactly `want` (or the timeout
// expires) and returns what is left over beyond `want` and what of `want` is missing.
func settle(base, want []string, timeout time.Duration) (extra, missing []string) {
	deadline := time.Now().Add(timeout)
	for {
		cur := minus(pebblesGoroutines(), base)
		extra, missing = minus(cur, want), minus(want, cur)
		if len(extra) == 0 || time.Now().After(deadline) {
			return
		}
		time.Sleep(2 * time.Millisecond)
	}
}
