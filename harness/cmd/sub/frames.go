package main

// Frame writers (C18: "every frame the client receives is a complete well-formed message").
// Several goroutines write frames to the one client connection: every Listen, the heartbeat, the
// handler (ack, close frame).  The model (spec/SubscriptionFrames.tla): a frame reaches the wire
// intact iff it is handed to the connection in ONE Write call (net.Conn serialises concurrent Write
// calls, nothing serialises two consecutive calls of one goroutine against another goroutine).
// The server side of the client connection is wrapped: every Write call is recorded, classified
// (whole frame / header only / payload only) and can be parked, so that the interleaving
// header1 header2 payload1 payload2 can be forced when the code writes a frame in two calls.

import (
	"encoding/json"
	"fmt"
	"net"
	"net/http"
	"net/http/httptest"
	"os"
	"strings"
	"time"

	"verifharness/gw"
	"verifharness/sched"
	"verifharness/world"
)

type wlistener struct{ net.Listener }

func (l wlistener) Accept() (net.Conn, error) {
	c, err := l.Listener.Accept()
	if err != nil {
		return nil, err
	}
	return &wconn{Conn: c}, nil
}

type wconn struct{ net.Conn }

// classifyWrite tells what a Write call of the gateway on a client connection carries.
func classifyWrite(b []byte) string {
	if len(b) == 0 {
		return "empty"
	}
	switch b[0] {
	case 0x81, 0x88, 0x89, 0x8a: // FIN + text / close / ping / pong
		if len(b) < 2 {
			return "hdr"
		}
		n, h := int(b[1]&0x7f), 2
		switch n {
		case 126:
			if len(b) < 4 {
				return "hdr"
			}
			n, h = int(b[2])<<8|int(b[3]), 4
		case 127:
			if len(b) < 10 {
				return "hdr"
			}
			n, h = 0, 10
			for _, x := range b[2:10] {
				n = n<<8 | int(x)
			}
		}
		if len(b) < h+n {
			return "hdr" // a header, possibly with the first part of its payload
		}
		return "frame"
	case 'H':
		if strings.HasPrefix(string(b), "HTTP/1.1") {
			return "http"
		}
	}
	return "payload" // the rest of a frame whose header went out in an earlier call
}

func (c *wconn) Write(b []byte) (int, error) {
	if s := rt.sched(); s != nil {
		s.Arrive("conn.write."+classifyWrite(b), len(b))
	}
	return c.Conn.Write(b)
}

func startGatewayServer(h http.HandlerFunc) *httptest.Server {
	srv := httptest.NewUnstartedServer(h)
	srv.Listener = wlistener{srv.Listener}
	srv.Start()
	return srv
}

var stepWait = stepTimeout

type frResult struct {
	Serialised bool                     `json:"serialised"` // the second writer could not get in between: a lock serialises the writers
	Trace      []map[string]interface{} `json:"trace"`      // the Write calls on the client connection (for SubscriptionFramesTrace)
	ID         string                   `json:"id"`
	Mode       string                   `json:"mode"`
	Writes     map[string]int           `json:"writes"` // Write calls of the gateway on the client connection, by kind
	Forced     bool                     `json:"forced"` // the interleaving h1 h2 p1 p2 could be forced
	BadFrames  []string                 `json:"badFrames,omitempty"`
	Data       int                      `json:"data"`
	End        string                   `json:"end"`
	Deviation  string                   `json:"deviation,omitempty"`
}

// runFrames: two writers are brought to the point of writing a frame at the same time.
// mode "listeners": two subscriptions' Listen goroutines; mode "heartbeat": one Listen and the heartbeat.
func runFrames(e *env, mode string, id string) (res frResult) {
	res.ID, res.Mode, res.Writes = id, mode, map[string]int{}
	dev := func(f string, a ...interface{}) frResult {
		res.Deviation = fmt.Sprintf(f, a...)
		return res
	}
	hb := mode == "heartbeat"
	big := mode == "bigevents"
	// only the Write calls on the client connection are gated: no hook point of the repository is needed here
	s := sched.New(true, func(k string) bool { return strings.HasPrefix(k, "conn.write.") && k != "conn.write.http" })
	rt.begin(s)
	defer func() {
		s.Open()
		rt.end()
	}()
	cl, err := dial(e.gsrv.URL)
	if err != nil {
		return dev("dial: %v", err)
	}
	defer cl.reset()
	writeKeys := []string{"conn.write.hdr", "conn.write.payload", "conn.write.frame"}
	passWrites := func() {
		for {
			p := s.Parked()
			done := true
			for _, k := range writeKeys {
				if p[k] > 0 {
					s.Release(k)
					done = false
				}
			}
			if done {
				return
			}
			time.Sleep(time.Millisecond)
		}
	}
	cl.send(map[string]string{"type": "connection_init"})
	dl := time.Now().Add(stepTimeout)
	for cl.countType("connection_ack") == 0 && time.Now().Before(dl) {
		passWrites()
		time.Sleep(time.Millisecond)
	}
	if cl.countType("connection_ack") == 0 {
		return dev("setup: no ack")
	}
	nsub := 2
	if hb {
		nsub = 1
	}
	var ups []*upConn
	for i := 0; i < nsub; i++ {
		cl.start(fmt.Sprintf("s%d", i+1), tdQuery, map[string]interface{}{}, "")
		select {
		case up := <-e.ups[e.w.Services[0].URL].conns:
			select {
			case <-up.started:
			case <-time.After(stepTimeout):
				return dev("setup: no upstream start %d", i)
			}
			ups = append(ups, up)
		case <-time.After(stepTimeout):
			return dev("setup: no upstream connection %d", i)
		}
	}
	defer func() {
		for _, u := range ups {
			u.Drop()
		}
	}()
	items := []string{"Item_1", "Item_2"}
	if big {
		items = []string{"Item_big", "Item_big"}
	}
	for i, up := range ups {
		if err := up.SendData(e.payloadFor(up, "itemChanged", world.R(items[i]))); err != nil {
			return dev("upstream write: %v", err)
		}
	}
	// the writers arrive at the connection: every subscription's Listen with its event, and the heartbeat with its
	// keep-alive (period 4 s).  Each is parked inside its first Write call.
	first := func() int { p := s.Parked(); return p["conn.write.frame"] + p["conn.write.hdr"] }
	writers := nsub
	wait := stepTimeout
	if hb {
		writers, wait = 2, 7*time.Second
	}
	dl = time.Now().Add(wait)
	for first() < writers && time.Now().Before(dl) {
		time.Sleep(200 * time.Microsecond)
		if !hb && first() >= 1 && time.Until(dl) < wait-500*time.Millisecond {
			break // only one writer gets to the connection at a time
		}
	}
	p := s.Parked()
	switch {
	case first() == 0:
		return dev("no writer reached the connection")
	case first() < writers:
		// a writer does not get to the connection while another one is inside its frame: the writers are serialised
		res.Serialised = true
		dl := time.Now().Add(stepTimeout)
		for time.Now().Before(dl) && cl.countType("data") < nsub {
			passWrites()
			time.Sleep(time.Millisecond)
		}
	case p["conn.write.hdr"] == 0:
		// one Write call per frame: nothing can get in between
		for i := 0; i < p["conn.write.frame"]; i++ {
			s.Release("conn.write.frame")
		}
	default:
		// at least one writer hands its frame over in pieces: ITS header goes out first, then everything the other
		// writers have (whole frames, headers), then the payloads
		s.Release("conn.write.hdr")
		if !s.WaitParked("conn.write.payload", stepTimeout) {
			return dev("no payload write after a header; parked %v", parkedList(s))
		}
		for i := 0; i < p["conn.write.frame"]; i++ {
			s.Release("conn.write.frame")
		}
		others := p["conn.write.hdr"] - 1
		for i := 0; i < others; i++ {
			s.Release("conn.write.hdr")
		}
		dl := time.Now().Add(stepTimeout)
		for s.Parked()["conn.write.payload"] < 1+others && time.Now().Before(dl) {
			time.Sleep(100 * time.Microsecond)
		}
		time.Sleep(5 * time.Millisecond) // what was let go is on the wire
		for i := 0; i < 1+others; i++ {
			s.Release("conn.write.payload")
		}
		res.Forced = true
	}
	want := 2
	if hb {
		want = 1
	}
	cl.waitFor(func() bool {
		if cl.end != "" {
			return true
		}
		nbad := 0
		for _, f := range cl.frames {
			if f.Bad != "" {
				nbad++
			}
		}
		ka := cl.countTypeLocked("ka")
		return nbad > 0 || (cl.countTypeLocked("data") >= want && (!hb || ka >= 1))
	}, 1500*time.Millisecond)
	s.Open()
	time.Sleep(20 * time.Millisecond)
	frames, end := cl.snapshot()
	res.End = end
	for _, f := range frames {
		if f.Bad != "" {
			res.BadFrames = append(res.BadFrames, f.Bad+": "+tail(f.Raw, 120))
		}
		if f.Type == "data" {
			res.Data++
		}
	}
	if len(end) > 14 && end[:14] == "protocol-error" {
		res.BadFrames = append(res.BadFrames, end)
	}
	if len(res.BadFrames) == 0 && res.Data < want {
		res.BadFrames = append(res.BadFrames, fmt.Sprintf("%d of %d data frames arrived intact (connection: %q)", res.Data, want, end))
	}
	res.Trace = []map[string]interface{}{{"ev": "Conn", "kind": ""}}
	for _, ev := range s.Snapshot() {
		if len(ev.Key) > 11 && ev.Key[:11] == "conn.write." {
			res.Writes[ev.Key[11:]]++
			if ev.Key[11:] != "http" {
				res.Trace = append(res.Trace, map[string]interface{}{"ev": "Write", "kind": ev.Key[11:]})
			}
		}
	}
	return res
}

func cmdFrames(outPath string, heartbeat bool) {
	installHook()
	e, err := newEnv(tdWorld(), gw.Config{Name: "default"})
	if err != nil {
		fmt.Fprintln(os.Stderr, "HARNESS: "+err.Error())
		os.Exit(4)
	}
	out, err := os.Create(outPath)
	if err != nil {
		fmt.Fprintln(os.Stderr, "HARNESS: "+err.Error())
		os.Exit(4)
	}
	defer out.Close()
	modes := []string{"listeners", "bigevents"}
	if heartbeat {
		modes = append(modes, "heartbeat")
	}
	for i, m := range modes {
		r := runFrames(e, m, fmt.Sprintf("frames-%s-%d", m, i))
		b, _ := json.Marshal(r)
		out.Write(append(b, '\n'))
	}
}
