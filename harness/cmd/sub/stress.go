package main

// Perturbed stress for C18 (direction B): free-running histories of client and upstream actions
// over several connections and subscriptions, with seeded delays injected at the hook points.
// Nothing is forced; the verdict is what the real process does: it dies, the client reads a
// malformed frame or a frame the upstream never sent, and - after every client is gone -
// goroutines of the subscription machinery or upstream connections are left.

import (
	"bufio"
	"encoding/json"
	"fmt"
	"math/rand"
	"os"
	"sort"
	"strings"
	"time"

	"verifharness/gw"
	"verifharness/sched"
	"verifharness/world"
)

type stCase struct {
	ID   string `json:"id"`
	Seed int64  `json:"seed"`
}

type stResult struct {
	ID        string   `json:"id"`
	Seed      int64    `json:"seed"`
	Actions   []string `json:"actions"`
	Leak      []string `json:"leak,omitempty"`
	UpOpen    int      `json:"upOpenN,omitempty"`
	BadFrames []string `json:"badFrames,omitempty"`
	Frames    int      `json:"frames"`
	Emitted   int      `json:"emitted"`
	Subs      int      `json:"subs"`
	Conns     int      `json:"conns"`
	Deviation string   `json:"deviation,omitempty"`
	// direction B for SubscriptionImpl: per subscription, the program points its goroutines went through
	SubTraces []subTrace `json:"subTraces,omitempty"`
	Unlinked  int        `json:"unlinked,omitempty"`
}

// subTrace is one record of spec/SubscriptionImplTrace.tla.
type subTrace struct {
	Key     string   `json:"key"`
	CS      []string `json:"cs"`
	US      []string `json:"us"`
	Settled bool     `json:"settled"`
	L       []string `json:"L"`
	C       []string `json:"C"`
	R       []string `json:"R"`
	K       []string `json:"K"`
}

type stSub struct {
	conn    int
	id      string
	up      *upConn
	emitted []string // what the client must see, in order: item names / error messages
	upDone  bool
	stopped bool
	seOrd   int      // ordinal of the subscriptionEntry / upstream subscription instance (0: could not be linked)
	cs      []string // the client messages that concern this subscription, in SubscriptionImpl's vocabulary
	us      []string // what its upstream did
}

var stItems = []string{"Item_1", "Item_2", "Item_3"}
var stNames = map[string]string{"Item_1": "one", "Item_2": "two", "Item_3": "three"}

func runStress(e *env, c stCase) (res stResult) {
	res.ID, res.Seed = c.ID, c.Seed
	rng := rand.New(rand.NewSource(c.Seed))
	base := pebblesGoroutines()
	s := sched.New(false, nil)
	s.Perturb(c.Seed, 2+rng.Intn(6))
	rt.begin(s)
	defer rt.end()
	act := func(f string, a ...interface{}) { res.Actions = append(res.Actions, fmt.Sprintf(f, a...)) }
	nconn := 1 + rng.Intn(3)
	res.Conns = nconn
	var clients []*client
	alive := []bool{}
	for i := 0; i < nconn; i++ {
		cl, err := dial(e.gsrv.URL)
		if err != nil {
			res.Deviation = "dial: " + err.Error()
			return
		}
		cl.send(map[string]string{"type": "connection_init"})
		clients = append(clients, cl)
		alive = append(alive, true)
	}
	upsvc := e.ups[e.w.Services[0].URL]
	var subs []*stSub
	nextID := 0
	// the driver starts operations one at a time and waits for the upstream's `start`, so the k-th entry and the k-th
	// upstream subscription belong to the operation just started; anything else makes the run's traces unusable
	linkable := true
	link := func(sb *stSub, se0, q0 int) {
		se1, q1 := rt.counts()
		if se1 == se0+1 && q1 == q0+1 && se1 == q1 {
			sb.seOrd = se1
		} else {
			linkable = false
		}
	}
	holder := func(ci int, id string) *stSub {
		var h *stSub
		for _, x := range subs {
			if x.conn == ci && x.id == id {
				h = x
			}
		}
		return h
	}
	connEnds := func(ci int, how string) {
		for _, x := range subs {
			if x.conn == ci {
				x.cs = append(x.cs, how)
			}
		}
	}
	start := func(ci int) {
		nextID++
		sb := &stSub{conn: ci, id: fmt.Sprintf("s%d", nextID)}
		act("start c%d/%s", ci, sb.id)
		se0, q0 := rt.counts()
		clients[ci].start(sb.id, tdQuery, map[string]interface{}{}, "")
		select {
		case sb.up = <-upsvc.conns:
		case <-time.After(2 * time.Second):
			act("no upstream for c%d/%s", ci, sb.id)
			linkable = false
			return
		}
		select {
		case <-sb.up.started:
			link(sb, se0, q0)
		case <-time.After(2 * time.Second):
			linkable = false
		}
		subs = append(subs, sb)
	}
	for ci := range clients {
		for k := rng.Intn(3); k >= 0; k-- {
			start(ci)
		}
	}
	nact := 4 + rng.Intn(14)
	for k := 0; k < nact; k++ {
		if rng.Intn(3) == 0 {
			time.Sleep(time.Duration(rng.Intn(400)) * time.Microsecond)
		}
		switch r := rng.Intn(100); {
		case r < 45: // upstream event
			if len(subs) == 0 {
				continue
			}
			sb := subs[rng.Intn(len(subs))]
			if sb.upDone {
				continue
			}
			switch q := rng.Intn(10); {
			case q < 7:
				it := stItems[rng.Intn(len(stItems))]
				act("emit c%d/%s %s", sb.conn, sb.id, it)
				if sb.up.SendData(e.payloadFor(sb.up, "itemChanged", world.R(it))) == nil {
					sb.emitted = append(sb.emitted, stNames[it])
					sb.us = append(sb.us, "data")
				}
			case q == 7:
				msg := fmt.Sprintf("boom %d", k)
				act("error c%d/%s", sb.conn, sb.id)
				if sb.up.write(map[string]interface{}{"type": "error", "id": "1", "payload": []map[string]interface{}{{"message": msg}}}) == nil {
					sb.emitted = append(sb.emitted, "!"+msg)
					sb.us = append(sb.us, "error")
				}
			case q == 8:
				act("complete c%d/%s", sb.conn, sb.id)
				sb.up.SendComplete()
				sb.upDone = true
				sb.us = append(sb.us, "complete")
			default:
				act("drop c%d/%s", sb.conn, sb.id)
				sb.up.Drop()
				sb.upDone = true
				sb.us = append(sb.us, "drop")
			}
		case r < 60: // stop
			if len(subs) == 0 {
				continue
			}
			sb := subs[rng.Intn(len(subs))]
			if !alive[sb.conn] {
				continue
			}
			act("stop c%d/%s", sb.conn, sb.id)
			clients[sb.conn].send(map[string]string{"type": "stop", "id": sb.id})
			sb.stopped = true
			if h := holder(sb.conn, sb.id); h != nil {
				h.cs = append(h.cs, "stop")
			}
		case r < 72: // another subscription
			ci := rng.Intn(nconn)
			if alive[ci] {
				start(ci)
			}
		case r < 80: // a start under an id that is in use on that connection: the old operation is replaced
			if len(subs) == 0 {
				continue
			}
			old := subs[rng.Intn(len(subs))]
			if !alive[old.conn] {
				continue
			}
			sb := &stSub{conn: old.conn, id: old.id}
			act("restart c%d/%s", sb.conn, sb.id)
			se0, q0 := rt.counts()
			if h := holder(sb.conn, sb.id); h != nil {
				h.cs = append(h.cs, "restart")
			}
			clients[sb.conn].start(sb.id, tdQuery, map[string]interface{}{}, "")
			select {
			case sb.up = <-upsvc.conns:
				select {
				case <-sb.up.started:
					link(sb, se0, q0)
				case <-time.After(2 * time.Second):
					linkable = false
				}
				old.stopped = true
				subs = append(subs, sb)
			case <-time.After(2 * time.Second):
				act("no upstream for restart")
				linkable = false
			}
		case r < 76:
			ci := rng.Intn(nconn)
			if alive[ci] {
				act("unknown-stop c%d", ci)
				clients[ci].send(map[string]string{"type": "stop", "id": "nobody"})
			}
		default: // the connection ends one way or another
			ci := rng.Intn(nconn)
			if !alive[ci] || rng.Intn(3) != 0 {
				continue
			}
			alive[ci] = false
			switch q := rng.Intn(5); q {
			case 0:
				act("terminate c%d", ci)
				connEnds(ci, "terminate")
				clients[ci].send(map[string]string{"type": "connection_terminate"})
			case 1:
				act("garbage c%d", ci)
				connEnds(ci, "garbage")
				clients[ci].sendRaw([]byte("{not json"))
			case 2:
				act("reset c%d", ci)
				connEnds(ci, "reset")
				clients[ci].reset()
			case 3:
				act("incomplete c%d", ci)
				connEnds(ci, "reset")
				// a frame header announcing 100 masked bytes, 7 of them, then the connection goes away
				clients[ci].conn.Write([]byte{0x81, 0x80 | 100, 1, 2, 3, 4, 'x', 'x', 'x', 'x', 'x', 'x', 'x'})
				time.Sleep(time.Duration(rng.Intn(300)) * time.Microsecond)
				clients[ci].reset()
			case 4:
				act("unknown-type c%d", ci)
				connEnds(ci, "garbage")
				clients[ci].send(map[string]string{"type": "bogus"})
			}
		}
	}
	// everybody leaves
	for ci, cl := range clients {
		if alive[ci] {
			if rng.Intn(2) == 0 {
				act("final terminate c%d", ci)
				connEnds(ci, "terminate")
				cl.send(map[string]string{"type": "connection_terminate"})
			} else {
				act("final reset c%d", ci)
				connEnds(ci, "reset")
				cl.reset()
			}
		}
	}
	extra, _ := settle(base, nil, 1500*time.Millisecond)
	if len(extra) > 0 {
		// a leak never goes away, a teardown on a starved machine does: only what is still there much later counts
		extra, _ = settle(base, nil, 12*time.Second)
	}
	res.Leak = extra
	res.Subs = len(subs)
	if linkable {
		res.SubTraces = subTraces(c.ID, subs, s.Snapshot())
	} else {
		res.Unlinked = len(subs)
	}
	for _, sb := range subs {
		if !sb.up.IsClosed(300*time.Millisecond) && !sb.up.IsClosed(6*time.Second) {
			res.UpOpen++
		}
		res.Emitted += len(sb.emitted)
	}
	// frames: well-formed, under a known id, and per subscription a prefix of what its upstream sent
	for ci, cl := range clients {
		frames, end := cl.snapshot()
		if strings.HasPrefix(end, "protocol-error") {
			res.BadFrames = append(res.BadFrames, fmt.Sprintf("c%d: %s", ci, end))
		}
		got := map[string][]string{}
		for _, f := range frames {
			if f.Bad != "" {
				res.BadFrames = append(res.BadFrames, fmt.Sprintf("c%d: %s: %s", ci, f.Bad, tail(f.Raw, 100)))
				continue
			}
			if f.Type != "data" {
				continue
			}
			res.Frames++
			v := "?"
			if f.Payload != nil {
				if es := errorMsgs(f.Payload); len(es) > 0 {
					v = "!" + fmt.Sprint(es[0])
				} else if d, ok := f.Payload["data"].(map[string]interface{}); ok {
					if it, ok := d["itemChanged"].(map[string]interface{}); ok {
						v = fmt.Sprint(it["name"])
						want := map[string]interface{}{"one": 11.0, "two": 22.0, "three": 33.0}[v]
						if it["price"] != want || len(it) != 2 {
							res.BadFrames = append(res.BadFrames, fmt.Sprintf("c%d/%s: event not stitched: %s", ci, f.ID, tail(f.Raw, 160)))
						}
					}
				}
			}
			got[f.ID] = append(got[f.ID], v)
		}
		ids := []string{}
		for id := range got {
			ids = append(ids, id)
		}
		sort.Strings(ids)
		for _, id := range ids {
			// the operations that ran under this id on this connection, in start order (a start under an id in use
			// replaces the operation): the frames are a prefix of the first one's events, then of the next one's ...
			var chain []*stSub
			for _, x := range subs {
				if x.conn == ci && x.id == id {
					chain = append(chain, x)
				}
			}
			if len(chain) == 0 {
				res.BadFrames = append(res.BadFrames, fmt.Sprintf("c%d: data frames under id %s which was never started", ci, id))
				continue
			}
			g := got[id]
			var all [][]string
			for _, sb := range chain {
				all = append(all, sb.emitted)
			}
			// every operation's frames are a prefix of its events, in order; the frames of an operation that is being
			// replaced and of the one replacing it may interleave (the old one is stopped asynchronously)
			if !isShuffleOfPrefixes(g, all) {
				res.BadFrames = append(res.BadFrames, fmt.Sprintf("c%d/%s: frames %v are not made of prefixes of the events %v", ci, id, g, all))
			}
		}
	}
	for _, sb := range subs {
		sb.up.Drop()
	}
	for _, cl := range clients {
		cl.conn.Close()
	}
	settle(base, nil, 200*time.Millisecond)
	return res
}

func cmdStressChild(path string, from, to int) {
	installHook()
	e, err := newEnv(tdWorld(), gw.Config{Name: "default"})
	if err != nil {
		fmt.Fprintln(os.Stderr, "HARNESS: "+err.Error())
		os.Exit(4)
	}
	f, err := os.Open(path)
	if err != nil {
		fmt.Fprintln(os.Stderr, "HARNESS: "+err.Error())
		os.Exit(4)
	}
	sc := bufio.NewScanner(f)
	out := bufio.NewWriter(os.Stdout)
	for i := 0; sc.Scan(); i++ {
		if i < from || i >= to {
			continue
		}
		var c stCase
		if err := json.Unmarshal(sc.Bytes(), &c); err != nil {
			fmt.Fprintln(os.Stderr, "HARNESS: bad case: "+err.Error())
			os.Exit(4)
		}
		fmt.Fprintf(out, "BEGIN %d %s\n", i, c.ID)
		out.Flush()
		res := runStress(e, c)
		b, _ := json.Marshal(res)
		fmt.Fprintf(out, "RESULT %d %s\n", i, b)
		out.Flush()
		if len(res.Leak) > 0 || res.Deviation != "" {
			fmt.Fprintf(out, "RESTART %d\n", i+1)
			out.Flush()
			os.Exit(0)
		}
	}
	fmt.Fprintf(out, "DONE\n")
	out.Flush()
}

// isShuffleOfPrefixes: can got be split into subsequences, one per list, each a prefix of its list?
func isShuffleOfPrefixes(got []string, lists [][]string) bool {
	pos := make([]int, len(lists))
	var rec func(i int) bool
	seen := map[string]bool{}
	rec = func(i int) bool {
		if i == len(got) {
			return true
		}
		key := fmt.Sprint(i, pos)
		if seen[key] {
			return false
		}
		seen[key] = true
		for k, l := range lists {
			if pos[k] < len(l) && l[pos[k]] == got[i] {
				pos[k]++
				if rec(i + 1) {
					return true
				}
				pos[k]--
			}
		}
		return false
	}
	return rec(0)
}

// subTraces projects the hook events of one run onto the goroutines of each subscription (see
// spec/SubscriptionImplTrace.tla): per goroutine the sequence of program points, in SubscriptionImpl's names.  The
// points the model's initial state already stands at (Listen in its first select, the reader at its first read, the
// closer waiting) are dropped.
func subTraces(run string, subs []*stSub, log []sched.Event) []subTrace {
	pcOf := map[string][2]string{
		"se.listen.select": {"L", "select"}, "se.listen.write": {"L", "write"}, "se.listen.closech": {"L", "closech"},
		"se.listen.defer.qclose": {"L", "dq"}, "se.listen.done": {"L", "done"},
		"se.close.enter": {"C", "enter"}, "se.close.closed": {"C", "done"},
		"sub.reader.start": {"R", "start"}, "sub.reader.read": {"R", "read"}, "sub.reader.send": {"R", "send"},
		"sub.reader.exit": {"R", "exit"}, "sub.reader.exit.nil": {"R", "sendnil"}, "sub.reader.done": {"R", "done"},
		"sub.closer.wait": {"K", "wait"}, "sub.closer.close": {"K", "close"}, "sub.closer.done": {"K", "done"},
	}
	per := map[int]map[string][]string{}
	for _, ev := range log {
		base, ord := ev.Key, 1
		if i := strings.IndexByte(ev.Key, '#'); i >= 0 {
			base = ev.Key[:i]
			fmt.Sscanf(ev.Key[i+1:], "%d", &ord)
		}
		var proc, pc string
		if base == "se.listen.resp" {
			proc, pc = "L", "resp"
			if len(ev.Args) > 0 && ev.Args[0] == true {
				pc = "respnil"
			}
		} else if m, ok := pcOf[base]; ok {
			proc, pc = m[0], m[1]
		} else {
			continue
		}
		if per[ord] == nil {
			per[ord] = map[string][]string{}
		}
		if l := per[ord][proc]; proc == "R" && pc == "read" && len(l) > 0 && l[len(l)-1] == "read" {
			// a frame that is neither an event nor an end (connection_ack, keep-alive): the reader is back at its read,
			// a stuttering step of the model
			continue
		}
		per[ord][proc] = append(per[ord][proc], pc)
	}
	strip := func(l []string, lead ...string) []string {
		for _, x := range lead {
			if len(l) > 0 && l[0] == x {
				l = l[1:]
			}
		}
		if l == nil {
			l = []string{}
		}
		return l
	}
	nn := func(l []string) []string {
		if l == nil {
			return []string{}
		}
		return l
	}
	var out []subTrace
	for i, sb := range subs {
		if sb.seOrd == 0 {
			continue
		}
		p := per[sb.seOrd]
		out = append(out, subTrace{Key: fmt.Sprintf("%s/%d/c%d/%s", run, i, sb.conn, sb.id), CS: nn(sb.cs), US: nn(sb.us), Settled: true,
			L: strip(p["L"], "select"), C: nn(p["C"]), R: strip(p["R"], "start", "read"), K: strip(p["K"], "wait")})
	}
	return out
}
