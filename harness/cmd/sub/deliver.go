package main

// Direction B for C17: free-running subscriptions over generated worlds.  Several subscriptions
// on one or two client connections, each with its own history of upstream events; everything the
// upstreams emit and everything the clients receive is recorded and validated by TLC against
// spec/SubscriptionAbs.tla (SubscriptionTrace.tla): frame k under id s = Norm(Ref(world with the
// k-th event value of s, operation of s)).

import (
	"bufio"
	"encoding/json"
	"fmt"
	"math/rand"
	"os"
	"sort"
	"strings"
	"time"

	"verifharness/fakesvc"
	"verifharness/gw"
	"verifharness/world"
)

type emitter struct {
	w   *bufio.Writer
	enc *json.Encoder
}

func newEmitter(path string) (*emitter, func()) {
	f, err := os.Create(path)
	if err != nil {
		fmt.Fprintln(os.Stderr, "HARNESS: "+err.Error())
		os.Exit(4)
	}
	w := bufio.NewWriterSize(f, 1<<20)
	enc := json.NewEncoder(w)
	enc.SetEscapeHTML(false)
	return &emitter{w: w, enc: enc}, func() { w.Flush(); f.Close() }
}

func (e *emitter) emit(v interface{}) {
	if err := e.enc.Encode(v); err != nil {
		panic(err)
	}
}

func monolith(w *world.World) *world.World {
	m := *w
	decl := map[string][]string{}
	for t, td := range w.Types {
		decl[t] = append([]string{}, td.Order...)
	}
	m.Services = []*world.Service{{URL: "http://mono.test", Decl: decl}}
	return &m
}

func worldEvent(w *world.World) map[string]interface{} {
	w.Fill()
	svcs := []interface{}{}
	for _, s := range w.Services {
		svcs = append(svcs, map[string]interface{}{"url": s.URL, "decl": s.Decl})
	}
	return map[string]interface{}{"ev": "World", "id": w.ID, "types": w.Types, "ents": w.Ents, "roots": w.Roots, "services": svcs, "tags": w.Tags}
}

func gwConfig(cn string) gw.Config {
	c := gw.Config{Name: cn}
	switch cn {
	case "sanitize":
		c.SanitizeNode = true
	case "idhint":
		c.IDHint = true
	case "cached":
		c.Cached = true
	}
	return c
}

type dsub struct {
	key    string // "<conn>/<id>"
	conn   int
	id     string
	op     *world.Op
	field  string
	up     *upConn
	events []dEvent
	sent   int
}

type dEvent struct {
	kind string // data | errors | errmsg
	val  world.Val
	errs []string
}

func ownerOf(w *world.World, field string) *world.Service {
	for _, s := range w.Services {
		for _, f := range s.Decl["Subscription"] {
			if f == field {
				return s
			}
		}
	}
	return nil
}

func errorMsgs(p map[string]interface{}) []interface{} {
	out := []interface{}{}
	es, _ := p["errors"].([]interface{})
	for _, e := range es {
		if m, ok := e.(map[string]interface{}); ok {
			out = append(out, fmt.Sprintf("%v", m["message"]))
		} else {
			out = append(out, fmt.Sprintf("%v", e))
		}
	}
	return out
}

// deliverRun: one world, one gateway, some connections and subscriptions, their event histories.
func deliverRun(em *emitter, rng *rand.Rand, cfg world.GenCfg, cn string, run string, wid int) {
	w := world.Gen(rng, cfg, wid)
	if w.Types["Subscription"] == nil {
		return
	}
	e, err := newEnv(w, gwConfig(cn))
	if err != nil {
		em.emit(worldEvent(w))
		em.emit(map[string]interface{}{"ev": "StartFailed", "run": run, "cfg": cn, "err": err.Error()})
		return
	}
	defer e.close()
	mono, merr := fakesvc.NewNet(monolith(w))
	if merr != nil {
		em.emit(map[string]interface{}{"ev": "HarnessError", "what": merr.Error()})
		return
	}
	em.emit(worldEvent(w))
	em.emit(map[string]interface{}{"ev": "Run", "run": run, "cfg": cn})
	em.w.Flush()
	nconn := 1 + rng.Intn(2)
	var clients []*client
	for i := 0; i < nconn; i++ {
		cl, err := dial(e.gsrv.URL)
		if err != nil {
			em.emit(map[string]interface{}{"ev": "HarnessError", "what": "dial: " + err.Error()})
			return
		}
		defer cl.conn.Close()
		cl.send(map[string]string{"type": "connection_init"})
		if !cl.waitFor(func() bool { return cl.countTypeLocked("connection_ack") == 1 }, 2*time.Second) {
			em.emit(map[string]interface{}{"ev": "HarnessError", "what": "no connection_ack"})
			return
		}
		clients = append(clients, cl)
	}
	var subs []*dsub
	var ops []*world.Op
	nsub := 1 + rng.Intn(4)
	for i := 0; i < nsub; i++ {
		var op *world.Op
		if len(ops) > 0 && rng.Intn(10) < 3 {
			op = ops[rng.Intn(len(ops))] // the same operation subscribed twice
		} else {
			for try := 0; try < 20 && op == nil; try++ {
				c := world.GenOp(rng, w, cfg, "subscription")
				c.Fill()
				// the harness's own evaluator must accept the operation (generator rejects are not cases)
				_, lg := fakesvc.AnswerFor(mono.Service("http://mono.test"), w.DocText(c), c.VarsToGo(), c.Name)
				if lg.Validates {
					op = c
				}
			}
			if op == nil {
				continue
			}
			ops = append(ops, op)
		}
		conn := rng.Intn(nconn)
		s := &dsub{conn: conn, id: fmt.Sprintf("s%d", i+1), op: op, field: op.Sel[0].Name}
		if rng.Intn(6) == 0 && len(subs) > 0 {
			s.id = subs[rng.Intn(len(subs))].id // the same id on another connection (or again on this one: skipped below)
			dupe := false
			for _, o := range subs {
				if o.conn == conn && o.id == s.id {
					dupe = true
				}
			}
			if dupe {
				s.id = fmt.Sprintf("s%d", i+1)
			}
		}
		s.key = fmt.Sprintf("c%d/%s", conn, s.id)
		owner := ownerOf(w, s.field)
		if owner == nil {
			em.emit(map[string]interface{}{"ev": "HarnessError", "what": "no owner for " + s.field})
			return
		}
		em.emit(map[string]interface{}{"ev": "Start", "key": s.key, "conn": conn, "sid": s.id, "op": op, "text": w.DocText(op), "owner": owner.URL})
		em.w.Flush()
		clients[conn].start(s.id, w.DocText(op), op.VarsToGo(), op.Name)
		select {
		case s.up = <-e.ups[owner.URL].conns:
		case <-time.After(2 * time.Second):
			em.emit(map[string]interface{}{"ev": "NoUpstream", "key": s.key})
			continue
		}
		select {
		case <-s.up.started:
		case <-time.After(2 * time.Second):
			em.emit(map[string]interface{}{"ev": "NoUpstream", "key": s.key})
			continue
		}
		n := rng.Intn(5)
		for k := 0; k < n; k++ {
			ev := dEvent{kind: "data"}
			switch r := rng.Intn(20); {
			case r == 0:
				ev.kind, ev.errs = "errors", []string{fmt.Sprintf("upstream failed %s #%d", s.key, k)}
			case r == 1:
				ev.kind, ev.errs = "errmsg", []string{fmt.Sprintf("upstream error message %s #%d", s.key, k)}
			case r == 2:
				// an event that carries data NEXT TO errors (a field of the owning service failed): whatever the gateway
				// makes of the data, the service's errors must reach the client
				ev.kind, ev.errs = "partial", []string{fmt.Sprintf("upstream failed in part %s #%d", s.key, k)}
				ev.val = world.GenEventVal(rng, w, cfg, s.field)
			default:
				ev.val = world.GenEventVal(rng, w, cfg, s.field)
			}
			s.events = append(s.events, ev)
		}
		subs = append(subs, s)
	}
	// emit the events: subscriptions interleaved at random, each in its own order
	total := 0
	for {
		var cand []*dsub
		for _, s := range subs {
			if s.sent < len(s.events) {
				cand = append(cand, s)
			}
		}
		if len(cand) == 0 {
			break
		}
		s := cand[rng.Intn(len(cand))]
		ev := s.events[s.sent]
		s.sent++
		total++
		line := map[string]interface{}{"ev": "Emit", "key": s.key, "k": s.sent, "kind": ev.kind, "field": s.field, "val": world.Z(), "errs": []string{}, "mono": world.Z(), "sent": world.Z()}
		switch ev.kind {
		case "data":
			p := e.payloadFor(s.up, s.field, ev.val)
			line["val"] = ev.val
			line["sent"] = world.TagJSON(p["data"])
			// R7: the harness's evaluator on the merged world with this event value
			e.mu.Lock()
			old := w.Roots["Subscription"][s.field]
			w.Roots["Subscription"][s.field] = ev.val
			mres, _ := fakesvc.AnswerFor(mono.Service("http://mono.test"), w.DocText(s.op), s.op.VarsToGo(), s.op.Name)
			w.Roots["Subscription"][s.field] = old
			e.mu.Unlock()
			line["mono"] = world.TagJSON(mres["data"])
			em.emit(line)
			em.w.Flush()
			s.up.SendData(p)
		case "errors":
			line["errs"] = ev.errs
			em.emit(line)
			em.w.Flush()
			s.up.SendData(map[string]interface{}{"data": nil, "errors": []map[string]interface{}{{"message": ev.errs[0]}}})
		case "partial":
			p := e.payloadFor(s.up, s.field, ev.val)
			line["errs"] = ev.errs
			em.emit(line)
			em.w.Flush()
			s.up.SendData(map[string]interface{}{"data": p["data"], "errors": []map[string]interface{}{{"message": ev.errs[0]}}})
		case "errmsg":
			line["errs"] = ev.errs
			em.emit(line)
			em.w.Flush()
			s.up.write(map[string]interface{}{"type": "error", "id": "1", "payload": []map[string]interface{}{{"message": ev.errs[0]}}})
		}
		if rng.Intn(3) == 0 {
			time.Sleep(time.Duration(rng.Intn(300)) * time.Microsecond)
		}
	}
	// wait until the clients have everything (or nothing more comes)
	deadline := time.Now().Add(3 * time.Second)
	for time.Now().Before(deadline) {
		got := 0
		for _, cl := range clients {
			got += cl.countType("data")
		}
		if got >= total {
			break
		}
		time.Sleep(500 * time.Microsecond)
	}
	time.Sleep(2 * time.Millisecond) // anything extra
	for ci, cl := range clients {
		frames, end := cl.snapshot()
		for _, f := range frames {
			if f.Type == "connection_ack" || f.Type == "ka" {
				continue
			}
			line := map[string]interface{}{"ev": "Frame", "conn": ci, "key": fmt.Sprintf("c%d/%s", ci, f.ID), "sid": f.ID, "type": f.Type, "bad": f.Bad,
				"data": world.Z(), "hasData": false, "errors": []interface{}{}}
			if f.Payload != nil {
				if d, ok := f.Payload["data"]; ok {
					line["data"] = world.TagJSON(d)
					line["hasData"] = d != nil
				}
				line["errors"] = errorMsgs(f.Payload)
			}
			em.emit(line)
		}
		if end != "" {
			em.emit(map[string]interface{}{"ev": "ConnEnd", "conn": ci, "how": end})
		}
	}
	keys := []string{}
	for _, s := range subs {
		keys = append(keys, s.key)
	}
	sort.Strings(keys)
	em.emit(map[string]interface{}{"ev": "End", "run": run, "keys": keys, "total": total})
	em.w.Flush()
	// teardown: stop some, terminate the rest
	for _, s := range subs {
		if rng.Intn(2) == 0 {
			clients[s.conn].send(map[string]string{"type": "stop", "id": s.id})
		}
	}
	for _, cl := range clients {
		if rng.Intn(2) == 0 {
			cl.send(map[string]string{"type": "connection_terminate"})
		} else {
			cl.reset()
		}
	}
	for _, s := range subs {
		if s.up != nil {
			s.up.IsClosed(500 * time.Millisecond)
			s.up.Drop()
		}
	}
}

func cmdDeliver(seed int64, runs int, outPath string, feat string, cfgs string) {
	em, closef := newEmitter(outPath)
	defer closef()
	rng := rand.New(rand.NewSource(seed))
	cfg := world.DefaultCfg()
	cfg.Subscriptions = true
	cfg.MaxServices = 3
	for _, f := range strings.Split(feat, ",") {
		switch f {
		case "":
		case "abstract":
			cfg.Abstract = true
		case "oddids":
			cfg.OddIDs = true
		case "richargs":
			cfg.RichArgs = true
		default:
			if strings.HasPrefix(f, "no") {
				if cfg.Off == nil {
					cfg.Off = map[string]bool{}
				}
				cfg.Off[f[2:]] = true
			}
		}
	}
	cns := strings.Split(cfgs, ",")
	base := pebblesGoroutines()
	for i := 0; i < runs; i++ {
		cn := cns[i%len(cns)]
		deliverRun(em, rng, cfg, cn, fmt.Sprintf("r%d.%d", seed, i), int(seed)*100000+i)
	}
	// whatever the runs left behind
	extra, _ := settle(base, nil, 2*time.Second)
	if len(extra) > 0 {
		extra, _ = settle(base, nil, 10*time.Second)
	}
	em.emit(map[string]interface{}{"ev": "Leftover", "goroutines": extra})
}
