// sub binds spec/SubscriptionImpl.tla (C18) and spec/SubscriptionTrace.tla (C17) to the real
// subscription machinery: pebbles.Gateway.Handler (websocket side), subscriptionEntry,
// MultiOpQueryer.Subscribe, over real TCP connections to fake upstream services.
//
//	sub teardown -cases f -out results.ndjson -workers N    direction A: TLC behaviours forced by gates
//	sub teardown-child -cases f -from i -to j               (one process; dies with the gateway)
//	sub deliver -seed S -runs R -out trace.ndjson           direction B: event histories, frames recorded
//	sub stress -seed S -runs R -out results.ndjson          free-running perturbed teardown histories
package main

import (
	"bufio"
	"bytes"
	"encoding/json"
	"flag"
	"fmt"
	"os"
	"os/exec"
	"regexp"
	"strconv"
	"strings"
	"sync"
	"sync/atomic"
)

type crashRec struct {
	ID     string `json:"id"`
	Index  int    `json:"index"`
	Crash  string `json:"crash"` // first line of the runtime's message
	Where  string `json:"where"` // first frame of the dying goroutine inside the repository
	InRepo bool   `json:"inRepo"`
	Stderr string `json:"stderr"`
}

var frameRe = regexp.MustCompile(`(?m)^(github\.com/buildbuildio/pebbles[^\s(]*(?:\([^)]*\))?[^\s(]*)\(`)

func classifyCrash(stderr string) (msg, where string, inRepo bool) {
	lines := strings.Split(stderr, "\n")
	for _, l := range lines {
		if strings.HasPrefix(l, "panic: ") || strings.HasPrefix(l, "fatal error: ") {
			msg = l
			break
		}
	}
	// the first goroutine listed is the one that died
	i := strings.Index(stderr, "\ngoroutine ")
	if i < 0 {
		return msg, "", false
	}
	first := stderr[i+1:]
	if j := strings.Index(first, "\n\n"); j >= 0 {
		first = first[:j]
	}
	for _, l := range strings.Split(first, "\n") {
		if strings.HasPrefix(l, "verifharness/") || strings.HasPrefix(l, "main.") {
			return msg, strings.SplitN(l, "(", 2)[0], false
		}
		if strings.HasPrefix(l, "github.com/buildbuildio/pebbles") {
			w := l
			if k := strings.LastIndex(w, "("); k > 0 {
				w = w[:k]
			}
			return msg, strings.TrimPrefix(w, "github.com/buildbuildio/pebbles"), true
		}
	}
	return msg, "", false
}

func countLines(path string) (int, []string) {
	f, err := os.Open(path)
	if err != nil {
		fmt.Fprintln(os.Stderr, "HARNESS: "+err.Error())
		os.Exit(4)
	}
	defer f.Close()
	sc := bufio.NewScanner(f)
	sc.Buffer(make([]byte, 1<<20), 64<<20)
	var ids []string
	for sc.Scan() {
		var x struct {
			ID string `json:"id"`
		}
		json.Unmarshal(sc.Bytes(), &x)
		ids = append(ids, x.ID)
	}
	return len(ids), ids
}

// runChildren runs `mode` children over [0,n) in `workers` contiguous ranges, restarting after a
// crash or a leak; every case yields one line in out: a RESULT object or a crash record.
func runChildren(mode string, path string, outPath string, workers int, extra []string, maxBad int) {
	var bad int32
	n, ids := countLines(path)
	self, _ := os.Executable()
	out, err := os.Create(outPath)
	if err != nil {
		fmt.Fprintln(os.Stderr, "HARNESS: "+err.Error())
		os.Exit(4)
	}
	defer out.Close()
	var mu sync.Mutex
	emit := func(b []byte) {
		mu.Lock()
		out.Write(b)
		out.Write([]byte("\n"))
		mu.Unlock()
	}
	var wg sync.WaitGroup
	per := (n + workers - 1) / workers
	for w := 0; w < workers; w++ {
		lo, hi := w*per, (w+1)*per
		if hi > n {
			hi = n
		}
		if lo >= hi {
			continue
		}
		wg.Add(1)
		go func(lo, hi int) {
			defer wg.Done()
			for lo < hi {
				if maxBad > 0 && atomic.LoadInt32(&bad) >= int32(maxBad) {
					b, _ := json.Marshal(map[string]interface{}{"skippedRest": hi - lo})
					emit(b)
					return
				}
				args := append([]string{mode, "-cases", path, "-from", strconv.Itoa(lo), "-to", strconv.Itoa(hi)}, extra...)
				cmd := exec.Command(self, args...)
				var stdout, stderr bytes.Buffer
				cmd.Stdout, cmd.Stderr = &stdout, &stderr
				runErr := cmd.Run()
				inflight, next, done := -1, lo, false
				for _, l := range strings.Split(stdout.String(), "\n") {
					switch {
					case strings.HasPrefix(l, "BEGIN "):
						inflight, _ = strconv.Atoi(strings.Fields(l)[1])
					case strings.HasPrefix(l, "RESULT "):
						p := strings.SplitN(l, " ", 3)
						k, _ := strconv.Atoi(p[1])
						emit([]byte(p[2]))
						if strings.Contains(p[2], `"deviation"`) || strings.Contains(p[2], `"leak"`) || strings.Contains(p[2], `"badFrames"`) {
							atomic.AddInt32(&bad, 1)
						}
						next = k + 1
						inflight = -1
					case strings.HasPrefix(l, "RESTART "):
						next, _ = strconv.Atoi(strings.Fields(l)[1])
						done = true
					case l == "DONE":
						next = hi
						done = true
					}
				}
				if !done {
					if inflight < 0 {
						// died outside a case: harness problem
						b, _ := json.Marshal(map[string]interface{}{"harnessError": fmt.Sprintf("child died outside a case (%v): %s", runErr, tail(stderr.String(), 4000))})
						emit(b)
						return
					}
					msg, where, inRepo := classifyCrash(stderr.String())
					b, _ := json.Marshal(crashRec{ID: ids[inflight], Index: inflight, Crash: msg, Where: where, InRepo: inRepo, Stderr: tail(stderr.String(), 6000)})
					emit(b)
					atomic.AddInt32(&bad, 1)
					next = inflight + 1
				}
				lo = next
			}
		}(lo, hi)
	}
	wg.Wait()
}

func tail(s string, n int) string {
	if len(s) > n {
		return s[:n]
	}
	return s
}

func main() {
	if len(os.Args) < 2 {
		fmt.Fprintln(os.Stderr, "usage: sub teardown|teardown-child|deliver|stress ...")
		os.Exit(4)
	}
	fs := flag.NewFlagSet(os.Args[1], flag.ExitOnError)
	cases := fs.String("cases", "", "")
	outp := fs.String("out", "", "")
	workers := fs.Int("workers", 8, "")
	from := fs.Int("from", 0, "")
	to := fs.Int("to", 1<<30, "")
	seed := fs.Int64("seed", 1, "")
	runs := fs.Int("runs", 10, "")
	feat := fs.String("features", "", "")
	cfgs := fs.String("cfgs", "default", "")
	hb := fs.Bool("heartbeat", false, "")
	maxBad := fs.Int("maxbad", 60, "stop after this many cases that crashed, leaked or left the model's path")
	fs.Parse(os.Args[2:])
	switch os.Args[1] {
	case "teardown":
		runChildren("teardown-child", *cases, *outp, *workers, nil, *maxBad)
	case "stress":
		// cases: one seed each
		f, err := os.Create(*outp + ".cases")
		if err != nil {
			fmt.Fprintln(os.Stderr, "HARNESS: "+err.Error())
			os.Exit(4)
		}
		for i := 0; i < *runs; i++ {
			fmt.Fprintf(f, "{\"id\":\"st%d.%d\",\"seed\":%d}\n", *seed, i, *seed*1000003+int64(i))
		}
		f.Close()
		runChildren("stress-child", *outp+".cases", *outp, *workers, nil, *maxBad)
	case "stress-child":
		cmdStressChild(*cases, *from, *to)
	case "deliver":
		cmdDeliver(*seed, *runs, *outp, *feat, *cfgs)
	case "frames":
		cmdFrames(*outp, *hb)
	case "teardown-child":
		cmdTeardownChild(*cases, *from, *to)
	default:
		fmt.Fprintln(os.Stderr, "unknown mode")
		os.Exit(4)
	}
}
