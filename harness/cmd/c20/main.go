// c20 binds MapReduceImpl/MapReduceAbs (TLA+) to common.AsyncMapReduce.
//
//	c20 replay -in paths.ndjson -out results.ndjson   direction A: force TLC behaviours on the real code
//	c20 stress -runs R -maxn M -seed S -out t.ndjson  direction B: perturbed free runs, traces for TLC
package main

import (
	"bufio"
	"encoding/json"
	"flag"
	"fmt"
	"math/rand"
	"os"
	"reflect"
	"runtime"
	"sort"
	"strconv"
	"strings"
	"sync"
	"time"

	"github.com/buildbuildio/pebbles/common"
	"github.com/buildbuildio/pebbles/gqlerrors"
	"verifharness/sched"
)

type pathIn struct {
	ID      int             `json:"id"`
	N       int             `json:"n"`
	Outcome []string        `json:"outcome"`
	Steps   [][]interface{} `json:"steps"`
	// FreeMainAt > 0: before step FreeMainAt the caller's gates are all opened, so the caller runs
	// as far as the helper's own synchronisation lets it (a variation the model does not need:
	// in the model the caller is blocked by wg / doneChan, not by a gate)
	FreeMainAt int `json:"free_main_at,omitempty"`
}

type absEv struct {
	Ev   string `json:"ev"`
	I    int    `json:"i"`
	O    string `json:"o,omitempty"`
	Acc  []int  `json:"acc,omitempty"`
	Errs []int  `json:"errs,omitempty"`
	Left int    `json:"left,omitempty"`
	N    int    `json:"n,omitempty"`
}

type result struct {
	ID     int      `json:"id"`
	Status string   `json:"status"` // ok | mismatch | drift | hang
	Detail string   `json:"detail,omitempty"`
	Step   int      `json:"step,omitempty"`
	Trace  []absEv  `json:"trace,omitempty"`
	Pred   []absEv  `json:"pred,omitempty"`
	Hooks  []string `json:"hooks,omitempty"`
}

var gatedPoints = map[string]bool{
	"w.start": true, "w.send.res": true, "w.send.err": true,
	"r.select": true, "r.recv.res": true, "r.reduced": true, "r.recv.err": true, "r.erred": true,
	"m.wait": true, "m.waited": true, "m.signalled": true,
	"u.map": true, "u.reduce": true,
}

func isGated(key string) bool {
	if i := strings.IndexByte(key, '/'); i >= 0 {
		key = key[:i]
	}
	return gatedPoints[key]
}

func install(s *sched.Sched) {
	common.VerifHook.Store(func(id uint64, point string, kv ...interface{}) {
		s.Arrive(sched.Key(point, kv...))
	})
}

// one run of the real helper with harness-supplied functions; returns the channel closed at return
type run struct {
	s    *sched.Sched
	n    int
	acc  []int
	errs []int
	done chan struct{}
}

func startRun(s *sched.Sched, n int, outcome []string, userDelay func()) *run {
	r := &run{s: s, n: n, done: make(chan struct{})}
	items := make([]int, n)
	for i := range items {
		items[i] = i
	}
	go func() {
		acc, errs := common.AsyncMapReduce(items, []int{},
			func(i int) (int, error) {
				s.Arrive("u.map/" + strconv.Itoa(i)) // MapStart(i)
				if userDelay != nil {
					userDelay()
				}
				s.Note("u.mapend/"+strconv.Itoa(i), outcome[i]) // MapEnd(i, o)
				if outcome[i] == "err" {
					// the item's identity travels in Path; messages are identical in every other run,
					// because two failures with the same message are still two errors
					msg := "boom"
					if n%2 == 1 {
						msg = fmt.Sprintf("e%d", i)
					}
					return 0, &gqlerrors.Error{Message: msg, Path: []interface{}{i}, Extensions: map[string]interface{}{"item": i}}
				}
				return i, nil
			},
			func(acc []int, v int) []int {
				s.Arrive("u.reduce", v) // ReduceStart(v)
				if userDelay != nil {
					userDelay()
				}
				acc = append(acc, v)
				s.Note("u.reduceend", v) // ReduceEnd(v)
				return acc
			})
		r.acc = acc
		for _, e := range errs {
			k := -1
			if len(e.Path) == 1 {
				if x, ok := e.Path[0].(int); ok {
					k = x
				}
			}
			r.errs = append(r.errs, k)
		}
		sort.Ints(r.errs)
		close(r.done)
	}()
	return r
}

func absTrace(log []sched.Event, r *run, left int, returned bool) []absEv {
	var out []absEv
	for _, e := range log {
		k := e.Key
		switch {
		case strings.HasPrefix(k, "u.map/"):
			i, _ := strconv.Atoi(k[len("u.map/"):])
			out = append(out, absEv{Ev: "MapStart", I: i})
		case strings.HasPrefix(k, "u.mapend/"):
			i, _ := strconv.Atoi(k[len("u.mapend/"):])
			out = append(out, absEv{Ev: "MapEnd", I: i, O: e.Args[0].(string)})
		case k == "u.reduce":
			out = append(out, absEv{Ev: "ReduceStart", I: e.Args[0].(int)})
		case k == "u.reduceend":
			out = append(out, absEv{Ev: "ReduceEnd", I: e.Args[0].(int)})
		case k == "return":
			acc := r.acc
			if acc == nil {
				acc = []int{}
			}
			errs := r.errs
			if errs == nil {
				errs = []int{}
			}
			out = append(out, absEv{Ev: "Return", Acc: acc, Errs: errs, Left: left})
		}
	}
	return out
}

const stepTimeout = 2 * time.Second

func toInt(v interface{}) int { return int(v.(float64)) }

func toInts(v interface{}) []int {
	out := []int{}
	switch x := v.(type) {
	case []interface{}:
		for _, e := range x {
			out = append(out, toInt(e))
		}
	case map[string]interface{}:
		if s, ok := x["__set__"]; ok {
			for _, e := range s.([]interface{}) {
				out = append(out, toInt(e))
			}
			sort.Ints(out)
		}
	}
	return out
}

func replayOne(p pathIn) result {
	res := result{ID: p.ID}
	s := sched.New(true, isGated)
	install(s)
	runtime.Gosched()
	baseline := runtime.NumGoroutine()
	r := startRun(s, p.N, p.Outcome, nil)
	var pred []absEv
	fail := func(step int, detail string) result {
		// the code does not follow the model's schedule: open every gate and judge the run by its
		// observable events only
		s.Open()
		returned := true
		select {
		case <-r.done:
		case <-time.After(10 * time.Second):
			returned = false
		}
		left := 0
		if returned {
			left = sched.GoroutinesLeft(baseline, 500*time.Millisecond)
			s.Note("return")
		}
		res.Trace = absTrace(s.Snapshot(), r, left, returned)
		res.Pred = pred
		res.Step = step
		res.Detail = detail
		for _, e := range s.Snapshot() {
			res.Hooks = append(res.Hooks, e.Key)
		}
		if returned {
			res.Status = "drift"
		} else {
			res.Status = "hang"
			res.Detail += "\n" + sched.Stacks()
		}
		return res
	}
	need := func(step int, ok bool, what string) bool {
		if !ok {
			return false
		}
		return true
	}
	_ = need
	// initial arrivals
	if !s.WaitParked("m.wait", stepTimeout) || !s.WaitParked("r.select", stepTimeout) {
		return fail(0, "initial: caller or reducer did not reach its first hook point")
	}
	for i := 0; i < p.N; i++ {
		if !s.WaitParked("w.start/"+strconv.Itoa(i), stepTimeout) {
			return fail(0, "initial: worker did not reach w.start")
		}
	}
	mainFree := false
	for k, st := range p.Steps {
		name := st[0].(string)
		if p.FreeMainAt > 0 && k+1 == p.FreeMainAt && !mainFree {
			mainFree = true
			s.Release("m.wait", "m.waited", "m.signalled")
		}
		if mainFree {
			switch name {
			case "MWait":
				continue
			case "MSignal":
				s.Release("r.select")
				if !s.WaitCount("r.exit", 1, stepTimeout) {
					return fail(k+1, "MSignal(free caller): reducer did not exit")
				}
				continue
			case "MReturn":
				select {
				case <-r.done:
				case <-time.After(stepTimeout):
					return fail(k+1, "MReturn(free caller): helper did not return")
				}
				left := sched.GoroutinesLeft(baseline, 500*time.Millisecond)
				s.Note("return")
				pred = append(pred, absEv{Ev: "Return", Acc: toInts(st[1]), Errs: toInts(st[2]), Left: toInt(st[3])})
				res.Trace = absTrace(s.Snapshot(), r, left, true)
				continue
			}
		}
		switch name {
		case "WStart":
			i := strconv.Itoa(toInt(st[1]))
			s.Release("w.start/" + i)
			pred = append(pred, absEv{Ev: "MapStart", I: toInt(st[1])})
			if !s.WaitParked("u.map/"+i, stepTimeout) {
				return fail(k+1, "WStart: map function not entered for item "+i)
			}
		case "WMapped":
			i := strconv.Itoa(toInt(st[1]))
			o := st[2].(string)
			s.Release("u.map/" + i)
			pred = append(pred, absEv{Ev: "MapEnd", I: toInt(st[1]), O: o})
			key := "w.send.res/" + i
			if o == "err" {
				key = "w.send.err/" + i
			}
			if !s.WaitParked(key, stepTimeout) {
				return fail(k+1, "WMapped: worker did not reach "+key)
			}
		case "RRecvRes":
			i := strconv.Itoa(toInt(st[1]))
			s.Release("w.send.res/"+i, "r.select")
			if !s.WaitParked("r.recv.res", stepTimeout) || !s.WaitCount("w.sent.res/"+i, 1, stepTimeout) {
				return fail(k+1, "RRecvRes: rendezvous on resChan did not complete for item "+i)
			}
		case "RReduceStart":
			s.Release("r.recv.res")
			pred = append(pred, absEv{Ev: "ReduceStart", I: toInt(st[1])})
			if !s.WaitParked("u.reduce", stepTimeout) {
				return fail(k+1, "RReduceStart: reduce function not entered")
			}
		case "RReduceEnd":
			s.Release("u.reduce")
			pred = append(pred, absEv{Ev: "ReduceEnd", I: toInt(st[1])})
			if !s.WaitParked("r.reduced", stepTimeout) {
				return fail(k+1, "RReduceEnd: reducer did not reach r.reduced")
			}
		case "RRecvErr":
			i := strconv.Itoa(toInt(st[1]))
			s.Release("w.send.err/"+i, "r.select")
			if !s.WaitParked("r.recv.err", stepTimeout) || !s.WaitCount("w.sent.err/"+i, 1, stepTimeout) {
				return fail(k+1, "RRecvErr: rendezvous on errChan did not complete for item "+i)
			}
		case "RErrAppend":
			s.Release("r.recv.err")
			if !s.WaitParked("r.erred", stepTimeout) {
				return fail(k+1, "RErrAppend: reducer did not reach r.erred")
			}
		case "RWgDone":
			pk := s.Parked()
			if pk["r.reduced"] > 0 {
				s.Release("r.reduced")
			} else if pk["r.erred"] > 0 {
				s.Release("r.erred")
			} else {
				return fail(k+1, "RWgDone: reducer is at neither r.reduced nor r.erred")
			}
			if !s.WaitParked("r.select", stepTimeout) {
				return fail(k+1, "RWgDone: reducer did not come back to select")
			}
		case "MWait":
			s.Release("m.wait")
			if !s.WaitParked("m.waited", stepTimeout) {
				return fail(k+1, "MWait: wg.Wait did not return although the model says wg = 0")
			}
		case "MSignal":
			s.Release("m.waited", "r.select")
			if !s.WaitParked("m.signalled", stepTimeout) || !s.WaitCount("r.exit", 1, stepTimeout) {
				return fail(k+1, "MSignal: rendezvous on doneChan did not complete")
			}
		case "MReturn":
			s.Release("m.signalled")
			select {
			case <-r.done:
			case <-time.After(stepTimeout):
				return fail(k+1, "MReturn: helper did not return")
			}
			left := sched.GoroutinesLeft(baseline, 500*time.Millisecond)
			s.Note("return")
			pred = append(pred, absEv{Ev: "Return", Acc: toInts(st[1]), Errs: toInts(st[2]), Left: toInt(st[3])})
			res.Trace = absTrace(s.Snapshot(), r, left, true)
		default:
			return fail(k+1, "model action "+name+" is a crash/leak action that the real code should never need")
		}
	}
	// a model step that must NOT be possible early: wg.Wait must not return before the model's MWait.
	res.Pred = pred
	if reflect.DeepEqual(res.Trace, pred) {
		res.Status = "ok"
		res.Pred = nil
	} else {
		res.Status = "mismatch"
		res.Detail = "observable events differ from the model's prediction"
	}
	return res
}

func cmdReplay(args []string) {
	fs := flag.NewFlagSet("replay", flag.ExitOnError)
	in := fs.String("in", "", "")
	out := fs.String("out", "", "")
	keep := fs.Int("keep", 50, "keep the event trace of every keep-th ok run (for TLC validation)")
	maxbad := fs.Int("maxbad", 8, "stop after this many runs that deviate from the model (each costs seconds of timeouts)")
	fs.Parse(args)
	f, err := os.Open(*in)
	if err != nil {
		panic(err)
	}
	defer f.Close()
	of, err := os.Create(*out)
	if err != nil {
		panic(err)
	}
	defer of.Close()
	sc := bufio.NewScanner(f)
	sc.Buffer(make([]byte, 1<<20), 1<<26)
	enc := json.NewEncoder(of)
	bad := 0
	for sc.Scan() {
		if bad >= *maxbad {
			fmt.Fprintf(of, "{\"skipped_rest\":true}\n")
			break
		}
		var p pathIn
		if err := json.Unmarshal(sc.Bytes(), &p); err != nil {
			panic(err)
		}
		fmt.Fprintf(of, "{\"begin\":%d}\n", p.ID)
		of.Sync()
		r := replayOne(p)
		if r.Status == "ok" && (*keep == 0 || p.ID%*keep != 0) {
			r.Trace = nil
		}
		enc.Encode(r)
		if r.Status != "ok" {
			bad++
		}
		if r.Status == "hang" {
			of.Sync()
			os.Exit(3)
		}
	}
}

// ---------------------------------------------------------------------------- stress (direction B)

type stressOut struct {
	Run   int      `json:"run"`
	N     int      `json:"n"`
	Trace []absEv  `json:"trace"`
	Hooks []string `json:"hooks,omitempty"`
	Hang  string   `json:"hang,omitempty"`
}

func cmdStress(args []string) {
	fs := flag.NewFlagSet("stress", flag.ExitOnError)
	runs := fs.Int("runs", 100, "")
	maxn := fs.Int("maxn", 16, "")
	seed := fs.Int64("seed", 1, "")
	out := fs.String("out", "", "")
	hooks := fs.Bool("hooks", false, "also record the hook-level trace")
	fs.Parse(args)
	of, err := os.Create(*out)
	if err != nil {
		panic(err)
	}
	defer of.Close()
	enc := json.NewEncoder(of)
	rng := rand.New(rand.NewSource(*seed))
	for k := 0; k < *runs; k++ {
		n := rng.Intn(*maxn + 1)
		if k%7 == 0 {
			n = rng.Intn(4)
		} else if k%23 == 0 {
			n = 60 + rng.Intn(300) // large fan-outs (beyond any fixed pool size)
		}
		outcome := make([]string, n)
		pErr := rng.Intn(4) // 0: never, else 1 in pErr+1
		for i := range outcome {
			outcome[i] = "ok"
			if pErr > 0 && rng.Intn(pErr+1) == 0 {
				outcome[i] = "err"
			}
		}
		s := sched.New(false, nil)
		s.Perturb(rng.Int63(), 1+rng.Intn(3))
		install(s)
		dr := rand.New(rand.NewSource(rng.Int63()))
		var drMu sync.Mutex
		mode := rng.Intn(3)
		runtime.Gosched()
		baseline := runtime.NumGoroutine()
		fmt.Fprintf(of, "{\"begin\":%d}\n", k)
		r := startRun(s, n, outcome, func() {
			// user functions of varying duration: this is what opens the windows in which a
			// helper that returns early / reduces concurrently becomes observable
			switch mode {
			case 0:
			case 1:
				runtime.Gosched()
			case 2:
				s.Note("delay")
				drMu.Lock()
				d := time.Duration(dr.Intn(300)) * time.Microsecond
				drMu.Unlock()
				time.Sleep(d)
			}
		})
		so := stressOut{Run: k, N: n}
		select {
		case <-r.done:
			left := sched.GoroutinesLeft(baseline, 500*time.Millisecond)
			s.Note("return")
			// late events: anything the helper still does after returning must show up in the trace
			time.Sleep(time.Duration(rng.Intn(3)) * 100 * time.Microsecond)
			so.Trace = absTrace(s.Snapshot(), r, left, true)
		case <-time.After(30 * time.Second):
			so.Trace = absTrace(s.Snapshot(), r, 0, false)
			so.Hang = sched.Stacks()
		}
		if *hooks || so.Hang != "" {
			for _, e := range s.Snapshot() {
				so.Hooks = append(so.Hooks, e.Key)
			}
		}
		enc.Encode(so)
		if so.Hang != "" {
			of.Sync()
			os.Exit(3)
		}
	}
}

func main() {
	if len(os.Args) < 2 {
		fmt.Fprintln(os.Stderr, "usage: c20 replay|stress ...")
		os.Exit(2)
	}
	switch os.Args[1] {
	case "replay":
		cmdReplay(os.Args[2:])
	case "stress":
		cmdStress(os.Args[2:])
	default:
		os.Exit(2)
	}
}
