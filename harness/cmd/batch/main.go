// batch sends batches of operations to the real gateway under forced and perturbed schedules of
// the per-operation goroutines, sends every operation alone as well, and records both for
// BatchTrace (C08).
package main

import (
	"bufio"
	"encoding/json"
	"flag"
	"fmt"
	"math/rand"
	"os"
	"sort"
	"strings"
	"sync/atomic"
	"time"

	"github.com/buildbuildio/pebbles/common"

	"verifharness/gw"
	"verifharness/sched"
	"verifharness/world"
)

type poolOp struct {
	Class string                 `json:"class"`
	Name  string                 `json:"name"`
	Text  string                 `json:"text"`
	Vars  map[string]interface{} `json:"vars"`
}

func canonResult(v interface{}) string {
	m, ok := v.(map[string]interface{})
	if !ok {
		b, _ := json.Marshal(v)
		return "not-an-object:" + string(b)
	}
	msgs := []string{}
	if es, ok := m["errors"].([]interface{}); ok {
		seen := map[string]bool{}
		for _, e := range es {
			if em, ok := e.(map[string]interface{}); ok {
				s := fmt.Sprintf("%v", em["message"])
				if !seen[s] {
					seen[s] = true
					msgs = append(msgs, s)
				}
			}
		}
	}
	sort.Strings(msgs)
	_, hasData := m["data"]
	b, _ := json.Marshal(map[string]interface{}{"data": m["data"], "hasData": hasData, "errors": msgs})
	return string(b)
}

func makePool(rng *rand.Rand, w *world.World, cfg world.GenCfg) []poolOp {
	var pool []poolOp
	add := func(class, kind, name string) {
		op := world.GenOp(rng, w, cfg, kind)
		op.Name = name
		op.Fill()
		pool = append(pool, poolOp{Class: class, Name: name, Text: w.OpText(op), Vars: op.VarsToGo()})
	}
	for k := 0; k < 4; k++ {
		add("query", "query", fmt.Sprintf("OpQ%d", k))
	}
	if w.Types["Mutation"] != nil {
		add("mutation", "mutation", "OpM")
	}
	add("failing-downstream", "query", "OpFail")
	add("slow", "query", "OpSlow")
	pool = append(pool, poolOp{Class: "introspection", Name: "OpI", Text: "query OpI { __schema { queryType { name } } }", Vars: map[string]interface{}{}})
	pool = append(pool, poolOp{Class: "invalid", Name: "OpBad", Text: "query OpBad { zzUnknownField }", Vars: map[string]interface{}{}})
	pool = append(pool, poolOp{Class: "invalid-syntax", Name: "OpSyn", Text: "query OpSyn { ", Vars: map[string]interface{}{}})
	// operations the gateway refuses by name, each with its own message
	for _, n := range []string{"NoSuchOpA", "NoSuchOpB", "NoSuchOpC"} {
		pool = append(pool, poolOp{Class: "unknown-operation-name", Name: n, Text: "query Present { __typename }", Vars: map[string]interface{}{}})
	}
	return pool
}

var target uint64 // id of the batch-level AsyncMapReduce instance (0: none chosen yet)
var armed int32

func gatedPoint(p string) bool {
	return p == "w.start" || p == "w.send.res" || p == "r.select"
}

func install(s *sched.Sched, forced bool) {
	common.VerifHook.Store(func(id uint64, point string, kv ...interface{}) {
		if point == "amr.new" && atomic.LoadInt32(&armed) == 1 && atomic.CompareAndSwapUint64(&target, 0, id) {
			atomic.StoreInt32(&armed, 0)
		}
		if id == atomic.LoadUint64(&target) {
			if forced && gatedPoint(point) {
				s.Arrive(sched.Key(point, kv...))
				return
			}
			s.Arrive("free:" + point)
			return
		}
		if !forced {
			s.Arrive("inner:" + point) // perturbation only
		}
	})
}

type batchEv struct {
	Ev      string   `json:"ev"`
	N       int      `json:"n"`
	Mode    string   `json:"mode"`
	Status  int      `json:"status"`
	IsArray bool     `json:"isArray"`
	Results []string `json:"results"`
	Singles []string `json:"singles"`
	Classes []string `json:"classes"`
	Order   []string `json:"order"`
	Drift   string   `json:"drift"`
	Cfg     string   `json:"cfg"`
}

const stepTimeout = 5 * time.Second

func sendBatch(g *gw.GW, ops []poolOp) (int, interface{}, error) {
	arr := []interface{}{}
	for _, o := range ops {
		arr = append(arr, map[string]interface{}{"query": o.Text, "variables": o.Vars, "operationName": o.Name})
	}
	b, _ := json.Marshal(arr)
	st, body := g.Post(b, "application/json")
	var v interface{}
	if err := json.Unmarshal(body, &v); err != nil {
		return st, nil, fmt.Errorf("not JSON: %s", body)
	}
	return st, v, nil
}

func runBatch(g *gw.GW, ops []poolOp, steps [][]interface{}, seed int64) batchEv {
	ev := batchEv{Ev: "Batch", N: len(ops), Results: []string{}, Singles: []string{}, Classes: []string{}, Order: []string{}, Cfg: g.Cfg.Name}
	for _, o := range ops {
		ev.Classes = append(ev.Classes, o.Class)
	}
	forced := steps != nil
	ev.Mode = "perturbed"
	if forced {
		ev.Mode = "forced"
	}
	s := sched.New(forced, func(key string) bool {
		return strings.HasPrefix(key, "w.start/") || strings.HasPrefix(key, "w.send.res/") || key == "r.select"
	})
	if !forced {
		s.Perturb(seed, 2)
	}
	atomic.StoreUint64(&target, 0)
	atomic.StoreInt32(&armed, 1)
	install(s, forced)
	type res struct {
		st  int
		v   interface{}
		err error
	}
	done := make(chan res, 1)
	go func() {
		st, v, err := sendBatch(g, ops)
		done <- res{st, v, err}
	}()
	if forced {
		drift := func(msg string) { ev.Drift = msg; s.Open() }
		ok := s.WaitParked("r.select", stepTimeout)
		for i := range ops {
			ok = ok && s.WaitParked(fmt.Sprintf("w.start/%d", i), stepTimeout)
		}
		if !ok {
			drift("the batch fan-out did not reach its first hook points")
		}
		for _, st := range steps {
			if ev.Drift != "" {
				break
			}
			switch st[0].(string) {
			case "Run":
				i := int(st[1].(float64))
				s.Release(fmt.Sprintf("w.start/%d", i))
				if !s.WaitParked(fmt.Sprintf("w.send.res/%d", i), stepTimeout) {
					drift(fmt.Sprintf("Run(%d): the operation's goroutine did not reach the hand-over", i))
				}
				ev.Order = append(ev.Order, fmt.Sprintf("Run%d", i))
			case "Place":
				i := int(st[1].(float64))
				s.Release(fmt.Sprintf("w.send.res/%d", i), "r.select")
				if !s.WaitParked("r.select", stepTimeout) {
					drift(fmt.Sprintf("Place(%d): the reducer did not come back to select", i))
				}
				ev.Order = append(ev.Order, fmt.Sprintf("Place%d", i))
			case "Emit":
				s.Release("r.select")
			case "Burst":
				// every operation's goroutine is held at its start; now all of them run at the same instant
				ev.Mode = "burst"
				s.Open()
			}
		}
	}
	var r res
	select {
	case r = <-done:
	case <-time.After(30 * time.Second):
		s.Open()
		ev.Drift += " HANG"
		ev.Status = -1
		return ev
	}
	s.Open()
	common.VerifHook.Store(func(id uint64, point string, kv ...interface{}) {})
	ev.Status = r.st
	if arr, ok := r.v.([]interface{}); ok {
		ev.IsArray = true
		for _, e := range arr {
			ev.Results = append(ev.Results, canonResult(e))
		}
	} else if r.err == nil {
		ev.Results = append(ev.Results, canonResult(r.v))
	}
	for _, o := range ops {
		_, env, err := g.DoText(o.Text, o.Vars, o.Name)
		if err != nil {
			ev.Singles = append(ev.Singles, "malformed:"+err.Error())
		} else {
			ev.Singles = append(ev.Singles, canonResult(env))
		}
	}
	return ev
}

type pathIn struct {
	N     int             `json:"n"`
	Steps [][]interface{} `json:"steps"`
}

func main() {
	in := flag.String("in", "", "behaviours of BatchFront to force (ndjson)")
	out := flag.String("out", "", "")
	seed := flag.Int64("seed", 1, "")
	worlds := flag.Int("worlds", 3, "")
	free := flag.Int("free", 50, "perturbed batches per world")
	flag.Parse()
	var paths []pathIn
	if *in != "" {
		f, err := os.Open(*in)
		if err != nil {
			panic(err)
		}
		sc := bufio.NewScanner(f)
		sc.Buffer(make([]byte, 1<<20), 1<<24)
		for sc.Scan() {
			var p pathIn
			json.Unmarshal(sc.Bytes(), &p)
			paths = append(paths, p)
		}
	}
	of, _ := os.Create(*out)
	defer of.Close()
	bw := bufio.NewWriter(of)
	defer bw.Flush()
	enc := json.NewEncoder(bw)
	rng := rand.New(rand.NewSource(*seed))
	cfg := world.DefaultCfg()
	cfg.Off = map[string]bool{"dirid": true, "fragdirs": true}
	for wi := 0; wi < *worlds; wi++ {
		w := world.Gen(rng, cfg, int(*seed)*1000+wi)
		w.Fill()
		pool := makePool(rng, w, cfg)
		for _, cn := range []string{"default", "cached"} {
			g, err := gw.New(w, gw.Config{Name: cn, Cached: cn == "cached"})
			if err != nil {
				fmt.Fprintln(os.Stderr, "HARNESS: gateway did not start:", err)
				os.Exit(4)
			}
			g.Net.OpRule = func(name string) string {
				if strings.HasPrefix(name, "OpFail") {
					return "fail"
				}
				if strings.HasPrefix(name, "OpSlow") {
					return "slow"
				}
				return ""
			}
			pick := func(n int) []poolOp {
				ops := make([]poolOp, n)
				for i := range ops {
					ops[i] = pool[rng.Intn(len(pool))]
				}
				return ops
			}
			for _, p := range paths {
				enc.Encode(map[string]interface{}{"ev": "Begin", "world": w.ID, "mode": "forced", "steps": p.Steps})
				bw.Flush()
				enc.Encode(runBatch(g, pick(p.N), p.Steps, 0))
			}
			for k := 0; k < *free; k++ {
				n := rng.Intn(9)
				if k%10 == 0 {
					n = 0
				} else if k%17 == 0 {
					n = 10 + rng.Intn(20)
				}
				enc.Encode(map[string]interface{}{"ev": "Begin", "world": w.ID, "mode": "perturbed", "n": n})
				bw.Flush()
				ops := pick(n)
				if k%7 == 3 {
					// many operations that are refused at the same point, each for its own reason, started at the same instant
					for rep := 0; rep < 8; rep++ {
						ops = make([]poolOp, 16)
						for i := range ops {
							ops[i] = pool[len(pool)-1-rng.Intn(3)]
						}
						enc.Encode(runBatch(g, ops, [][]interface{}{{"Burst"}}, 0))
					}
					continue
				}
				enc.Encode(runBatch(g, ops, nil, rng.Int63()))
			}
		}
	}
}
