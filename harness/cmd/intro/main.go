// intro binds spec/Introspect.tla to the code, in both directions of introspection:
//
//	c15: schema S -> spec-compliant responder (harness/introresp) -> the REAL
//	     introspection.ParallelRemoteSchemaIntrospector -> reconstructed schema, compared with S
//	c16: schema S -> real gateway (NewGateway, real merger) -> its answer to the standard
//	     introspection query -> rebuilt by a standard client AND by a second real gateway
//	     introspector, compared with the schema the gateway enforces; __type(name:) by literal and
//	     by variable; probe operations
//
// Schemas are built from a base plus the feature sets enumerated by TLC.
package main

import (
	"bufio"
	"encoding/json"
	"flag"
	"fmt"
	"os"
	"reflect"
	"sort"
	"strings"

	"github.com/buildbuildio/pebbles"
	"github.com/buildbuildio/pebbles/introspection"
	"github.com/buildbuildio/pebbles/queryer"
	"github.com/buildbuildio/pebbles/requests"
	"github.com/vektah/gqlparser/v2"
	"github.com/vektah/gqlparser/v2/ast"
	"github.com/vektah/gqlparser/v2/formatter"
	"github.com/vektah/gqlparser/v2/parser"

	"bytes"
	"net/http/httptest"

	"verifharness/introresp"
	"verifharness/mschema"
)

type featCase struct {
	Features []string `json:"features"`
}

// buildSDL composes a schema from the base and the features.
func buildSDL(feats []string) string {
	has := map[string]bool{}
	for _, f := range feats {
		has[f] = true
	}
	var defs []string
	var q []string
	q = append(q, "  base: String", "  item(id: ID!): Item")
	defs = append(defs, "type Item {\n  id: ID!\n  name: String\n}")
	needColor := has["arg-default-enum"] || has["input-default-enum"] || has["enum"] || has["desc-enum-value"] || has["dep-enum-value"]
	needPt := has["arg-default-object"] || has["input-default-object"] || has["input-nested"]
	if needColor {
		vals := "  RED\n  GREEN\n  BLUE"
		if has["desc-enum-value"] {
			vals = "  \"\"\"the colour red\"\"\"\n  RED\n  GREEN\n  BLUE"
		}
		if has["dep-enum-value"] {
			vals += " @deprecated(reason: \"too cold\")\n  GREY @deprecated"
		}
		defs = append(defs, "enum Color {\n"+vals+"\n}")
		q = append(q, "  color: Color")
	}
	if needPt {
		defs = append(defs, "input Pt {\n  x: Int\n  y: Int\n}")
		q = append(q, "  atPoint(p: Pt): String")
	}
	for _, f := range feats {
		switch f {
		case "desc-type":
			defs = append(defs, "\"\"\"A type with a description.\nSecond line.\"\"\"\ntype Described {\n  x: Int\n}")
			q = append(q, "  described: Described")
		case "desc-field":
			q = append(q, "  \"\"\"what this field is for\"\"\"\n  documented: Int")
		case "desc-arg":
			q = append(q, "  docArg(\"\"\"how many\"\"\" n: Int): Int")
		case "dep-field":
			q = append(q, "  oldField: Int @deprecated")
		case "dep-field-reason":
			q = append(q, "  olderField: Int @deprecated(reason: \"use base\")")
		case "arg-default-int":
			q = append(q, "  adInt(a: Int = 5): Int")
		case "arg-default-float":
			q = append(q, "  adFloat(a: Float = 1.5): Float")
		case "arg-default-string":
			q = append(q, "  adString(a: String = \"hello world\"): String")
		case "arg-default-bool":
			q = append(q, "  adBool(a: Boolean = true): Boolean")
		case "arg-default-enum":
			q = append(q, "  adEnum(a: Color = GREEN): Color")
		case "arg-default-list":
			q = append(q, "  adList(a: [Int] = [1, 2]): Int")
		case "arg-default-object":
			q = append(q, "  adObject(a: Pt = {x: 1, y: 2}): Int")
		case "arg-default-null":
			q = append(q, "  adNull(a: Int = null): Int")
		case "input-default-int":
			defs = append(defs, "input InInt {\n  n: Int = 7\n  m: Int\n}")
			q = append(q, "  inInt(i: InInt): Int")
		case "input-default-string":
			defs = append(defs, "input InStr {\n  s: String = \"dflt\"\n}")
			q = append(q, "  inStr(i: InStr): Int")
		case "input-default-enum":
			defs = append(defs, "input InEnum {\n  c: Color = RED\n}")
			q = append(q, "  inEnum(i: InEnum): Int")
		case "input-default-list":
			defs = append(defs, "input InList {\n  l: [String] = [\"a\", \"b\"]\n  k: [Int!] = [1]\n}")
			q = append(q, "  inList(i: InList): Int")
		case "input-default-object":
			defs = append(defs, "input InObj {\n  p: Pt = {x: 3}\n}")
			q = append(q, "  inObj(i: InObj): Int")
		case "input-nested":
			defs = append(defs, "input Outer {\n  inner: Pt!\n  list: [Pt!]\n}")
			q = append(q, "  nested(o: Outer!): Int")
		case "wrap-list":
			q = append(q, "  wList: [String]")
		case "wrap-nn-list-nn":
			q = append(q, "  wNN: [String!]!")
		case "wrap-list-list":
			q = append(q, "  wLL: [[Int]]")
		case "wrap-deep":
			q = append(q, "  wDeep: [[Int!]!]!", "  wDeeper: [[[Item]!]]")
		case "arg-wrap-deep":
			q = append(q, "  aDeep(a: [[Int!]]!, b: [ID!]!): Int")
		case "custom-scalar":
			defs = append(defs, "scalar Date")
			q = append(q, "  today: Date", "  on(d: Date!): Boolean")
		case "directive-noargs":
			defs = append(defs, "directive @marker on FIELD_DEFINITION")
		case "directive-args":
			defs = append(defs, "directive @auth(role: String!, level: Int) on OBJECT | FIELD_DEFINITION")
		case "directive-arg-default":
			defs = append(defs, "directive @limit(n: Int = 10) on FIELD_DEFINITION")
		case "directive-many-locations":
			defs = append(defs, "directive @everywhere on QUERY | MUTATION | FIELD | FRAGMENT_SPREAD | OBJECT | ENUM_VALUE | INPUT_FIELD_DEFINITION")
		case "interface":
			defs = append(defs, "interface Shape {\n  area: Float\n}", "type Square implements Shape {\n  area: Float\n  side: Float\n}", "type Circle implements Shape {\n  area: Float\n  radius: Float\n}")
			q = append(q, "  shape: Shape", "  shapes: [Shape!]")
		case "interface-chain":
			defs = append(defs, "interface Named {\n  label: String\n}", "interface Aged {\n  age: Int\n}", "type Person implements Named & Aged {\n  label: String\n  age: Int\n}")
			q = append(q, "  named: Named", "  aged: Aged")
		case "interface-implements":
			defs = append(defs, "interface Entity {\n  key: ID!\n}", "interface Titled implements Entity {\n  key: ID!\n  title: String\n}",
				"type Book implements Titled & Entity {\n  key: ID!\n  title: String\n  pages: Int\n}")
			q = append(q, "  titled: Titled", "  entity: Entity")
		case "arg-default-string-list":
			q = append(q, "  adStrList(labels: [String!]! = [\"x\", \"y z\"], ids: [ID] = [\"i1\"], nested: [[String]] = [[\"a\"], []]): Int")
		case "union":
			defs = append(defs, "type Cat {\n  meow: String\n}", "type Dog {\n  bark: String\n}", "union Pet = Cat | Dog")
			q = append(q, "  pet: Pet")
		case "subscription":
			if !has["root-sub-name"] {
				defs = append(defs, "type Subscription {\n  ticks(every: Int = 1): Int\n}")
			}
		}
	}
	qname, mname := "Query", "Mutation"
	if has["root-names"] {
		qname, mname = "RootQ", "RootM"
	}
	sort.Strings(defs)
	sdl := strings.Join(defs, "\n\n") + "\n\ntype " + qname + " {\n" + strings.Join(q, "\n") + "\n}\n"
	if has["mutation"] || has["root-names"] {
		sdl += "\ntype " + mname + " {\n  setName(id: ID!, name: String = \"x\"): Item\n}\n"
	}
	if has["root-sub-name"] {
		sdl += "\ntype Events {\n  tick(every: Int = 1): Int\n}\n"
	}
	if has["root-names"] || has["root-sub-name"] {
		sdl += "\nschema {\n  query: " + qname + "\n"
		if has["mutation"] || has["root-names"] {
			sdl += "  mutation: " + mname + "\n"
		}
		if has["root-sub-name"] {
			sdl += "  subscription: Events\n"
		} else if has["subscription"] {
			sdl += "  subscription: Subscription\n"
		}
		sdl += "}\n"
	}
	return sdl
}

type fixedQueryer struct {
	url  string
	sch  *ast.Schema
	resp *introresp.Responder
}

func (f *fixedQueryer) Query(rs []*requests.Request) ([]map[string]interface{}, error) {
	var out []map[string]interface{}
	for _, r := range rs {
		doc, err := gqlparser.LoadQuery(f.sch, r.Query)
		if err != nil {
			return nil, fmt.Errorf("responder: the introspection query does not validate: %v", err)
		}
		var op *ast.OperationDefinition
		if r.OperationName != nil {
			op = doc.Operations.ForName(*r.OperationName)
		}
		if op == nil {
			op = doc.Operations[0]
		}
		out = append(out, f.resp.Answer(op, r.Variables))
	}
	return out, nil
}
func (f *fixedQueryer) Subscribe(*requests.Request, <-chan struct{}, chan *requests.Response) error {
	return nil
}
func (f *fixedQueryer) URL() string { return f.url }

type sdlIntro struct{ sch *ast.Schema }

func (s *sdlIntro) IntrospectRemoteSchemas(urls ...string) ([]*ast.Schema, error) {
	return []*ast.Schema{s.sch}, nil
}

func post(g *pebbles.Gateway, body map[string]interface{}) (map[string]interface{}, error) {
	b, _ := json.Marshal(body)
	req := httptest.NewRequest("POST", "/graphql", bytes.NewReader(b))
	req.Header.Set("Content-Type", "application/json")
	rec := httptest.NewRecorder()
	g.Handler(rec, req)
	var env map[string]interface{}
	if err := json.Unmarshal(rec.Body.Bytes(), &env); err != nil {
		return nil, fmt.Errorf("not JSON: %s", rec.Body.String())
	}
	return env, nil
}

func postBatch(g *pebbles.Gateway, bodies []map[string]interface{}) ([]interface{}, error) {
	b, _ := json.Marshal(bodies)
	req := httptest.NewRequest("POST", "/graphql", bytes.NewReader(b))
	req.Header.Set("Content-Type", "application/json")
	rec := httptest.NewRecorder()
	g.Handler(rec, req)
	var env []interface{}
	if err := json.Unmarshal(rec.Body.Bytes(), &env); err != nil {
		return nil, fmt.Errorf("not a JSON array: %s", rec.Body.String())
	}
	return env, nil
}

// aliased renders an introspection document with every field under the alias x_<name>.
func aliased(text string) (string, error) {
	doc, err := parser.ParseQuery(&ast.Source{Input: text})
	if err != nil {
		return "", err
	}
	var walk func(ss ast.SelectionSet)
	walk = func(ss ast.SelectionSet) {
		for _, sel := range ss {
			switch x := sel.(type) {
			case *ast.Field:
				x.Alias = "x_" + x.Name
				walk(x.SelectionSet)
			case *ast.InlineFragment:
				walk(x.SelectionSet)
			}
		}
	}
	for _, op := range doc.Operations {
		walk(op.SelectionSet)
	}
	for _, fr := range doc.Fragments {
		walk(fr.SelectionSet)
	}
	var buf bytes.Buffer
	formatter.NewFormatter(&buf).FormatQueryDocument(doc)
	return buf.String(), nil
}

// allAliased: every key of the answer to the aliased document is one of its aliases.
func allAliased(v interface{}) bool {
	switch x := v.(type) {
	case map[string]interface{}:
		for k, e := range x {
			if !strings.HasPrefix(k, "x_") || !allAliased(e) {
				return false
			}
		}
	case []interface{}:
		for _, e := range x {
			if !allAliased(e) {
				return false
			}
		}
	}
	return true
}

func unalias(v interface{}) interface{} {
	switch x := v.(type) {
	case map[string]interface{}:
		out := map[string]interface{}{}
		for k, e := range x {
			out[strings.TrimPrefix(k, "x_")] = unalias(e)
		}
		return out
	case []interface{}:
		out := make([]interface{}, len(x))
		named := len(x) > 0
		for i, e := range x {
			out[i] = unalias(e)
			if m, ok := out[i].(map[string]interface{}); !ok || m["name"] == nil {
				named = false
			}
		}
		// lists of named things (types, fields, arguments, directives ...) are sets: the gateway orders them by
		// their "name" entry, which an aliased document does not have
		if named {
			sort.SliceStable(out, func(i, j int) bool {
				return fmt.Sprint(out[i].(map[string]interface{})["name"]) < fmt.Sprint(out[j].(map[string]interface{})["name"])
			})
		}
		return out
	}
	return v
}

type probe struct {
	What      string `json:"what"`
	Reported  bool   `json:"reported"`
	Validates bool   `json:"validates"`
}

func main() {
	in := flag.String("in", "", "")
	out := flag.String("out", "", "")
	mode := flag.String("mode", "c15", "c15 | c16")
	flag.Parse()
	f, err := os.Open(*in)
	if err != nil {
		panic(err)
	}
	of, _ := os.Create(*out)
	defer of.Close()
	bw := bufio.NewWriter(of)
	defer bw.Flush()
	enc := json.NewEncoder(bw)
	sc := bufio.NewScanner(f)
	sc.Buffer(make([]byte, 1<<20), 1<<24)
	empty := (&mschema.Schema{}).Fill()
	for sc.Scan() {
		var c featCase
		if err := json.Unmarshal(sc.Bytes(), &c); err != nil {
			panic(err)
		}
		sort.Strings(c.Features)
		sdl := buildSDL(c.Features)
		sch, lerr := gqlparser.LoadSchema(&ast.Source{Name: "svc", Input: sdl})
		if lerr != nil {
			enc.Encode(map[string]interface{}{"ev": "HarnessError", "what": fmt.Sprintf("features %v give an invalid SDL: %v\n%s", c.Features, lerr, sdl)})
			continue
		}
		orig := mschema.Abs(sch).Fill()
		ev := map[string]interface{}{"ev": "Intro", "features": c.Features, "sdl": sdl, "orig": orig, "ok": false, "err": "", "rebuilt": empty,
			"typeAgrees": true, "aliasAgrees": true, "concurrentAgrees": true, "probes": []probe{}, "mode": *mode}
		enc.Encode(map[string]interface{}{"ev": "Begin", "features": c.Features})
		bw.Flush()
		switch *mode {
		case "c15":
			resp := introresp.New(sch)
			intro := &introspection.ParallelRemoteSchemaIntrospector{Factory: func(url string) queryer.Queryer {
				return &fixedQueryer{url: url, sch: sch, resp: resp}
			}}
			func() {
				defer func() {
					if r := recover(); r != nil {
						ev["err"] = fmt.Sprintf("panic: %v", r)
					}
				}()
				res, err := intro.IntrospectRemoteSchemas("http://svc.test")
				if err != nil {
					ev["err"] = err.Error()
					return
				}
				ev["ok"] = true
				ev["rebuilt"] = mschema.Abs(res[0]).Fill()
			}()
		case "c16":
			// the gateway names the root operation types of ITS schema Query / Mutation / Subscription whatever a
			// service calls them (operations name them by keyword); which roots exist must agree
			for r := range orig.RootNames {
				orig.RootNames[r] = r
			}
			g, gerr := pebbles.NewGateway([]string{"http://svc.test"}, pebbles.WithRemoteSchemaIntrospector(&sdlIntro{sch: sch}))
			if gerr != nil {
				ev["err"] = "gateway did not start: " + gerr.Error()
				break
			}
			env, err := post(g, map[string]interface{}{"query": introresp.StandardQuery, "operationName": "IntrospectionQuery"})
			if err != nil {
				ev["err"] = err.Error()
				break
			}
			data, _ := env["data"].(map[string]interface{})
			if data == nil {
				ev["err"] = fmt.Sprintf("no data: %v", env["errors"])
				break
			}
			rb, rerr := introresp.Rebuild(data)
			if rerr != nil {
				ev["err"] = rerr.Error()
				break
			}
			ev["ok"] = true
			ev["rebuilt"] = rb
			// a second gateway introspecting the first one (through the real introspector)
			intro := &introspection.ParallelRemoteSchemaIntrospector{Factory: func(url string) queryer.Queryer { return &gwQueryer{g: g, url: url} }}
			second, serr := intro.IntrospectRemoteSchemas("http://gateway.test")
			if serr != nil {
				ev["second"] = map[string]interface{}{"ok": false, "err": serr.Error(), "schema": empty}
			} else {
				ev["second"] = map[string]interface{}{"ok": true, "err": "", "schema": mschema.Abs(second[0]).Fill()}
			}
			// __type(name:) by literal and by variable agrees with the entry of __schema.types
			agrees := true
			sel := "{ kind name description fields(includeDeprecated: true) { name } inputFields { name } enumValues(includeDeprecated: true) { name } possibleTypes { name } interfaces { name } }"
			all, _ := post(g, map[string]interface{}{"query": "{ __schema { types " + sel + " } }"})
			byName := map[string]interface{}{}
			if d, _ := all["data"].(map[string]interface{}); d != nil {
				if s, _ := d["__schema"].(map[string]interface{}); s != nil {
					for _, t := range s["types"].([]interface{}) {
						byName[t.(map[string]interface{})["name"].(string)] = t
					}
				}
			}
			for name, want := range byName {
				lit, _ := post(g, map[string]interface{}{"query": fmt.Sprintf("{ __type(name: %q) %s }", name, sel)})
				vr, _ := post(g, map[string]interface{}{"query": "query T($n: String!) { __type(name: $n) " + sel + " }", "variables": map[string]interface{}{"n": name}})
				for _, got := range []map[string]interface{}{lit, vr} {
					d, _ := got["data"].(map[string]interface{})
					if d == nil || !reflect.DeepEqual(d["__type"], want) {
						agrees = false
						if ev["typeDisagrees"] == nil {
							ev["typeDisagrees"] = name
						}
					}
				}
			}
			ev["typeAgrees"] = agrees
			// the same introspection document with every field aliased must give the same answer under the aliases
			if at, aerr := aliased(introresp.StandardQuery); aerr != nil {
				ev["err"] = "harness: " + aerr.Error()
			} else {
				ar, _ := post(g, map[string]interface{}{"query": at, "operationName": "IntrospectionQuery"})
				ad, _ := ar["data"].(map[string]interface{})
				if ad == nil || !allAliased(ad) || !reflect.DeepEqual(unalias(ad), unalias(data)) {
					ev["aliasAgrees"] = false
				}
			}
			// introspection operations that take name / includeDeprecated from variables, several at once in one
			// batch: each is answered as if it were alone
			{
				var names []string
				for n := range byName {
					names = append(names, n)
				}
				sort.Strings(names)
				const vq = "query V($n: String!, $d: Boolean) { __type(name: $n) { name fields(includeDeprecated: $d) { name } enumValues(includeDeprecated: $d) { name } } }"
				var bodies []map[string]interface{}
				var alone []interface{}
				for i := 0; i < 8 && len(names) > 0; i++ {
					b := map[string]interface{}{"query": vq, "variables": map[string]interface{}{"n": names[(i*5)%len(names)], "d": i%2 == 0}}
					bodies = append(bodies, b)
					r, _ := post(g, b)
					alone = append(alone, interface{}(r))
				}
				for round := 0; round < 12 && ev["concurrentAgrees"] == true; round++ {
					got, berr := postBatch(g, bodies)
					if berr != nil || !reflect.DeepEqual(got, alone) {
						ev["concurrentAgrees"] = false
					}
				}
			}
			// probes: every root query field reported <=> a query using it validates (incl. deprecated ones)
			var probes []probe
			reported := map[string]bool{}
			for f := range rb.Roots["Query"] {
				reported[f] = true
			}
			for fname, fd := range orig.Roots["Query"] {
				needsArgs := false
				for _, a := range fd.Args {
					if strings.HasSuffix(strings.Split(a, " = ")[0], "!") {
						needsArgs = true
					}
				}
				isLeaf := true
				base := strings.Trim(strings.Split(fd.Ty, " = ")[0], "[]!")
				if t := orig.Types[base]; t != nil && (t.Kind == "OBJECT" || t.Kind == "INTERFACE" || t.Kind == "UNION") {
					isLeaf = false
				}
				if needsArgs {
					continue
				}
				qy := "{ " + fname + " }"
				if !isLeaf {
					qy = "{ " + fname + " { __typename } }"
				}
				r, _ := post(g, map[string]interface{}{"query": qy})
				validates := true
				if es, _ := r["errors"].([]interface{}); len(es) > 0 {
					for _, e := range es {
						if msg, _ := e.(map[string]interface{})["message"].(string); strings.Contains(msg, "Cannot query field") || strings.Contains(msg, "Unknown") {
							validates = false
						}
					}
				}
				probes = append(probes, probe{What: "Query." + fname, Reported: reported[fname], Validates: validates})
			}
			sort.Slice(probes, func(i, j int) bool { return probes[i].What < probes[j].What })
			if probes == nil {
				probes = []probe{}
			}
			ev["probes"] = probes
		}
		enc.Encode(ev)
	}
}

// gwQueryer lets the real introspector query a gateway as if it were a service.
type gwQueryer struct {
	g   *pebbles.Gateway
	url string
}

func (q *gwQueryer) Query(rs []*requests.Request) ([]map[string]interface{}, error) {
	var out []map[string]interface{}
	for _, r := range rs {
		body := map[string]interface{}{"query": r.Query, "variables": r.Variables}
		if r.OperationName != nil {
			body["operationName"] = *r.OperationName
		}
		env, err := post(q.g, body)
		if err != nil {
			return nil, err
		}
		d, _ := env["data"].(map[string]interface{})
		if d == nil {
			return nil, fmt.Errorf("gateway answered without data: %v", env["errors"])
		}
		out = append(out, d)
	}
	return out, nil
}
func (q *gwQueryer) Subscribe(*requests.Request, <-chan struct{}, chan *requests.Response) error {
	return nil
}
func (q *gwQueryer) URL() string { return q.url }
