// cache replays the histories of spec/PlanCache.tla on a real gateway with the caching planner and,
// in lockstep, on a real gateway with the plain planner over the same fake services, and records
// both observations for CacheTrace (C14).  It also sends generated operations from a random pool in
// long histories with concurrent clients (direction B).
package main

import (
	"bufio"
	"encoding/json"
	"flag"
	"fmt"
	"math/rand"
	"os"
	"sort"
	"strings"
	"sync"
	"time"

	"verifharness/gw"
	"verifharness/world"
)

type absOp struct {
	Sel  string `json:"sel"`
	Kind string `json:"kind"`
	Name string `json:"name"`
	Vdef string `json:"vdef"`
	Frag string `json:"frag"`
	Ids  bool   `json:"ids"`
	// only in the random pool: a numbered alias on the root field - many distinct cache keys, so that plans are built
	// (and their steps ordered by map iteration) many times
	Alias int `json:"alias,omitempty"`
}

// cacheWorld: User is a Node type split over two services; `both` exists on Query (service 0)
// and on Mutation (service 1) with different answers.
func cacheWorld() *world.World {
	str := world.TypeRef{Name: "String"}
	w := &world.World{ID: 14, Types: map[string]*world.TypeDecl{}, Ents: map[string]*world.Entity{}, Roots: map[string]map[string]world.Val{}}
	w.Types["User"] = &world.TypeDecl{Kind: "OBJECT", Node: true, Order: []string{"id", "a0", "a1", "best"}, Fields: map[string]*world.FieldDecl{
		"id": {Type: world.TypeRef{Name: "ID", NN: true}}, "a0": {Type: str}, "a1": {Type: str}, "best": {Type: world.TypeRef{Name: "User"}}}}
	arg := []world.ArgDecl{{Name: "x", Type: world.TypeRef{Name: "Int"}}}
	w.Types["Query"] = &world.TypeDecl{Kind: "OBJECT", Order: []string{"both", "q1"}, Fields: map[string]*world.FieldDecl{
		"both": {Type: world.TypeRef{Name: "User"}, Args: arg}, "q1": {Type: str}}}
	w.Types["Mutation"] = &world.TypeDecl{Kind: "OBJECT", Order: []string{"both"}, Fields: map[string]*world.FieldDecl{
		"both": {Type: world.TypeRef{Name: "User"}, Args: arg}}}
	w.Services = []*world.Service{
		{URL: "http://c0.test", Decl: map[string][]string{"Query": {"both"}, "User": {"a0", "best"}}},
		{URL: "http://c1.test", Decl: map[string][]string{"Query": {"q1"}, "Mutation": {"both"}, "User": {"a1"}}},
	}
	for i := 1; i <= 3; i++ {
		id := fmt.Sprintf("User_%d", i)
		w.Ents[id] = &world.Entity{Type: "User", F: map[string]world.Val{"id": world.S(id), "a0": world.S(fmt.Sprintf("x%d", i)), "a1": world.S(fmt.Sprintf("y%d", i)),
			"best": world.R(fmt.Sprintf("User_%d", i%3+1))}}
	}
	fn := func(a, b string) world.Val {
		return world.Val{"t": "fn", "args": []interface{}{"x"}, "by": map[string]interface{}{"1": world.R(a), "2": world.R(b)}, "else": world.Z()}
	}
	w.Roots["Query"] = map[string]world.Val{"both": fn("User_1", "User_2"), "q1": world.S("hello")}
	w.Roots["Mutation"] = map[string]world.Val{"both": fn("User_3", "User_1")}
	return w.Fill()
}

type concrete struct {
	text string
	name string
	vars map[string]interface{}
}

func realise(o absOp) concrete {
	kw := "query"
	if o.Kind == "m" {
		kw = "mutation"
	}
	def := "1"
	if o.Vdef == "V2" {
		def = "2"
	}
	root, pre, post := "both(x: $v)", "", ""
	if o.Sel == "S2" {
		root = "other: both(x: $v)"
	}
	if o.Alias > 0 {
		root = fmt.Sprintf("r%d: both(x: $v)", o.Alias)
	}
	if o.Sel == "S3" {
		// a root field the gateway answers itself next to the service's
		if o.Alias%2 == 0 {
			pre = "__typename "
		} else {
			post = " __typename"
		}
	}
	body := "a0 best { a1 }"
	if o.Ids {
		// exactly what the sanitiser turns the inline selection into: helper ids written out first
		body = "id a0 best { id a1 }"
	}
	frags := ""
	switch o.Frag {
	case "F1":
		body, frags = "...F", "fragment F on User { a0 best { a1 } }\n"
	case "F2":
		body, frags = "...F", "fragment F on User { a1 best { a0 } }\n"
	}
	// the document always holds two operations; operationName selects one of them
	text := fmt.Sprintf("%s A($v: Int = %s) { %s%s { %s }%s }\nquery B { q1 }\n%s", kw, def, pre, root, body, post, frags)
	return concrete{text: text, name: o.Name, vars: map[string]interface{}{}}
}

func canonResp(env map[string]interface{}, err error) string {
	if err != nil {
		return "malformed:" + err.Error()
	}
	msgs := []string{}
	if es, ok := env["errors"].([]interface{}); ok {
		for _, e := range es {
			if m, ok := e.(map[string]interface{}); ok {
				msgs = append(msgs, fmt.Sprintf("%v", m["message"]))
			}
		}
	}
	sort.Strings(msgs)
	b, _ := json.Marshal(map[string]interface{}{"data": env["data"], "errors": msgs})
	return string(b)
}

func canonReqs(g *gw.GW) string {
	logs, _ := g.Net.Snapshot()
	var out []string
	for _, l := range logs {
		v, _ := json.Marshal(l.Vars)
		out = append(out, fmt.Sprintf("%s|%s|%s|%s|%s", l.Svc, l.OpName, l.Kw, l.Query, v))
	}
	sort.Strings(out)
	return strings.Join(out, "\n")
}

type stepEv struct {
	Ev         string `json:"ev"`
	Hist       int    `json:"hist"`
	K          int    `json:"k"`
	Mode       string `json:"mode"`
	TTL        int    `json:"ttl"`
	Text       string `json:"text"`
	Vars       string `json:"vars"`
	Cached     string `json:"cached"`
	Plain      string `json:"plain"`
	CachedReqs string `json:"cachedReqs"`
	PlainReqs  string `json:"plainReqs"`
}

const unit = 15 * time.Millisecond

func main() {
	in := flag.String("in", "", "histories printed by TLC (ndjson of {hist: [...]})")
	out := flag.String("out", "", "")
	seed := flag.Int64("seed", 1, "")
	random := flag.Int("random", 0, "number of random long histories (direction B)")
	flag.Parse()
	of, _ := os.Create(*out)
	defer of.Close()
	bw := bufio.NewWriter(of)
	defer bw.Flush()
	enc := json.NewEncoder(bw)
	w := cacheWorld()
	type hist struct {
		Hist [][]interface{} `json:"hist"`
	}
	var hists []hist
	if *in != "" {
		f, err := os.Open(*in)
		if err != nil {
			panic(err)
		}
		sc := bufio.NewScanner(f)
		sc.Buffer(make([]byte, 1<<20), 1<<24)
		for sc.Scan() {
			var h hist
			if json.Unmarshal(sc.Bytes(), &h) == nil {
				hists = append(hists, h)
			}
		}
	}
	toAbs := func(v interface{}) absOp {
		b, _ := json.Marshal(v)
		var o absOp
		json.Unmarshal(b, &o)
		return o
	}
	for hi, h := range hists {
		for _, ttlUnits := range []int{0, 3, 400} {
			ttl := time.Duration(ttlUnits) * unit
			if ttlUnits == 0 {
				ttl = time.Nanosecond
			}
			cg, err := gw.New(w, gw.Config{Name: "cached", Cached: true, TTLms: -1})
			if err != nil {
				fmt.Fprintln(os.Stderr, "HARNESS:", err)
				os.Exit(4)
			}
			cg.SetCachedPlanner(ttl)
			pg, _ := gw.New(w, gw.Config{Name: "plain"})
			for k, st := range h.Hist {
				if st[0].(string) == "tick" {
					time.Sleep(2 * unit)
					continue
				}
				c := realise(toAbs(st[2]))
				cg.ResetLogs()
				pg.ResetLogs()
				_, e1, err1 := cg.DoText(c.text, c.vars, c.name)
				_, e2, err2 := pg.DoText(c.text, c.vars, c.name)
				enc.Encode(stepEv{Ev: "Step", Hist: hi, K: k, Mode: "history", TTL: ttlUnits, Text: c.text, Vars: "{}", Cached: canonResp(e1, err1), Plain: canonResp(e2, err2),
					CachedReqs: canonReqs(cg), PlainReqs: canonReqs(pg)})
			}
		}
	}
	// concurrent pairs on one caching gateway (responses only: the logs of concurrent requests interleave)
	rng := rand.New(rand.NewSource(*seed))
	pool := []absOp{}
	base := absOp{Sel: "S1", Kind: "q", Name: "A", Vdef: "V1", Frag: "none"}
	pool = append(pool, base)
	for _, m := range []func(o *absOp){func(o *absOp) { o.Sel = "S2" }, func(o *absOp) { o.Kind = "m" }, func(o *absOp) { o.Name = "B" },
		func(o *absOp) { o.Vdef = "V2" }, func(o *absOp) { o.Frag = "F1" }, func(o *absOp) { o.Frag = "F2" }, func(o *absOp) { o.Ids = true }} {
		o := base
		m(&o)
		pool = append(pool, o)
	}
	for i := 1; i <= 24; i++ {
		o := base
		o.Sel, o.Alias = "S3", i
		if i%3 == 0 {
			o.Kind = "m"
		}
		pool = append(pool, o)
	}
	for r := 0; r < *random; r++ {
		cg, _ := gw.New(w, gw.Config{Name: "cached", Cached: true, TTLms: -1})
		cg.SetCachedPlanner([]time.Duration{time.Nanosecond, 2 * time.Millisecond, time.Hour}[rng.Intn(3)])
		pg, _ := gw.New(w, gw.Config{Name: "plain"})
		n := 20 + rng.Intn(60)
		var wg sync.WaitGroup
		var mu sync.Mutex
		clients := 1 + rng.Intn(8)
		seeds := make([]int64, clients)
		for i := range seeds {
			seeds[i] = rng.Int63()
		}
		for cidx := 0; cidx < clients; cidx++ {
			wg.Add(1)
			go func(cidx int) {
				defer wg.Done()
				lr := rand.New(rand.NewSource(seeds[cidx]))
				for k := 0; k < n/clients+1; k++ {
					c := realise(pool[lr.Intn(len(pool))])
					vars := map[string]interface{}{}
					if lr.Intn(3) == 0 {
						vars["v"] = 1 + lr.Intn(2) // same operation, different variable values
					}
					_, e1, err1 := cg.DoText(c.text, vars, c.name)
					_, e2, err2 := pg.DoText(c.text, vars, c.name)
					vb, _ := json.Marshal(vars)
					mu.Lock()
					enc.Encode(stepEv{Ev: "Step", Hist: r, K: k, Mode: fmt.Sprintf("concurrent-%d-clients", clients), Text: c.text, Vars: string(vb), Cached: canonResp(e1, err1), Plain: canonResp(e2, err2)})
					mu.Unlock()
					if lr.Intn(4) == 0 {
						time.Sleep(time.Duration(lr.Intn(3)) * time.Millisecond)
					}
				}
			}(cidx)
		}
		wg.Wait()
	}
	// hammer: 16 clients send the whole pool to ONE caching gateway as fast as they can (plans are computed, looked up
	// and evicted at the same instant by many requests); every answer must be the one the plain gateway gave for that
	// operation and those variables when asked alone.  Mismatches and a sample of the matches go to CacheTrace.
	for r := 0; r < *random; r++ {
		cg, _ := gw.New(w, gw.Config{Name: "cached", Cached: true, TTLms: -1})
		cg.SetCachedPlanner([]time.Duration{time.Nanosecond, 200 * time.Microsecond, time.Hour}[r%3])
		pg, _ := gw.New(w, gw.Config{Name: "plain"})
		type hop struct {
			c    concrete
			vars map[string]interface{}
			want string
		}
		var hops []hop
		for _, o := range pool {
			for _, v := range []interface{}{nil, 1, 2} {
				c := realise(o)
				vars := map[string]interface{}{}
				if v != nil {
					vars["v"] = v
				}
				_, e2, err2 := pg.DoText(c.text, vars, c.name)
				hops = append(hops, hop{c, vars, canonResp(e2, err2)})
			}
		}
		var wg sync.WaitGroup
		var mu sync.Mutex
		for cidx := 0; cidx < 16; cidx++ {
			wg.Add(1)
			go func(cidx int) {
				defer wg.Done()
				lr := rand.New(rand.NewSource(*seed*1000 + int64(r*16+cidx)))
				for k := 0; k < 120; k++ {
					h := hops[lr.Intn(len(hops))]
					_, e1, err1 := cg.DoText(h.c.text, h.vars, h.c.name)
					got := canonResp(e1, err1)
					if got != h.want || k%40 == 0 {
						vb, _ := json.Marshal(h.vars)
						mu.Lock()
						enc.Encode(stepEv{Ev: "Step", Hist: r, K: k, Mode: "hammer-16-clients", Text: h.c.text, Vars: string(vb), Cached: got, Plain: h.want})
						mu.Unlock()
					}
				}
			}(cidx)
		}
		wg.Wait()
	}
}
