// fed drives the real gateway over generated (or TLC-enumerated) worlds and operations and
// records the traces that spec/FederationTrace.tla validates (C01, C02, C06, C12, C13, ...).
//
//	fed gen  -seed S -worlds W -ops K -out trace.ndjson [-features ...]
//	fed run  -in cases.ndjson -out trace.ndjson         cases enumerated by TLC
package main

import (
	"bufio"
	"encoding/json"
	"flag"
	"fmt"
	"math/rand"
	"os"
	"sort"
	"strings"

	"verifharness/fakesvc"
	"verifharness/gw"
	"verifharness/world"
)

type emitter struct {
	w   *bufio.Writer
	enc *json.Encoder
}

func newEmitter(path string) (*emitter, func()) {
	f, err := os.Create(path)
	if err != nil {
		panic(err)
	}
	bw := bufio.NewWriterSize(f, 1<<20)
	return &emitter{w: bw, enc: json.NewEncoder(bw)}, func() { bw.Flush(); f.Close() }
}

func (e *emitter) emit(v interface{}) {
	if err := e.enc.Encode(v); err != nil {
		panic(err)
	}
}

// monolith returns a copy of the world served by ONE service that declares everything: the
// harness's own evaluator on it is cross-checked against the specification's Ref (R7).
func monolith(w *world.World) *world.World {
	m := *w
	decl := map[string][]string{}
	for t, td := range w.Types {
		decl[t] = append([]string{}, td.Order...)
	}
	m.Services = []*world.Service{{URL: "http://mono.test", Decl: decl}}
	return &m
}

func levels(p *gw.PlanRec) map[string]int {
	lv := map[string]map[int]bool{}
	var walk func(s *gw.StepRec, d int)
	walk = func(s *gw.StepRec, d int) {
		if lv[s.URL] == nil {
			lv[s.URL] = map[int]bool{}
		}
		lv[s.URL][d] = true
		for _, t := range s.Then {
			walk(t, d+1)
		}
	}
	for _, r := range p.Roots {
		walk(r, 0)
	}
	out := map[string]int{}
	for u, ds := range lv {
		out[u] = len(ds)
	}
	return out
}

func errorMessages(env map[string]interface{}) []interface{} {
	out := []interface{}{}
	if es, ok := env["errors"].([]interface{}); ok {
		for _, e := range es {
			if m, ok := e.(map[string]interface{}); ok {
				out = append(out, fmt.Sprintf("%v", m["message"]))
			} else {
				out = append(out, fmt.Sprintf("%v", e))
			}
		}
	}
	return out
}

func inPlan(plans []*gw.PlanRec, url, query string) bool {
	if len(plans) == 0 {
		return false
	}
	for _, st := range plans[len(plans)-1].Flat() {
		if st.URL == url && st.Query == query {
			return true
		}
	}
	return false
}

type callEv struct {
	Ev   string                   `json:"ev"`
	Svc  string                   `json:"svc"`
	Call int                      `json:"call"`
	N    int                      `json:"n"`
	Dup  bool                     `json:"dup"`
	Reqs []map[string]interface{} `json:"reqs"`
}

// runOp sends one operation through a gateway and emits Req / Plan / Call / Resp events.
func runOp(em *emitter, g *gw.GW, mono *fakesvc.Net, w *world.World, op *world.Op, run string) bool {
	op.Fill()
	g.ResetLogs()
	text := w.OpText(op)
	// R7: the harness's own evaluator on the merged world (one service declaring everything); an
	// operation it does not accept is a generator reject, not a case
	var monoRes map[string]interface{}
	if mono != nil {
		svc := mono.Service("http://mono.test")
		res, lg := fakesvc.AnswerFor(svc, text, op.VarsToGo(), op.Name)
		if !lg.Validates {
			em.emit(map[string]interface{}{"ev": "GenInvalid", "err": lg.Err, "text": text})
			return false
		}
		monoRes = res
	}
	em.emit(map[string]interface{}{"ev": "Req", "run": run, "op": op, "cfg": g.Cfg.Name, "text": text})
	if monoRes != nil {
		em.emit(map[string]interface{}{"ev": "Mono", "data": world.TagJSON(monoRes["data"])})
	}
	st, env, err := g.Do(op)
	plans, qcalls := g.Snapshot()
	logs, calls := g.Net.Snapshot()
	if len(plans) > 0 {
		p := plans[len(plans)-1]
		steps := []map[string]interface{}{}
		for _, st := range p.Flat() {
			ip := st.InsertionPoint
			if ip == nil {
				ip = []string{}
			}
			steps = append(steps, map[string]interface{}{"url": st.URL, "parentType": st.ParentType, "ip": ip, "depth": st.Depth,
				"internal": st.Internal, "query": st.Query, "facts": st.Facts})
		}
		scrub := map[string]interface{}{}
		for k, v := range p.Scrub {
			scrub[k] = v
		}
		em.emit(map[string]interface{}{"ev": "Plan", "levels": levels(p), "err": p.Err, "nsteps": len(p.Roots), "steps": steps, "scrub": scrub})
	}
	for _, qc := range qcalls {
		em.emit(map[string]interface{}{"ev": "QCall", "svc": qc.URL, "n": qc.N, "dup": qc.Dup})
	}
	for _, c := range calls {
		ce := callEv{Ev: "Call", Svc: c.Svc, Call: c.Call, N: c.Batch, Reqs: []map[string]interface{}{}}
		seen := map[string]bool{}
		for _, l := range logs {
			if l.Svc != c.Svc || l.Call != c.Call {
				continue
			}
			if len(l.Vars) == 1 {
				if id, ok := l.Vars["id"]; ok {
					k := fmt.Sprintf("%v|%s", id, l.Query)
					if seen[k] {
						ce.Dup = true
					}
					seen[k] = true
				}
			}
			sort.Strings(l.Used)
			undeclared := []string{}
			for _, u := range l.Used {
				if _, ok := l.Declared[u]; !ok {
					undeclared = append(undeclared, u)
				}
			}
			if l.Used == nil {
				l.Used = []string{}
			}
			roots := l.Roots
			if roots == nil {
				roots = []fakesvc.RootSel{}
			}
			ce.Reqs = append(ce.Reqs, map[string]interface{}{
				"kw": l.Kw, "parses": l.Parses, "validates": l.Validates, "err": l.Err, "roots": roots,
				"undeclared": undeclared, "query": l.Query, "passed": l.Passed, "defaults": l.Defaults, "used": l.Used, "inPlan": inPlan(plans, l.Svc, l.Query),
			})
		}
		em.emit(ce)
	}
	if err != nil {
		em.emit(map[string]interface{}{"ev": "Resp", "status": st, "wellformed": false, "data": world.Z(), "errors": []interface{}{err.Error()}, "hasData": false})
		return true
	}
	_, hasData := env["data"]
	em.emit(map[string]interface{}{"ev": "Resp", "status": st, "wellformed": true, "data": world.TagJSON(env["data"]), "errors": errorMessages(env), "hasData": hasData})
	return true
}

func worldEvent(w *world.World) map[string]interface{} {
	w.Fill()
	svcs := []interface{}{}
	for _, s := range w.Services {
		svcs = append(svcs, map[string]interface{}{"url": s.URL, "decl": s.Decl})
	}
	return map[string]interface{}{"ev": "World", "id": w.ID, "types": w.Types, "ents": w.Ents, "roots": w.Roots, "services": svcs, "tags": w.Tags}
}

func cmdGen(args []string) {
	fs := flag.NewFlagSet("gen", flag.ExitOnError)
	seed := fs.Int64("seed", 1, "")
	worlds := fs.Int("worlds", 10, "")
	ops := fs.Int("ops", 10, "")
	out := fs.String("out", "", "")
	feat := fs.String("features", "", "comma separated: abstract,disjoint,oddids,biglists,nomut")
	cfgs := fs.String("cfgs", "default", "comma separated gateway configurations: default,sanitize,idhint,cached,batch1,batch2")
	dump := fs.String("dump", "", "directory to dump SDLs of failing-to-start worlds")
	fs.Parse(args)
	em, closef := newEmitter(*out)
	defer closef()
	rng := rand.New(rand.NewSource(*seed))
	cfg := world.DefaultCfg()
	for _, f := range strings.Split(*feat, ",") {
		switch f {
		case "abstract":
			cfg.Abstract = true
		case "disjoint":
			cfg.DisjointValue = true
		case "oddids":
			cfg.OddIDs = true
		case "biglists":
			cfg.BigLists = true
		case "nomut":
			cfg.Mutations = false
		default:
			if strings.HasPrefix(f, "no") {
				if cfg.Off == nil {
					cfg.Off = map[string]bool{}
				}
				cfg.Off[f[2:]] = true
			}
		}
	}
	for wi := 0; wi < *worlds; wi++ {
		w := world.Gen(rng, cfg, int(*seed)*100000+wi)
		mono, err := fakesvc.NewNet(monolith(w))
		if err != nil {
			em.emit(map[string]interface{}{"ev": "HarnessError", "what": err.Error()})
			continue
		}
		em.emit(worldEvent(w))
		var gws []*gw.GW
		for _, cn := range strings.Split(*cfgs, ",") {
			c := gwConfig(cn)
			g, err := gw.New(w, c)
			if err != nil {
				em.emit(map[string]interface{}{"ev": "StartFailed", "cfg": cn, "err": err.Error()})
				if *dump != "" {
					for _, s := range w.Services {
						os.WriteFile(fmt.Sprintf("%s/w%d-%s.graphql", *dump, w.ID, strings.TrimPrefix(s.URL, "http://")), []byte(w.ServiceSDL(s)), 0644)
					}
				}
				continue
			}
			gws = append(gws, g)
		}
		var prev *world.Op
		for k := 0; k < *ops; k++ {
			kind := "query"
			if w.Types["Mutation"] != nil && (rng.Intn(5) == 0 || cfg.Off["queries"]) {
				kind = "mutation"
			}
			op := world.GenOp(rng, w, cfg, kind)
			if prev != nil && rng.Intn(8) == 0 {
				op = prev // the same operation again (plan reuse, de-duplication bookkeeping)
			}
			prev = op
			for gi, g := range gws {
				var m *fakesvc.Net
				if gi == 0 {
					m = mono
				}
				if !runOp(em, g, m, w, op, fmt.Sprintf("%d.%d.%s", w.ID, k, g.Cfg.Name)) {
					break
				}
			}
		}
	}
}

func gwConfig(cn string) gw.Config {
	c := gw.Config{Name: cn}
	switch cn {
	case "sanitize":
		c.SanitizeNode = true
	case "idhint":
		c.IDHint = true
	case "cached":
		c.Cached = true
	case "batch1":
		c.BatchSize = 1
	case "batch2":
		c.BatchSize = 2
	case "realintro":
		c.RealIntro = true
	}
	return c
}

type caseIn struct {
	World *world.World `json:"world"`
	Ops   []*world.Op  `json:"ops"`
	Cfgs  []string     `json:"cfgs"`
}

// cmdRun executes cases given explicitly (enumerated by TLC, or pinned known findings).
func cmdRun(args []string) {
	fs := flag.NewFlagSet("run", flag.ExitOnError)
	in := fs.String("in", "", "")
	out := fs.String("out", "", "")
	fs.Parse(args)
	f, err := os.Open(*in)
	if err != nil {
		panic(err)
	}
	defer f.Close()
	em, closef := newEmitter(*out)
	defer closef()
	sc := bufio.NewScanner(f)
	sc.Buffer(make([]byte, 1<<20), 1<<28)
	for sc.Scan() {
		var c caseIn
		if err := json.Unmarshal(sc.Bytes(), &c); err != nil {
			panic(err)
		}
		w := c.World
		mono, err := fakesvc.NewNet(monolith(w))
		if err != nil {
			em.emit(map[string]interface{}{"ev": "HarnessError", "what": err.Error()})
			continue
		}
		em.emit(worldEvent(w))
		if len(c.Cfgs) == 0 {
			c.Cfgs = []string{"default"}
		}
		var gws []*gw.GW
		for _, cn := range c.Cfgs {
			g, err := gw.New(w, gwConfig(cn))
			if err != nil {
				em.emit(map[string]interface{}{"ev": "StartFailed", "cfg": cn, "err": err.Error()})
				continue
			}
			gws = append(gws, g)
		}
		for k, op := range c.Ops {
			for gi, g := range gws {
				var m *fakesvc.Net
				if gi == 0 {
					m = mono
				}
				if !runOp(em, g, m, w, op, fmt.Sprintf("%d.%d.%s", w.ID, k, g.Cfg.Name)) {
					break
				}
			}
		}
	}
}

func main() {
	if len(os.Args) < 2 {
		os.Exit(2)
	}
	switch os.Args[1] {
	case "run":
		cmdRun(os.Args[2:])
	case "gen":
		cmdGen(os.Args[2:])
	default:
		os.Exit(2)
	}
}
