// fed drives the real gateway over generated (or TLC-enumerated) worlds and operations and
// records the traces that spec/FederationTrace.tla validates (C01, C02, C06, C12, C13, ...).
//
//	fed gen  -seed S -worlds W -ops K -out trace.ndjson [-features ...]
//	fed run  -in cases.ndjson -out trace.ndjson         cases enumerated by TLC
package main

import (
	"bufio"
	"encoding/json"
	"flag"
	"fmt"
	"math/rand"
	"os"
	"runtime"
	"sort"
	"strings"
	"sync"
	"sync/atomic"
	"time"

	"github.com/buildbuildio/pebbles/common"

	"verifharness/fakesvc"
	"verifharness/gw"
	"verifharness/world"
)

type emitter struct {
	w   *bufio.Writer
	enc *json.Encoder
}

func newEmitter(path string) (*emitter, func()) {
	f, err := os.Create(path)
	if err != nil {
		panic(err)
	}
	bw := bufio.NewWriterSize(f, 1<<20)
	return &emitter{w: bw, enc: json.NewEncoder(bw)}, func() { bw.Flush(); f.Close() }
}

func (e *emitter) emit(v interface{}) {
	if err := e.enc.Encode(v); err != nil {
		panic(err)
	}
}

// monolith returns a copy of the world served by ONE service that declares everything: the
// harness's own evaluator on it is cross-checked against the specification's Ref (R7).
func monolith(w *world.World) *world.World {
	m := *w
	decl := map[string][]string{}
	for t, td := range w.Types {
		decl[t] = append([]string{}, td.Order...)
	}
	m.Services = []*world.Service{{URL: "http://mono.test", Decl: decl}}
	return &m
}

func levels(p *gw.PlanRec) map[string]int {
	lv := map[string]map[int]bool{}
	var walk func(s *gw.StepRec, d int)
	walk = func(s *gw.StepRec, d int) {
		if lv[s.URL] == nil {
			lv[s.URL] = map[int]bool{}
		}
		lv[s.URL][d] = true
		for _, t := range s.Then {
			walk(t, d+1)
		}
	}
	for _, r := range p.Roots {
		walk(r, 0)
	}
	out := map[string]int{}
	for u, ds := range lv {
		out[u] = len(ds)
	}
	return out
}

func errorMessages(env map[string]interface{}) []interface{} {
	out := []interface{}{}
	if es, ok := env["errors"].([]interface{}); ok {
		for _, e := range es {
			if m, ok := e.(map[string]interface{}); ok {
				out = append(out, fmt.Sprintf("%v", m["message"]))
			} else {
				out = append(out, fmt.Sprintf("%v", e))
			}
		}
	}
	return out
}

func inPlan(plans []*gw.PlanRec, url, query string) bool {
	if len(plans) == 0 {
		return false
	}
	for _, st := range plans[len(plans)-1].Flat() {
		if st.URL == url && st.Query == query {
			return true
		}
	}
	return false
}

func canon(v interface{}) string {
	if v == nil {
		return ""
	}
	b, _ := json.Marshal(v) // encoding/json sorts map keys
	return string(b)
}

func errorsFull(es []interface{}) []interface{} {
	out := []interface{}{}
	for _, e := range es {
		if m, ok := e.(map[string]interface{}); ok {
			out = append(out, map[string]interface{}{"message": fmt.Sprintf("%v", m["message"]), "ext": canon(m["extensions"]), "path": canon(m["path"])})
		}
	}
	return out
}

type callEv struct {
	Ev     string                   `json:"ev"`
	Svc    string                   `json:"svc"`
	Call   int                      `json:"call"`
	N      int                      `json:"n"`
	Dup    bool                     `json:"dup"`
	Reqs   []map[string]interface{} `json:"reqs"`
	Leaves []string                 `json:"leaves"`
}

// runOp sends one operation through a gateway and emits Req / Plan / Call / Resp events.
type runOpts struct {
	fault *fakesvc.FaultSpec
	text  string // send this text instead of the rendered operation (invalid operations, C10)
	inv   string // kind of invalidity
}

func runOp(em *emitter, g *gw.GW, mono *fakesvc.Net, w *world.World, op *world.Op, run string) bool {
	return runOpWith(em, g, mono, w, op, run, runOpts{})
}

func runOpWith(em *emitter, g *gw.GW, mono *fakesvc.Net, w *world.World, op *world.Op, run string, o runOpts) bool {
	op.Fill()
	g.ResetLogs()
	text := w.DocText(op)
	// R7: the harness's own evaluator on the merged world (one service declaring everything); an
	// operation it does not accept is a generator reject, not a case
	var monoRes map[string]interface{}
	if mono != nil {
		svc := mono.Service("http://mono.test")
		res, lg := fakesvc.AnswerFor(svc, text, op.VarsToGo(), op.Name)
		if !lg.Validates {
			em.emit(map[string]interface{}{"ev": "GenInvalid", "err": lg.Err, "text": text})
			return false
		}
		monoRes = res
	}
	reqEv := map[string]interface{}{"ev": "Req", "run": run, "op": op, "cfg": g.Cfg.Name, "text": text, "invalid": o.inv}
	if o.text != "" {
		reqEv["text"] = o.text
	}
	em.emit(reqEv)
	if monoRes != nil && o.text == "" {
		em.emit(map[string]interface{}{"ev": "Mono", "data": world.TagJSON(monoRes["data"])})
	}
	applied := false
	if o.fault != nil {
		g.Net.Fault = o.fault.Apply(&applied)
	}
	em.w.Flush() // a crash of the gateway is attributed to the last Req line
	type doRes struct {
		st  int
		env map[string]interface{}
		err error
	}
	ch := make(chan doRes, 1)
	go func() {
		var r doRes
		if o.text != "" {
			r.st, r.env, r.err = g.DoText(o.text, op.VarsToGo(), op.Name)
		} else {
			r.st, r.env, r.err = g.Do(op)
		}
		ch <- r
	}()
	var st int
	var env map[string]interface{}
	var err error
	select {
	case r := <-ch:
		st, env, err = r.st, r.env, r.err
	case <-time.After(20 * time.Second):
		em.emit(map[string]interface{}{"ev": "Hang", "stacks": stacks()})
		em.w.Flush()
		os.Exit(3)
	}
	g.Net.Fault = nil
	plans, qcalls := g.Snapshot()
	logs, calls := g.Net.Snapshot()
	if len(plans) > 0 {
		p := plans[len(plans)-1]
		steps := []map[string]interface{}{}
		for _, st := range p.Flat() {
			ip := st.InsertionPoint
			if ip == nil {
				ip = []string{}
			}
			steps = append(steps, map[string]interface{}{"url": st.URL, "parentType": st.ParentType, "ip": ip, "depth": st.Depth,
				"internal": st.Internal, "query": st.Query, "facts": st.Facts})
		}
		scrub := map[string]interface{}{}
		for k, v := range p.Scrub {
			scrub[k] = v
		}
		em.emit(map[string]interface{}{"ev": "Plan", "levels": levels(p), "err": p.Err, "nsteps": len(p.Roots), "steps": steps, "scrub": scrub})
	}
	for _, qc := range qcalls {
		em.emit(map[string]interface{}{"ev": "QCall", "svc": qc.URL, "n": qc.N, "dup": qc.Dup})
	}
	for _, c := range calls {
		ce := callEv{Ev: "Call", Svc: c.Svc, Call: c.Call, N: c.Batch, Reqs: []map[string]interface{}{}, Leaves: c.Leaves}
		if ce.Leaves == nil {
			ce.Leaves = []string{}
		}
		seen := map[string]bool{}
		for _, l := range logs {
			if l.Svc != c.Svc || l.Call != c.Call {
				continue
			}
			if len(l.Vars) == 1 {
				if id, ok := l.Vars["id"]; ok {
					k := fmt.Sprintf("%v|%s", id, l.Query)
					if seen[k] {
						ce.Dup = true
					}
					seen[k] = true
				}
			}
			sort.Strings(l.Used)
			undeclared := []string{}
			for _, u := range l.Used {
				if _, ok := l.Declared[u]; !ok {
					undeclared = append(undeclared, u)
				}
			}
			if l.Used == nil {
				l.Used = []string{}
			}
			roots := l.Roots
			if roots == nil {
				roots = []fakesvc.RootSel{}
			}
			ce.Reqs = append(ce.Reqs, map[string]interface{}{
				"kw": l.Kw, "parses": l.Parses, "validates": l.Validates, "err": l.Err, "roots": roots,
				"undeclared": undeclared, "query": l.Query, "passed": l.Passed, "defaults": l.Defaults, "used": l.Used, "inPlan": inPlan(plans, l.Svc, l.Query),
			})
		}
		em.emit(ce)
	}
	if o.fault != nil && applied {
		es := []interface{}{}
		if o.fault.Kind == "errorsall" {
			_, cls := g.Net.Snapshot()
			n := 1
			for _, c := range cls {
				if c.Svc == o.fault.Svc && c.Call == o.fault.Call {
					n = c.Batch
				}
			}
			for i := 0; i < n; i++ {
				for k, e := range o.fault.Errors {
					c := map[string]interface{}{}
					for kk, vv := range e {
						c[kk] = vv
					}
					c["message"] = fmt.Sprintf("%v [request %d of the batch, error %d]", e["message"], i, k)
					es = append(es, c)
				}
			}
		} else {
			for _, e := range o.fault.Errors {
				es = append(es, e)
			}
		}
		em.emit(map[string]interface{}{"ev": "Fault", "kind": o.fault.Kind, "svc": o.fault.Svc, "call": o.fault.Call, "pos": o.fault.Pos,
			"signal": fakesvc.FailureSignals[o.fault.Kind], "payload": errorsFull(es)})
	}
	if err != nil {
		em.emit(map[string]interface{}{"ev": "Resp", "status": st, "wellformed": false, "data": world.Z(), "errors": []interface{}{err.Error()}, "hasData": false,
			"errorsFull": []interface{}{}, "leaves": []string{}})
		return true
	}
	_, hasData := env["data"]
	esFull := []interface{}{}
	if es, ok := env["errors"].([]interface{}); ok {
		esFull = errorsFull(es)
	}
	lv := map[string]bool{}
	fakesvc.ScalarLeaves(env["data"], lv)
	leaves := []string{}
	for k := range lv {
		leaves = append(leaves, k)
	}
	sort.Strings(leaves)
	wellformed := true
	for k := range env {
		if k != "data" && k != "errors" {
			wellformed = false
		}
	}
	if _, hasErr := env["errors"]; !hasData && !hasErr {
		wellformed = false
	}
	em.emit(map[string]interface{}{"ev": "Resp", "status": st, "wellformed": wellformed, "data": world.TagJSON(env["data"]), "errors": errorMessages(env), "hasData": hasData,
		"errorsFull": esFull, "leaves": leaves})
	return true
}

func worldEvent(w *world.World) map[string]interface{} {
	w.Fill()
	svcs := []interface{}{}
	for _, s := range w.Services {
		svcs = append(svcs, map[string]interface{}{"url": s.URL, "decl": s.Decl})
	}
	return map[string]interface{}{"ev": "World", "id": w.ID, "types": w.Types, "ents": w.Ents, "roots": w.Roots, "services": svcs, "tags": w.Tags}
}

func stacks() string {
	buf := make([]byte, 1<<20)
	return string(buf[:runtime.Stack(buf, true)])
}

func genErrors(rng *rand.Rand) []map[string]interface{} {
	n := 1 + rng.Intn(3)
	var out []map[string]interface{}
	same := rng.Intn(3) == 0 // several errors with ONE message (they differ in extensions / path only)
	base := rng.Intn(1000)
	for i := 0; i < n; i++ {
		e := map[string]interface{}{"message": fmt.Sprintf("downstream failure %d-%d", base, i)}
		if same {
			e["message"] = fmt.Sprintf("downstream failure %d", base)
			e["extensions"] = map[string]interface{}{"code": "SAME_MESSAGE", "which": i}
		}
		if rng.Intn(2) == 0 {
			e["extensions"] = map[string]interface{}{"code": []string{"FORBIDDEN", "NOT_FOUND", "X"}[rng.Intn(3)], "n": rng.Intn(5), "nested": map[string]interface{}{"a": true}}
		}
		if rng.Intn(2) == 0 {
			e["path"] = []interface{}{"node", "f" + fmt.Sprint(rng.Intn(3)), rng.Intn(3)}
		}
		if rng.Intn(3) == 0 {
			e["locations"] = []interface{}{map[string]interface{}{"line": 1 + rng.Intn(5), "column": 1 + rng.Intn(20)}}
		}
		out = append(out, e)
	}
	return out
}

// repeatRuns executes the same operation several times on the same gateway (and with the same
// fault plan) while the fake transport perturbs the completion order of the concurrent calls, and
// emits one Obs event per execution (C13).
func repeatRuns(em *emitter, rng *rand.Rand, g *gw.GW, w *world.World, op *world.Op, run string, repeats int) {
	op.Fill()
	var fault *fakesvc.FaultSpec
	g.ResetLogs()
	dst, denv, derr := g.Do(op)
	dryLogs, calls := g.Net.Snapshot()
	if len(calls) > 0 && rng.Intn(2) == 0 {
		// the fault is tied to ONE sub-request by identity, so that the service answers the same way
		// whatever position the request has in its batch
		tl := dryLogs[rng.Intn(len(dryLogs))]
		c := calls[0]
		for _, x := range calls {
			if x.Svc == tl.Svc && x.Call == tl.Call {
				c = x
			}
		}
		kind := fakesvc.AllFaultKinds[rng.Intn(len(fakesvc.AllFaultKinds))]
		for kind == "tooshort" || kind == "toolong" { // these depend on the order of the batch
			kind = fakesvc.AllFaultKinds[rng.Intn(len(fakesvc.AllFaultKinds))]
		}
		if rng.Intn(2) == 0 {
			// entities a service does not know (node: null) leave objects that hold nothing but helper fields:
			// whether and how they are pruned must not depend on iteration order
			kind = []string{"nodenull", "nodenullall"}[rng.Intn(2)]
		}
		fault = &fakesvc.FaultSpec{Kind: kind, Svc: c.Svc, Call: c.Call, Pos: tl.Pos, Match: fakesvc.Identity(tl.Query, tl.Vars)}
		if kind == "errors" || kind == "errorsall" || kind == "errorswithdata" {
			fault.Errors = genErrors(rng)
		}
	}
	sparse := 0
	if fault == nil && len(calls) > 1 && rng.Intn(2) == 0 {
		sparse = 1 + rng.Intn(1000)
	}
	key := run
	if fault != nil {
		key += fmt.Sprintf("|%s@%s#%d.%d", fault.Kind, fault.Svc, fault.Call, fault.Pos)
	}
	if sparse != 0 {
		key += fmt.Sprintf("|sparse%d", sparse)
		repeats *= 2
	}
	delays := rand.New(rand.NewSource(rng.Int63()))
	var dmu sync.Mutex
	if fault != nil && strings.HasPrefix(fault.Kind, "nodenull") {
		repeats *= 3
	}
	emitObs := func(k int, st int, env map[string]interface{}, err error, logs []*fakesvc.ReqLog) {
		reqs := map[string][]string{}
		for _, s := range w.Services {
			reqs[s.URL] = []string{}
		}
		for _, lgx := range logs {
			reqs[lgx.Svc] = append(reqs[lgx.Svc], lgx.Query+" | "+canon(lgx.Vars))
		}
		for u := range reqs {
			sort.Strings(reqs[u])
		}
		msgs := []string{}
		data := world.Z()
		if err != nil {
			msgs = []string{"malformed response: " + err.Error()}
		} else {
			seen := map[string]bool{}
			for _, m := range errorMessages(env) {
				if !seen[m.(string)] {
					seen[m.(string)] = true
					msgs = append(msgs, m.(string))
				}
			}
			sort.Strings(msgs)
			data = world.TagJSON(env["data"])
		}
		em.emit(map[string]interface{}{"ev": "Obs", "key": key, "k": k, "status": st, "data": data, "errors": msgs, "reqs": reqs, "text": w.OpText(op),
			"tags": op.Tags, "fault": fault != nil || sparse != 0, "op": op})
	}
	if fault == nil && sparse == 0 {
		// the first execution on this gateway is the one that learnt the calls: it counts (a caching planner hands the
		// plan it left behind to every later execution - what the first request did to it must not show)
		emitObs(-1, dst, denv, derr, dryLogs)
	}
	for k := 0; k < repeats; k++ {
		g.ResetLogs()
		applied := false
		if fault != nil {
			g.Net.Fault = fault.Apply(&applied)
		}
		if sparse != 0 {
			g.Net.Fault = fakesvc.SparseFault(sparse, &applied)
		}
		g.Net.Gate = func(svc string, call int) {
			dmu.Lock()
			d := time.Duration(delays.Intn(300)) * time.Microsecond
			dmu.Unlock()
			if d > 100*time.Microsecond {
				time.Sleep(d)
			} else {
				runtime.Gosched()
			}
		}
		em.w.Flush()
		st, env, err := g.Do(op)
		g.Net.Fault = nil
		g.Net.Gate = nil
		logs, _ := g.Net.Snapshot()
		emitObs(k, st, env, err, logs)
	}
}

// ---------------------------------------------------------------------------- forced completion orders

var reducedCount int64 // r.reduced events of every AsyncMapReduce instance (verif hook)

func installReduceCounter() {
	common.VerifHook.Store(func(id uint64, point string, kv ...interface{}) {
		if point == "r.reduced" || point == "r.erred" {
			atomic.AddInt64(&reducedCount, 1)
		}
	})
}

type pendingCall struct {
	svc     string
	call    int
	release chan struct{}
}

// orderRuns executes the operation once per chosen completion order of the concurrent calls of each
// depth (spec/ExecMerge.tla enumerates the orders): every call to a service is held at the fake
// transport; when no further call arrives, the calls of that wave are let go one at a time in the
// chosen order, the next one only after the executor has merged the previous result.
func orderRuns(em *emitter, rng *rand.Rand, g *gw.GW, w *world.World, op *world.Op, run string, orders map[int][][]int) {
	op.Fill()
	g.ResetLogs()
	g.Do(op)
	_, calls := g.Net.Snapshot()
	if len(calls) < 2 {
		return
	}
	const variants = 6
	for v := 0; v < variants; v++ {
		var mu sync.Mutex
		var pending []*pendingCall
		arrivals := 0
		g.ResetLogs()
		g.Net.Gate = func(svc string, call int) {
			pc := &pendingCall{svc: svc, call: call, release: make(chan struct{})}
			mu.Lock()
			pending = append(pending, pc)
			arrivals++
			mu.Unlock()
			<-pc.release
		}
		type doRes struct {
			st  int
			env map[string]interface{}
			err error
		}
		done := make(chan doRes, 1)
		go func() {
			st, env, err := g.Do(op)
			done <- doRes{st, env, err}
		}()
		var res doRes
		finished := false
		waves := []int{}
		deadline := time.Now().Add(20 * time.Second)
		for !finished && time.Now().Before(deadline) {
			// a wave: wait until calls are pending and no new one has arrived for a while
			last, stable := -1, time.Now()
			for {
				select {
				case res = <-done:
					finished = true
				default:
				}
				if finished {
					break
				}
				mu.Lock()
				n := arrivals
				np := len(pending)
				mu.Unlock()
				if n != last {
					last, stable = n, time.Now()
				}
				if np > 0 && time.Since(stable) > 1500*time.Microsecond {
					break
				}
				time.Sleep(100 * time.Microsecond)
			}
			if finished {
				break
			}
			mu.Lock()
			wave := pending
			pending = nil
			mu.Unlock()
			// the calls of a wave in a canonical order (service url), then permuted
			sort.Slice(wave, func(i, j int) bool { return wave[i].svc < wave[j].svc })
			perm := make([]int, len(wave))
			for i := range perm {
				perm[i] = i
			}
			if ps := orders[len(wave)]; len(ps) > 0 {
				switch v {
				case 0:
				case 1:
					perm = ps[len(ps)-1]
				default:
					perm = ps[rng.Intn(len(ps))]
				}
			} else if v > 0 {
				rng.Shuffle(len(perm), func(i, j int) { perm[i], perm[j] = perm[j], perm[i] })
			}
			waves = append(waves, len(wave))
			for _, i := range perm {
				before := atomic.LoadInt64(&reducedCount)
				close(wave[i].release)
				// the result is merged (the per-call and the per-depth fan-out have both reduced) before the next one goes
				t0 := time.Now()
				for atomic.LoadInt64(&reducedCount) < before+2 && time.Since(t0) < 3*time.Millisecond {
					time.Sleep(50 * time.Microsecond)
				}
			}
		}
		g.Net.Gate = nil
		if !finished {
			em.emit(map[string]interface{}{"ev": "Hang", "stacks": stacks()})
			em.w.Flush()
			os.Exit(3)
		}
		logs, _ := g.Net.Snapshot()
		reqs := map[string][]string{}
		for _, s := range w.Services {
			reqs[s.URL] = []string{}
		}
		for _, lgx := range logs {
			reqs[lgx.Svc] = append(reqs[lgx.Svc], lgx.Query+" | "+canon(lgx.Vars))
		}
		for u := range reqs {
			sort.Strings(reqs[u])
		}
		msgs := []string{}
		data := world.Z()
		if res.err != nil {
			msgs = []string{"malformed response: " + res.err.Error()}
		} else {
			seen := map[string]bool{}
			for _, m := range errorMessages(res.env) {
				if !seen[m.(string)] {
					seen[m.(string)] = true
					msgs = append(msgs, m.(string))
				}
			}
			sort.Strings(msgs)
			data = world.TagJSON(res.env["data"])
		}
		em.emit(map[string]interface{}{"ev": "Obs", "key": run + "|orders", "k": v, "status": res.st, "data": data, "errors": msgs, "reqs": reqs, "text": w.OpText(op),
			"tags": op.Tags, "fault": false, "op": op, "waves": waves})
	}
}

// faultRuns: a fault-free run (to learn which calls the operation makes), then the same operation
// with ONE fault injected at a chosen (service, call, position), then a fault-free canary.
func faultRuns(em *emitter, rng *rand.Rand, g *gw.GW, mono *fakesvc.Net, w *world.World, op *world.Op, run string) {
	if !runOp(em, g, mono, w, op, run+".dry") {
		return
	}
	_, calls := g.Net.Snapshot()
	if len(calls) == 0 {
		return
	}
	nf := 1
	if rng.Intn(4) == 0 {
		nf = 2
	}
	for k := 0; k < nf; k++ {
		c := calls[rng.Intn(len(calls))]
		kind := fakesvc.AllFaultKinds[rng.Intn(len(fakesvc.AllFaultKinds))]
		f := &fakesvc.FaultSpec{Kind: kind, Svc: c.Svc, Call: c.Call, Pos: rng.Intn(c.Batch)}
		if kind == "errors" || kind == "errorsall" || kind == "errorswithdata" {
			f.Errors = genErrors(rng)
		}
		runOpWith(em, g, nil, w, op, fmt.Sprintf("%s.fault%d", run, k), runOpts{fault: f})
	}
	runOp(em, g, nil, w, op, run+".canary")
}

func cmdGen(args []string) {
	fs := flag.NewFlagSet("gen", flag.ExitOnError)
	seed := fs.Int64("seed", 1, "")
	worlds := fs.Int("worlds", 10, "")
	ops := fs.Int("ops", 10, "")
	out := fs.String("out", "", "")
	feat := fs.String("features", "", "comma separated: abstract,disjoint,oddids,biglists,nomut")
	cfgs := fs.String("cfgs", "default", "comma separated gateway configurations: default,sanitize,idhint,cached,batch1,batch2")
	dump := fs.String("dump", "", "directory to dump SDLs of failing-to-start worlds")
	mode := fs.String("mode", "plain", "plain | faults | invalid | repeat")
	repeats := fs.Int("repeats", 6, "executions per operation in repeat mode")
	ordersFile := fs.String("orders", "", "completion orders enumerated by TLC (ndjson of {order: [...]}), for mode orders")
	fs.Parse(args)
	orders := map[int][][]int{}
	if *ordersFile != "" {
		f, err := os.Open(*ordersFile)
		if err != nil {
			panic(err)
		}
		sc := bufio.NewScanner(f)
		for sc.Scan() {
			var o struct {
				Order []int `json:"order"`
			}
			if json.Unmarshal(sc.Bytes(), &o) == nil && len(o.Order) > 0 {
				p := make([]int, len(o.Order))
				for i, x := range o.Order {
					p[i] = x - 1
				}
				orders[len(p)] = append(orders[len(p)], p)
			}
		}
		f.Close()
		installReduceCounter()
	}
	em, closef := newEmitter(*out)
	defer closef()
	rng := rand.New(rand.NewSource(*seed))
	cfg := world.DefaultCfg()
	for _, f := range strings.Split(*feat, ",") {
		switch f {
		case "abstract":
			cfg.Abstract = true
		case "disjoint":
			cfg.DisjointValue = true
		case "oddids":
			cfg.OddIDs = true
		case "biglists":
			cfg.BigLists = true
		case "richargs":
			cfg.RichArgs = true
		case "rootnode":
			cfg.RootNode = true
		case "skeleton":
			cfg.Skeleton = true
		case "nestedlists":
			cfg.NestedLists = true
		case "wide":
			cfg.Wide = true
		case "varid":
			cfg.VarID = true
		case "chain":
			cfg.Chain = true
			cfg.Mutations = false
		case "nomut":
			cfg.Mutations = false
		default:
			if strings.HasPrefix(f, "no") {
				if cfg.Off == nil {
					cfg.Off = map[string]bool{}
				}
				cfg.Off[f[2:]] = true
			}
		}
	}
	for wi := 0; wi < *worlds; wi++ {
		w := world.Gen(rng, cfg, int(*seed)*100000+wi)
		mono, err := fakesvc.NewNet(monolith(w))
		if err != nil {
			em.emit(map[string]interface{}{"ev": "HarnessError", "what": err.Error()})
			continue
		}
		em.emit(worldEvent(w))
		var gws []*gw.GW
		for _, cn := range strings.Split(*cfgs, ",") {
			c := gwConfig(cn)
			g, err := gw.New(w, c)
			if err != nil {
				em.emit(map[string]interface{}{"ev": "StartFailed", "cfg": cn, "err": err.Error()})
				if *dump != "" {
					for _, s := range w.Services {
						os.WriteFile(fmt.Sprintf("%s/w%d-%s.graphql", *dump, w.ID, strings.TrimPrefix(s.URL, "http://")), []byte(w.ServiceSDL(s)), 0644)
					}
				}
				continue
			}
			gws = append(gws, g)
		}
		var prev *world.Op
		for k := 0; k < *ops; k++ {
			kind := "query"
			if w.Types["Mutation"] != nil && (rng.Intn(5) == 0 || cfg.Off["queries"]) {
				kind = "mutation"
			}
			op := world.GenOp(rng, w, cfg, kind)
			if prev != nil && rng.Intn(8) == 0 {
				op = prev // the same operation again (plan reuse, de-duplication bookkeeping)
			}
			prev = op
			todo := []*world.Op{op}
			if *mode == "plain" && op.Doc == "" && rng.Intn(7) == 0 {
				// two operations in ONE document, posted twice with different operationName
				cfg2 := cfg
				cfg2.FragBase = 100
				op2 := world.GenOp(rng, w, cfg2, kind)
				op.Name, op2.Name = fmt.Sprintf("DocA%d", k), fmt.Sprintf("DocB%d", k)
				op.Fill()
				op2.Fill()
				doc := w.OpText(op) + w.OpText(op2)
				op.Doc, op2.Doc = doc, doc
				op.Tags = append(op.Tags, "multi-op-doc")
				op2.Tags = append(op2.Tags, "multi-op-doc")
				todo = append(todo, op2)
			}
			for _, op := range todo {
				for gi, g := range gws {
					var m *fakesvc.Net
					if gi == 0 {
						m = mono
					}
					run := fmt.Sprintf("%d.%d.%s", w.ID, k, g.Cfg.Name)
					switch *mode {
					case "faults":
						faultRuns(em, rng, g, m, w, op, run)
					case "repeat":
						repeatRuns(em, rng, g, w, op, run, *repeats)
					case "orders":
						orderRuns(em, rng, g, w, op, run, orders)
					case "invalid":
						invalidRuns(em, rng, g, mono, w, op, run)
					default:
						if !runOp(em, g, m, w, op, run) {
							break
						}
						if g.Cfg.Cached {
							// once more, now served from the plan cache: the plan the first execution left there is judged too
							runOp(em, g, nil, w, op, run+".again")
						}
					}
				}
			}
		}
	}
}

func gwConfig(cn string) gw.Config {
	c := gw.Config{Name: cn}
	switch cn {
	case "sanitize":
		c.SanitizeNode = true
	case "idhint":
		c.IDHint = true
	case "cached":
		c.Cached = true
	case "batch1":
		c.BatchSize = 1
	case "batch2":
		c.BatchSize = 2
	case "realintro":
		c.RealIntro = true
	}
	return c
}

type caseIn struct {
	World *world.World `json:"world"`
	Ops   []*world.Op  `json:"ops"`
	Cfgs  []string     `json:"cfgs"`
}

// cmdRun executes cases given explicitly (enumerated by TLC, or pinned known findings).
func cmdRun(args []string) {
	fs := flag.NewFlagSet("run", flag.ExitOnError)
	in := fs.String("in", "", "")
	out := fs.String("out", "", "")
	fs.Parse(args)
	f, err := os.Open(*in)
	if err != nil {
		panic(err)
	}
	defer f.Close()
	em, closef := newEmitter(*out)
	defer closef()
	sc := bufio.NewScanner(f)
	sc.Buffer(make([]byte, 1<<20), 1<<28)
	for sc.Scan() {
		var c caseIn
		if err := json.Unmarshal(sc.Bytes(), &c); err != nil {
			panic(err)
		}
		w := c.World
		w.RetagWorld() // cases pinned before scalars got their type tag
		mono, err := fakesvc.NewNet(monolith(w))
		if err != nil {
			em.emit(map[string]interface{}{"ev": "HarnessError", "what": err.Error()})
			continue
		}
		em.emit(worldEvent(w))
		if len(c.Cfgs) == 0 {
			c.Cfgs = []string{"default"}
		}
		var gws []*gw.GW
		for _, cn := range c.Cfgs {
			g, err := gw.New(w, gwConfig(cn))
			if err != nil {
				em.emit(map[string]interface{}{"ev": "StartFailed", "cfg": cn, "err": err.Error()})
				continue
			}
			gws = append(gws, g)
		}
		for k, op := range c.Ops {
			for gi, g := range gws {
				var m *fakesvc.Net
				if gi == 0 {
					m = mono
				}
				if !runOp(em, g, m, w, op, fmt.Sprintf("%d.%d.%s", w.ID, k, g.Cfg.Name)) {
					break
				}
			}
		}
	}
}

func main() {
	if len(os.Args) < 2 {
		os.Exit(2)
	}
	switch os.Args[1] {
	case "run":
		cmdRun(os.Args[2:])
	case "gen":
		cmdGen(os.Args[2:])
	default:
		os.Exit(2)
	}
}

// ---------------------------------------------------------------------------- invalid operations (C10)

func cloneOp(op *world.Op) *world.Op {
	b, _ := json.Marshal(op)
	var c world.Op
	json.Unmarshal(b, &c)
	return c.Fill()
}

func allFields(ss []*world.Sel, acc *[]*world.Sel) {
	for _, s := range ss {
		if s.K == "F" {
			*acc = append(*acc, s)
		}
		allFields(s.Sub, acc)
	}
}

// invalidRuns derives invalid operations from a valid one by a single mutation and sends them.
func invalidRuns(em *emitter, rng *rand.Rand, g *gw.GW, mono *fakesvc.Net, w *world.World, op *world.Op, run string) {
	kinds := []string{"unknown-field", "unknown-argument", "unknown-type", "undeclared-variable", "wrong-variable-type",
		"selection-on-leaf", "object-without-selection", "fragment-cycle", "two-operations-no-name", "unknown-operation-name", "operation-name-for-anonymous", "syntax-error"}
	kind := kinds[rng.Intn(len(kinds))]
	c := cloneOp(op)
	var fields []*world.Sel
	allFields(c.Sel, &fields)
	text := ""
	opName := c.Name
	switch kind {
	case "unknown-field":
		fields[rng.Intn(len(fields))].Name = "zzUnknownField"
	case "unknown-argument":
		f := fields[rng.Intn(len(fields))]
		f.Args["zzArg"] = world.ArgExpr{"t": "lit", "v": world.ArgVal{"t": "i", "v": 1}}
	case "unknown-type":
		f := fields[rng.Intn(len(fields))]
		f.Sub = append(f.Sub, &world.Sel{K: "I", On: "ZZUnknownType", Args: map[string]world.ArgExpr{}, Dirs: []world.Dir{}, Sub: []*world.Sel{{K: "F", Key: "id", Name: "id", Args: map[string]world.ArgExpr{}, Dirs: []world.Dir{}, Sub: []*world.Sel{}}}})
	case "undeclared-variable":
		f := fields[rng.Intn(len(fields))]
		f.Dirs = append(f.Dirs, world.Dir{N: "include", If: world.ArgExpr{"t": "var", "n": "zzUndeclared"}})
	case "wrong-variable-type":
		if len(c.VarOrd) == 0 {
			return
		}
		v := c.VarOrd[rng.Intn(len(c.VarOrd))]
		c.VarDefs[v].Def = nil
		if c.VarDefs[v].Type.Name == "Boolean" {
			c.VarDefs[v].Type.Name = "Int"
		} else {
			c.VarDefs[v].Type.Name = "Boolean"
		}
		delete(c.Vars, v)
	case "selection-on-leaf":
		var leaves []*world.Sel
		for _, f := range fields {
			if len(f.Sub) == 0 {
				leaves = append(leaves, f)
			}
		}
		if len(leaves) == 0 {
			return
		}
		f := leaves[rng.Intn(len(leaves))]
		f.Sub = []*world.Sel{{K: "F", Key: "id", Name: "id", Args: map[string]world.ArgExpr{}, Dirs: []world.Dir{}, Sub: []*world.Sel{}}}
	case "object-without-selection":
		var objs []*world.Sel
		for _, f := range fields {
			if len(f.Sub) > 0 {
				objs = append(objs, f)
			}
		}
		if len(objs) == 0 {
			return
		}
		objs[rng.Intn(len(objs))].Sub = []*world.Sel{}
	case "fragment-cycle":
		root := world.RootTypeName(c.Kind)
		text = w.OpText(c)
		i := strings.Index(text, "{")
		text = text[:i+1] + " ...ZA " + text[i+1:] + fmt.Sprintf("fragment ZA on %s { ...ZB }\nfragment ZB on %s { ...ZA }\n", root, root)
	case "two-operations-no-name":
		if c.Name == "" {
			c.Name = "OpMain"
		}
		text = w.OpText(c) + "query ZZOther { __typename }\n"
		opName = ""
	case "unknown-operation-name":
		if c.Name == "" {
			c.Name = "OpMain"
		}
		text = w.OpText(c)
		opName = "ZZNoSuchOperation"
	case "operation-name-for-anonymous":
		// the document holds one anonymous operation, the request names one
		c.Name = ""
		text = w.OpText(c)
		opName = "ZZNoSuchOperation"
	case "syntax-error":
		text = w.OpText(c)
		text = text[:strings.LastIndex(text, "}")]
	}
	if text == "" {
		text = w.OpText(c)
	}
	// confirm with gqlparser on the merged (monolith) schema that the operation is invalid; the two
	// operation-name kinds are invalid by construction (the document itself validates)
	if kind != "two-operations-no-name" && kind != "unknown-operation-name" && kind != "operation-name-for-anonymous" {
		_, lg := fakesvc.AnswerFor(mono.Service("http://mono.test"), text, c.VarsToGo(), opName)
		if lg.Validates {
			return
		}
	}
	c.Name = opName
	runOpWith(em, g, nil, w, c, run+".invalid", runOpts{text: text, inv: kind})
	// and the gateway still serves the valid operation afterwards
	runOp(em, g, nil, w, op, run+".after")
}
