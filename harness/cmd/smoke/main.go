package main

import (
	"fmt"

	"github.com/buildbuildio/pebbles/common"
	_ "pgregory.net/rapid"
)

func main() {
	acc, errs := common.AsyncMapReduce([]int{1, 2, 3}, 0, func(i int) (int, error) { return i, nil }, func(a, v int) int { return a + v })
	fmt.Println(acc, errs)
}
