// c11 binds BatcherImpl/BatcherAbs (TLA+) to queryer.MultiOpQueryer.Query.
//
//	c11 replay -in paths.ndjson -out results.ndjson   direction A: completion orders / failures from TLC
//	c11 stress -runs R -maxn N -maxm M -seed S -out t direction B: free runs with random delays / failures
package main

import (
	"bufio"
	"bytes"
	"encoding/json"
	"flag"
	"fmt"
	"io"
	"math/rand"
	"mime"
	"mime/multipart"
	"net/http"
	"os"
	"reflect"
	"strings"
	"sync"
	"time"

	"verifharness/fakesvc"

	"github.com/buildbuildio/pebbles/queryer"
	"github.com/buildbuildio/pebbles/requests"
)

type ev struct {
	Ev  string `json:"ev"`
	N   int    `json:"n,omitempty"`
	M   int    `json:"m,omitempty"`
	C   int    `json:"c"`
	Mem []int  `json:"mem,omitempty"`
	St  string `json:"st,omitempty"`
	Ok  bool   `json:"ok"`
	Res []int  `json:"res,omitempty"`
	MP  bool   `json:"mp,omitempty"`
}

type call struct {
	id      int
	mem     []int
	mp      bool
	release chan string
}

type transport struct {
	mu    sync.Mutex
	cond  *sync.Cond
	calls []*call
	log   []ev
	gated bool
	// free mode
	rng   *rand.Rand
	pFail int // 0 never; else 1 in pFail calls fails
	delay int // max delay in microseconds
}

func newTransport(gated bool) *transport {
	t := &transport{gated: gated}
	t.cond = sync.NewCond(&t.mu)
	return t
}

type payload struct {
	Query     string                 `json:"query"`
	Variables map[string]interface{} `json:"variables"`
}

func membersOf(req *http.Request) ([]int, bool, map[int]string, error) {
	ct, params, _ := mime.ParseMediaType(req.Header.Get("Content-Type"))
	body, err := io.ReadAll(req.Body)
	if err != nil {
		return nil, false, nil, err
	}
	if ct == "multipart/form-data" {
		mr := multipart.NewReader(bytes.NewReader(body), params["boundary"])
		form, err := mr.ReadForm(1 << 20)
		if err != nil {
			return nil, true, nil, err
		}
		var p payload
		if err := json.Unmarshal([]byte(form.Value["operations"][0]), &p); err != nil {
			return nil, true, nil, err
		}
		files := map[int]string{}
		k := int(p.Variables["k"].(float64))
		for _, fh := range form.File {
			f, _ := fh[0].Open()
			b, _ := io.ReadAll(f)
			files[k] = fh[0].Filename + ":" + string(b)
		}
		return []int{k}, true, files, nil
	}
	var ps []payload
	if err := json.Unmarshal(body, &ps); err != nil {
		return nil, false, nil, fmt.Errorf("body is not a JSON array: %s", body)
	}
	mem := []int{}
	for _, p := range ps {
		mem = append(mem, int(p.Variables["k"].(float64)))
	}
	return mem, false, nil, nil
}

func (t *transport) RoundTrip(req *http.Request) (*http.Response, error) {
	mem, mp, _, err := membersOf(req)
	if err != nil {
		return nil, err
	}
	t.mu.Lock()
	c := &call{id: len(t.calls), mem: mem, mp: mp, release: make(chan string, 1)}
	t.calls = append(t.calls, c)
	t.log = append(t.log, ev{Ev: "Http", C: c.id, Mem: mem, MP: mp})
	t.cond.Broadcast()
	gated := t.gated
	var st string
	var d time.Duration
	if !gated {
		st = "ok"
		if t.pFail > 0 && t.rng.Intn(t.pFail) == 0 {
			st = []string{"fail500", "failerr", "failbody"}[t.rng.Intn(3)]
		}
		if t.delay > 0 {
			d = time.Duration(t.rng.Intn(t.delay)) * time.Microsecond
		}
	}
	t.mu.Unlock()
	if gated {
		st = <-c.release
	} else if d > 0 {
		time.Sleep(d)
	}
	t.mu.Lock()
	abs := "ok"
	if st != "ok" {
		abs = "fail"
	}
	t.log = append(t.log, ev{Ev: "HttpDone", C: c.id, St: abs})
	t.mu.Unlock()
	switch st {
	case "failerr":
		// (what net/http reports when the peer goes away after the request was written; see fakesvc.LostConn)
		return nil, fakesvc.LostConn{}
	case "fail500":
		return &http.Response{StatusCode: 500, Body: io.NopCloser(strings.NewReader("boom")), Header: http.Header{}}, nil
	case "failbody":
		return &http.Response{StatusCode: 200, Body: io.NopCloser(strings.NewReader("<html>not json</html>")), Header: http.Header{}}, nil
	}
	var body []byte
	if mp {
		body, _ = json.Marshal(map[string]interface{}{"data": map[string]interface{}{"k": mem[0]}})
	} else {
		arr := []interface{}{}
		for _, k := range mem {
			arr = append(arr, map[string]interface{}{"data": map[string]interface{}{"k": k}})
		}
		body, _ = json.Marshal(arr)
	}
	return &http.Response{StatusCode: 200, Body: io.NopCloser(bytes.NewReader(body)), Header: http.Header{"Content-Type": []string{"application/json"}}}, nil
}

func (t *transport) open() {
	t.mu.Lock()
	t.gated = false
	for _, c := range t.calls {
		select {
		case c.release <- "ok":
		default:
		}
	}
	t.mu.Unlock()
}

// waitCall waits for a parked call with exactly these members
func (t *transport) waitCall(mem []int, timeout time.Duration) *call {
	deadline := time.Now().Add(timeout)
	timer := time.AfterFunc(timeout, func() { t.mu.Lock(); t.cond.Broadcast(); t.mu.Unlock() })
	defer timer.Stop()
	t.mu.Lock()
	defer t.mu.Unlock()
	for {
		for _, c := range t.calls {
			if reflect.DeepEqual(c.mem, mem) {
				return c
			}
		}
		if time.Now().After(deadline) {
			return nil
		}
		t.cond.Wait()
	}
}

type nopCloser struct{ io.Reader }

func (nopCloser) Close() error { return nil }

func makeRequests(n int, files map[int]bool) []*requests.Request {
	rs := make([]*requests.Request, n)
	for i := range rs {
		vars := map[string]interface{}{"k": i}
		if files[i] {
			vars["f"] = &requests.Upload{File: nopCloser{strings.NewReader(fmt.Sprintf("content-%d", i))}, FileName: fmt.Sprintf("f%d.txt", i)}
		}
		rs[i] = &requests.Request{Query: "query($k: Int) { echo(k: $k) }", Variables: vars}
	}
	return rs
}

type queryRet struct {
	res []map[string]interface{}
	err error
}

func retEvent(n int, r queryRet) ev {
	e := ev{Ev: "Return", Ok: r.err == nil}
	if r.err == nil {
		e.Res = []int{}
		for _, m := range r.res {
			k := -1
			if m != nil {
				switch v := m["k"].(type) {
				case float64:
					k = int(v)
				case int:
					k = v
				}
			}
			e.Res = append(e.Res, k)
		}
	}
	return e
}

type pathIn struct {
	ID    int             `json:"id"`
	Steps [][]interface{} `json:"steps"`
}

type result struct {
	ID     int    `json:"id"`
	Status string `json:"status"`
	Detail string `json:"detail,omitempty"`
	Trace  []ev   `json:"trace,omitempty"`
	N      int    `json:"n"`
	M      int    `json:"m"`
}

func toInt(v interface{}) int { return int(v.(float64)) }
func toInts(v interface{}) []int {
	out := []int{}
	switch x := v.(type) {
	case []interface{}:
		for _, e := range x {
			out = append(out, toInt(e))
		}
	case map[string]interface{}:
		if s, ok := x["__set__"]; ok {
			for _, e := range s.([]interface{}) {
				out = append(out, toInt(e))
			}
		}
	}
	return out
}

const stepTimeout = 3 * time.Second

func replayOne(p pathIn, failKind string) result {
	init := p.Steps[0]
	n, m := toInt(init[1]), toInt(init[2])
	files := map[int]bool{}
	for _, f := range toInts(init[3]) {
		files[f] = true
	}
	res := result{ID: p.ID, N: n, M: m}
	t := newTransport(true)
	q := queryer.NewMultiOpQueryer("http://svc.test/graphql", m).WithHTTPClient(&http.Client{Transport: t})
	reqs := makeRequests(n, files)
	done := make(chan queryRet, 1)
	t.mu.Lock()
	t.log = append(t.log, ev{Ev: "Start", N: n, M: m})
	t.mu.Unlock()
	go func() {
		r, err := q.Query(reqs)
		done <- queryRet{r, err}
	}()
	var got *queryRet
	finish := func(status, detail string) result {
		t.open()
		if got == nil {
			select {
			case r := <-done:
				got = &r
			case <-time.After(10 * time.Second):
				res.Status = "hang"
				res.Detail = detail + " / Query did not return with all calls answered"
				t.mu.Lock()
				res.Trace = append([]ev{}, t.log...)
				t.mu.Unlock()
				return res
			}
		}
		t.mu.Lock()
		res.Trace = append(append([]ev{}, t.log...), retEvent(n, *got))
		t.mu.Unlock()
		res.Status = status
		res.Detail = detail
		return res
	}
	byID := map[int][]int{}
	for k, st := range p.Steps[1:] {
		switch st[0].(string) {
		case "Send":
			mem := toInts(st[3])
			byID[toInt(st[2])] = mem
			c := t.waitCall(mem, stepTimeout)
			if c == nil {
				return finish("drift", fmt.Sprintf("step %d: no HTTP call carrying exactly %v arrived", k+1, mem))
			}
			if c.mp != st[4].(bool) {
				return finish("drift", fmt.Sprintf("step %d: call %v multipart=%v, model says %v", k+1, mem, c.mp, st[4]))
			}
		case "Complete":
			mem := byID[toInt(st[2])]
			c := t.waitCall(mem, stepTimeout)
			if c == nil {
				return finish("drift", fmt.Sprintf("step %d: call %v to complete is not there", k+1, mem))
			}
			if st[3].(string) == "ok" {
				c.release <- "ok"
			} else {
				c.release <- failKind
			}
		case "Return":
			select {
			case r := <-done:
				got = &r
			case <-time.After(stepTimeout):
				return finish("drift", "Return: Query did not return when the model says it does")
			}
			e := retEvent(n, *got)
			wantOk := st[1].(bool)
			want := toInts(st[2])
			if e.Ok != wantOk || (wantOk && !reflect.DeepEqual(e.Res, want)) {
				return finish("mismatch", fmt.Sprintf("Return: observed ok=%v res=%v, model predicts ok=%v res=%v (err=%v)", e.Ok, e.Res, wantOk, want, got.err))
			}
		}
	}
	if got == nil {
		return finish("drift", "behaviour ended without Return")
	}
	// calls the model did not predict?
	t.mu.Lock()
	ncalls := len(t.calls)
	t.mu.Unlock()
	if ncalls != len(byID) {
		return finish("mismatch", fmt.Sprintf("%d HTTP calls observed, model predicts %d", ncalls, len(byID)))
	}
	return finish("ok", "")
}

func cmdReplay(args []string) {
	fs := flag.NewFlagSet("replay", flag.ExitOnError)
	in := fs.String("in", "", "")
	out := fs.String("out", "", "")
	keep := fs.Int("keep", 20, "")
	maxbad := fs.Int("maxbad", 8, "")
	fs.Parse(args)
	f, err := os.Open(*in)
	if err != nil {
		panic(err)
	}
	of, err := os.Create(*out)
	if err != nil {
		panic(err)
	}
	defer of.Close()
	sc := bufio.NewScanner(f)
	sc.Buffer(make([]byte, 1<<20), 1<<26)
	enc := json.NewEncoder(of)
	bad := 0
	kinds := []string{"fail500", "failerr", "failbody"}
	for sc.Scan() {
		if bad >= *maxbad {
			fmt.Fprintf(of, "{\"skipped_rest\":true}\n")
			break
		}
		var p pathIn
		if err := json.Unmarshal(sc.Bytes(), &p); err != nil {
			panic(err)
		}
		fmt.Fprintf(of, "{\"begin\":%d}\n", p.ID)
		r := replayOne(p, kinds[p.ID%3])
		if r.Status == "ok" && (*keep == 0 || p.ID%*keep != 0) {
			r.Trace = nil
		}
		if r.Status != "ok" {
			bad++
		}
		enc.Encode(r)
		if r.Status == "hang" {
			os.Exit(3)
		}
	}
}

func cmdStress(args []string) {
	fs := flag.NewFlagSet("stress", flag.ExitOnError)
	runs := fs.Int("runs", 100, "")
	maxn := fs.Int("maxn", 60, "")
	maxm := fs.Int("maxm", 16, "")
	seed := fs.Int64("seed", 1, "")
	out := fs.String("out", "", "")
	fs.Parse(args)
	of, err := os.Create(*out)
	if err != nil {
		panic(err)
	}
	defer of.Close()
	enc := json.NewEncoder(of)
	rng := rand.New(rand.NewSource(*seed))
	for k := 0; k < *runs; k++ {
		m := 1 + rng.Intn(*maxm)
		var n int
		switch rng.Intn(4) {
		case 0: // boundaries k*m-1, k*m, k*m+1
			n = m*rng.Intn(5) + rng.Intn(3) - 1
			if n < 0 {
				n = 0
			}
		default:
			n = rng.Intn(*maxn + 1)
		}
		files := map[int]bool{}
		if rng.Intn(3) == 0 {
			for i := 0; i < n; i++ {
				if rng.Intn(4) == 0 {
					files[i] = true
				}
			}
		}
		t := newTransport(false)
		t.rng = rand.New(rand.NewSource(rng.Int63()))
		if rng.Intn(3) == 0 {
			t.pFail = 1 + rng.Intn(8)
		}
		t.delay = []int{0, 50, 400}[rng.Intn(3)]
		q := queryer.NewMultiOpQueryer("http://svc.test/graphql", m).WithHTTPClient(&http.Client{Transport: t})
		reqs := makeRequests(n, files)
		fmt.Fprintf(of, "{\"begin\":%d}\n", k)
		done := make(chan queryRet, 1)
		go func() {
			r, err := q.Query(reqs)
			done <- queryRet{r, err}
		}()
		r := result{ID: k, N: n, M: m}
		select {
		case got := <-done:
			t.mu.Lock()
			r.Trace = append(append([]ev{{Ev: "Start", N: n, M: m}}, t.log...), retEvent(n, got))
			t.mu.Unlock()
			r.Status = "ok"
		case <-time.After(30 * time.Second):
			r.Status = "hang"
		}
		enc.Encode(r)
		if r.Status == "hang" {
			os.Exit(3)
		}
	}
}

func main() {
	if len(os.Args) < 2 {
		os.Exit(2)
	}
	switch os.Args[1] {
	case "replay":
		cmdReplay(os.Args[2:])
	case "stress":
		cmdStress(os.Args[2:])
	default:
		os.Exit(2)
	}
}
