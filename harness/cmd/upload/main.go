// upload renders the multipart layouts enumerated by TLC from spec/Upload.tla (and random larger
// ones) as real multipart/form-data requests, sends them to the real gateway and records which
// files every fake service received at which variable path (C19).
package main

import (
	"crypto/sha256"
	"bufio"
	"bytes"
	"encoding/json"
	"flag"
	"fmt"
	"math/rand"
	"mime/multipart"
	"os"
	"sort"
	"strings"

	"verifharness/gw"
	"verifharness/world"
)

type layout struct {
	Fields []string          `json:"fields"`
	Assign map[string]string `json:"assign"`
	Batch  bool              `json:"batch"`
}

var fieldVar = map[string]string{"up": "f", "up2": "f", "upNested": "in", "upNested0": "in", "upList": "files", "upList1": "files"}
var fieldSvc = map[string]int{"up": 0, "up2": 1, "upNested": 1, "upNested0": 0, "upList": 0, "upList1": 1}
var varDecl = map[string]string{"f": "$f: Upload", "in": "$in: FileIn", "files": "$files: [Upload]"}
var fieldCall = map[string]string{"up": "up(file: $f)", "up2": "up2(file: $f)", "upNested": "upNested(in: $in)", "upNested0": "upNested0(in: $in)",
	"upList": "upList(files: $files)", "upList1": "upList1(files: $files)"}

func uploadWorld() *world.World {
	str := world.TypeRef{Name: "String"}
	w := &world.World{ID: 19, Types: map[string]*world.TypeDecl{}, Ents: map[string]*world.Entity{}, Roots: map[string]map[string]world.Val{}}
	w.Types["Upload"] = &world.TypeDecl{Kind: "SCALAR"}
	w.Types["FileIn"] = &world.TypeDecl{Kind: "INPUT", Order: []string{"file", "name"}, Fields: map[string]*world.FieldDecl{
		"file": {Type: world.TypeRef{Name: "Upload"}}, "name": {Type: str}}}
	w.Types["Query"] = &world.TypeDecl{Kind: "OBJECT", Order: []string{"p0", "p1"}, Fields: map[string]*world.FieldDecl{"p0": {Type: str}, "p1": {Type: str}}}
	m := &world.TypeDecl{Kind: "OBJECT", Fields: map[string]*world.FieldDecl{}}
	w.Types["Mutation"] = m
	w.Services = []*world.Service{
		{URL: "http://u0.test", Decl: map[string][]string{"Query": {"p0"}, "Upload": {}, "FileIn": {"file", "name"}}},
		{URL: "http://u1.test", Decl: map[string][]string{"Query": {"p1"}, "Upload": {}, "FileIn": {"file", "name"}}},
	}
	w.Roots["Query"] = map[string]world.Val{"p0": world.S("pong0"), "p1": world.S("pong1")}
	w.Roots["Mutation"] = map[string]world.Val{}
	for _, f := range []string{"up", "up2", "upNested", "upNested0", "upList", "upList1"} {
		var arg world.ArgDecl
		switch fieldVar[f] {
		case "f":
			arg = world.ArgDecl{Name: "file", Type: world.TypeRef{Name: "Upload"}}
		case "in":
			arg = world.ArgDecl{Name: "in", Type: world.TypeRef{Name: "FileIn"}}
		default:
			arg = world.ArgDecl{Name: "files", Type: world.TypeRef{Name: "Upload", List: true}}
		}
		m.Fields[f] = &world.FieldDecl{Type: str, Args: []world.ArgDecl{arg}}
		m.Order = append(m.Order, f)
		s := w.Services[fieldSvc[f]]
		s.Decl["Mutation"] = append(s.Decl["Mutation"], f)
		w.Roots["Mutation"][f] = world.S("stored:" + f)
	}
	return w.Fill()
}

var contents = map[string][2]string{"A": {"a.txt", "AAA-content-of-file-a"}, "B": {"b.bin", "B\x00\x01\xfe\xffbinary\r\n--boundary-like"}}

// summarise replaces a long "name:content" by name, length and digest (big files would bloat the trace).
func summarise(v string) string {
	if len(v) <= 256 {
		return v
	}
	i := strings.Index(v, ":")
	return fmt.Sprintf("%s:sha256=%x,len=%d", v[:i], sha256.Sum256([]byte(v[i+1:])), len(v)-i-1)
}

func opFor(l layout) map[string]interface{} {
	used := map[string]bool{}
	var calls, decls []string
	fields := append([]string{}, l.Fields...)
	sort.Strings(fields)
	for _, f := range fields {
		used[fieldVar[f]] = true
		calls = append(calls, fmt.Sprintf("r_%s: %s", f, fieldCall[f]))
	}
	vars := map[string]interface{}{}
	for _, v := range []string{"f", "in", "files"} {
		if used[v] {
			decls = append(decls, varDecl[v])
			switch v {
			case "f":
				vars["f"] = nil
			case "in":
				vars["in"] = map[string]interface{}{"file": nil, "name": "n"}
			case "files":
				vars["files"] = []interface{}{nil, nil}
			}
		}
	}
	return map[string]interface{}{"query": fmt.Sprintf("mutation Up(%s) { %s }", strings.Join(decls, ", "), strings.Join(calls, " ")), "variables": vars, "operationName": "Up"}
}

func main() {
	in := flag.String("in", "", "")
	out := flag.String("out", "", "")
	flag.Int64("seed", 1, "")
	big := flag.Bool("big", false, "file A is 3 MiB (read concurrently by several upstream requests)")
	samename := flag.Bool("samename", false, "the two files carry the same client file name (two cameras' IMG_0001.jpg): they are still two files")
	flag.Parse()
	if *samename {
		contents["B"] = [2]string{contents["A"][0], contents["B"][1]}
	}
	if *big {
		r := rand.New(rand.NewSource(7))
		b := make([]byte, 3<<20)
		r.Read(b)
		contents["A"] = [2]string{"a.txt", string(b)}
	}
	_ = rand.Int
	w := uploadWorld()
	g, err := gw.New(w, gw.Config{Name: "default"})
	if err != nil {
		fmt.Fprintln(os.Stderr, "HARNESS: gateway did not start:", err)
		os.Exit(4)
	}
	f, err := os.Open(*in)
	if err != nil {
		panic(err)
	}
	of, _ := os.Create(*out)
	defer of.Close()
	bw := bufio.NewWriter(of)
	defer bw.Flush()
	enc := json.NewEncoder(bw)
	sc := bufio.NewScanner(f)
	sc.Buffer(make([]byte, 1<<20), 1<<24)
	for sc.Scan() {
		var l layout
		if err := json.Unmarshal(sc.Bytes(), &l); err != nil {
			panic(err)
		}
		prefix := ""
		var ops interface{} = opFor(l)
		if l.Batch {
			// the layout is operation 0 of a batch whose operation 1 is a plain single upload of file B
			prefix = "0."
			ops = []interface{}{opFor(l), map[string]interface{}{"query": "mutation Other($f: Upload) { r_up: up(file: $f) }", "variables": map[string]interface{}{"f": nil}, "operationName": "Other"}}
		}
		byFile := map[string][]string{}
		client := map[string]string{}
		for p, fid := range l.Assign {
			if fid == "-" {
				continue
			}
			byFile[fid] = append(byFile[fid], prefix+p)
			client[p] = summarise(contents[fid][0] + ":" + contents[fid][1])
		}
		if l.Batch {
			byFile["B"] = append(byFile["B"], "1.variables.f")
		}
		var buf bytes.Buffer
		mw := multipart.NewWriter(&buf)
		fw, _ := mw.CreateFormField("operations")
		b, _ := json.Marshal(ops)
		fw.Write(b)
		fmap := map[string][]string{}
		var keys []string
		for fid := range byFile {
			keys = append(keys, fid)
		}
		sort.Strings(keys)
		for i, fid := range keys {
			sort.Strings(byFile[fid])
			fmap[fmt.Sprint(i)] = byFile[fid]
		}
		fw, _ = mw.CreateFormField("map")
		b, _ = json.Marshal(fmap)
		fw.Write(b)
		for i, fid := range keys {
			pw, _ := mw.CreateFormFile(fmt.Sprint(i), contents[fid][0])
			pw.Write([]byte(contents[fid][1]))
		}
		mw.Close()
		g.ResetLogs()
		enc.Encode(map[string]interface{}{"ev": "Upload", "layout": l, "clientFiles": client})
		bw.Flush()
		st, body := g.Post(buf.Bytes(), mw.FormDataContentType())
		logs, _ := g.Net.Snapshot()
		for _, lg := range logs {
			if lg.OpName == "Other" {
				continue // the second operation of the batch is not part of the layout
			}
			files := map[string]string{}
			for k, v := range lg.Files {
				files[k] = summarise(v)
			}
			used := lg.Used
			if used == nil {
				used = []string{}
			}
			enc.Encode(map[string]interface{}{"ev": "SvcReq", "svc": lg.Svc, "mp": lg.Multipart, "files": files, "used": used, "query": lg.Query})
		}
		var v interface{}
		ok := false
		if json.Unmarshal(body, &v) == nil {
			first := v
			if arr, isArr := v.([]interface{}); isArr && len(arr) > 0 {
				first = arr[0]
			}
			if m, isMap := first.(map[string]interface{}); isMap {
				_, hasErr := m["errors"]
				data, _ := m["data"].(map[string]interface{})
				ok = !hasErr && data != nil
				for _, fl := range l.Fields {
					if data == nil || data["r_"+fl] != "stored:"+fl {
						ok = false
					}
				}
			}
		}
		enc.Encode(map[string]interface{}{"ev": "Resp", "status": st, "ok": ok, "body": string(body)})
	}
}
