package world

import (
	"fmt"
	"math/rand"
	"sort"
	"strings"
)

// GenCfg bounds the seeded generator of worlds and operations (direction B).  Everything random
// derives from the *rand.Rand passed in.
type GenCfg struct {
	MaxServices   int
	MaxNodeTypes  int
	MaxValueTypes int
	MaxEnts       int
	MaxDepth      int
	MaxListLen    int
	Abstract      bool // interfaces and unions
	DisjointValue bool // value types declared disjointly by two services (accepted by the merger)
	OddIDs        bool // ids containing ':' or '#'
	Mutations     bool
	Subscriptions bool // a Subscription root type (one or two fields, each owned by one service)
	RootNode      bool // queries may select the Relay entry point node(id:) at the root
	Skeleton      bool // more selections that hold nothing but object-valued fields at the inner levels
	NestedLists   bool // some list-typed fields are lists of lists
	Wide          bool // lists of scalars, ID-typed arguments, named fragments spread twice, aliases that spell a path, interface fields under two aliases
	VarID         bool // client variables called "id" (the name the gateway's own follow-up requests use); implies ID-typed arguments
	Chain         bool // worlds of the shape  Query.as:[A] (service 0)  A.bs:[B] (service 1)  B.leaf (service 2), operations through the whole chain
	BigLists      bool
	RichArgs      bool            // enum, list and input-object arguments
	FragBase      int             // first number of generated fragment names (several operations in one document)
	Off           map[string]bool // generator features switched off: dirs, vars, frag, dupkey, roottypename, args, alias, vardefault
}

func DefaultCfg() GenCfg {
	return GenCfg{MaxServices: 4, MaxNodeTypes: 4, MaxValueTypes: 2, MaxEnts: 4, MaxDepth: 4, MaxListLen: 3, Mutations: true}
}

var nodeNames = []string{"User", "Post", "Tag", "Org", "Team", "Item"}
var valueNames = []string{"Addr", "Geo", "Meta"}
var scalarNames = []string{"String", "Int", "Boolean"}

type gen struct {
	r   *rand.Rand
	cfg GenCfg
	w   *World
	own map[string]map[string]int // type -> field -> owning service index
	ids map[string][]string       // node type -> entity ids
	tag map[string]bool
	big bool // generating a root value: big lists allowed here
}

func (g *gen) pick(n int) int { return g.r.Intn(n) }
func (g *gen) chance(p float64) bool {
	return g.r.Float64() < p
}

func (g *gen) argDomain(ty string) []ArgVal {
	switch ty {
	case "Int":
		return []ArgVal{{"t": "i", "v": 1}, {"t": "i", "v": 2}}
	case "String":
		return []ArgVal{{"t": "s", "v": "a"}, {"t": "s", "v": "b"}}
	case "ID":
		// ids of entities that usually exist
		return []ArgVal{{"t": "s", "v": "User_1"}, {"t": "s", "v": "User_2"}}
	case "Boolean":
		return []ArgVal{{"t": "b", "v": true}, {"t": "b", "v": false}}
	case "Color":
		return []ArgVal{{"t": "e", "v": "RED"}, {"t": "e", "v": "GREEN"}}
	case "Range":
		return []ArgVal{
			{"t": "io", "k": []interface{}{"min", "max"}, "v": map[string]interface{}{"min": ArgVal{"t": "i", "v": 1}, "max": ArgVal{"t": "i", "v": 2}}},
			{"t": "io", "k": []interface{}{"min", "max"}, "v": map[string]interface{}{"max": ArgVal{"t": "i", "v": 1}}},
		}
	case "Filter":
		return []ArgVal{
			{"t": "io", "k": []interface{}{"lo", "tag", "flags", "sub"}, "v": map[string]interface{}{"lo": ArgVal{"t": "i", "v": 1}, "tag": ArgVal{"t": "s", "v": "a"}}},
			{"t": "io", "k": []interface{}{"lo", "tag", "flags", "sub"}, "v": map[string]interface{}{
				"flags": ArgVal{"t": "lst", "v": []interface{}{ArgVal{"t": "b", "v": true}, ArgVal{"t": "b", "v": false}}},
				"sub":   ArgVal{"t": "io", "k": []interface{}{"min", "max"}, "v": map[string]interface{}{"min": ArgVal{"t": "i", "v": 2}, "max": ArgVal{"t": "i", "v": 2}}}}},
		}
	}
	return nil
}

// domain of a (possibly list) argument type
func (g *gen) domainFor(tr TypeRef) []ArgVal {
	d := g.argDomain(tr.Name)
	if !tr.List {
		return d
	}
	return []ArgVal{
		{"t": "lst", "v": []interface{}{d[0], d[1]}},
		{"t": "lst", "v": []interface{}{d[1]}},
		{"t": "lst", "v": []interface{}{}},
	}
}

func (g *gen) genArgs() []ArgDecl {
	n := 1 + g.pick(2)
	var out []ArgDecl
	for i := 0; i < n; i++ {
		tr := TypeRef{Name: scalarNames[g.pick(3)], NN: g.chance(0.3)}
		if (g.cfg.Wide && g.chance(0.15)) || (g.cfg.VarID && g.chance(0.4)) {
			tr = TypeRef{Name: "ID", NN: g.chance(0.5)}
		}
		if g.cfg.RichArgs {
			switch x := g.r.Float64(); {
			case x < 0.12:
				tr = TypeRef{Name: "Color", NN: g.chance(0.3)}
			case x < 0.24:
				tr = TypeRef{Name: scalarNames[g.pick(3)], List: true, NN: g.chance(0.3), ElemNN: g.chance(0.5)}
			case x < 0.36:
				tr = TypeRef{Name: "Filter", NN: g.chance(0.3)}
			case x < 0.48:
				tr = TypeRef{Name: "Range", List: true, NN: g.chance(0.3), ElemNN: true}
			}
			if !IsScalar(tr.Name) || tr.List {
				g.tag["rich-args"] = true
			}
		}
		a := ArgDecl{Name: fmt.Sprintf("a%d", i), Type: tr}
		if !a.Type.NN && g.chance(0.4) {
			d := g.domainFor(tr)
			a.Def = d[g.pick(len(d))]
		}
		out = append(out, a)
	}
	return out
}

// Gen generates a world whose service schemas merge successfully.
// genChain builds a world whose stitched lists are nested two deep, every level owned by another service:
// with services that do not know every entity (node: null) objects are left with nothing but their helper
// fields at both levels at once.
func genChain(r *rand.Rand, id int) *World {
	nn := func(n string) TypeRef { return TypeRef{Name: n, NN: true} }
	w := &World{ID: id, Types: map[string]*TypeDecl{}, Ents: map[string]*Entity{}, Roots: map[string]map[string]Val{}, Tags: []string{"chain"}}
	w.Types["A"] = &TypeDecl{Kind: "OBJECT", Node: true, Order: []string{"id", "aname", "bs", "b1"}, Fields: map[string]*FieldDecl{
		"id": {Type: nn("ID")}, "aname": {Type: TypeRef{Name: "String"}}, "bs": {Type: TypeRef{Name: "B", List: true, ElemNN: true}}, "b1": {Type: TypeRef{Name: "B"}}}}
	w.Types["B"] = &TypeDecl{Kind: "OBJECT", Node: true, Order: []string{"id", "bname", "leaf", "as"}, Fields: map[string]*FieldDecl{
		"id": {Type: nn("ID")}, "bname": {Type: TypeRef{Name: "String"}}, "leaf": {Type: TypeRef{Name: "Int"}}, "as": {Type: TypeRef{Name: "A", List: true}}}}
	w.Types["Query"] = &TypeDecl{Kind: "OBJECT", Order: []string{"as", "a", "n", "m"}, Fields: map[string]*FieldDecl{
		"as": {Type: TypeRef{Name: "A", List: true, ElemNN: true}}, "a": {Type: TypeRef{Name: "A"}}, "n": {Type: TypeRef{Name: "Int"}}, "m": {Type: TypeRef{Name: "Int"}}}}
	w.Services = []*Service{
		{URL: "http://s0.test", Decl: map[string][]string{"Query": {"as", "a"}, "A": {"aname"}, "B": {}}},
		{URL: "http://s1.test", Decl: map[string][]string{"Query": {"n"}, "A": {"bs", "b1"}, "B": {"bname"}}},
		{URL: "http://s2.test", Decl: map[string][]string{"Query": {"m"}, "B": {"leaf", "as"}, "A": {}}},
	}
	na, nb := 2+r.Intn(3), 2+r.Intn(3)
	var as, bs []Val
	for i := 1; i <= nb; i++ {
		bs = append(bs, R(fmt.Sprintf("B_%d", i)))
	}
	for i := 1; i <= na; i++ {
		as = append(as, R(fmt.Sprintf("A_%d", i)))
	}
	pickB := func() Val {
		var out []Val
		for _, b := range bs {
			if r.Intn(2) == 0 {
				out = append(out, b)
			}
		}
		return L(out...)
	}
	for i := 1; i <= na; i++ {
		idv := fmt.Sprintf("A_%d", i)
		w.Ents[idv] = &Entity{Type: "A", F: map[string]Val{"id": S(idv), "aname": S(fmt.Sprintf("a%d", i)), "bs": pickB(), "b1": bs[r.Intn(nb)]}}
	}
	for i := 1; i <= nb; i++ {
		idv := fmt.Sprintf("B_%d", i)
		w.Ents[idv] = &Entity{Type: "B", F: map[string]Val{"id": S(idv), "bname": S(fmt.Sprintf("b%d", i)), "leaf": S(i), "as": L(as[:1+r.Intn(na)]...)}}
	}
	w.Roots["Query"] = map[string]Val{"as": L(as...), "a": as[0], "n": S(1), "m": S(2)}
	return w
}

// genChainOp: an operation through the chain; which levels select something of their own varies
func genChainOp(r *rand.Rand) *Op {
	f := func(name string, sub ...*Sel) *Sel {
		return &Sel{K: "F", Key: name, Name: name, Dirs: []Dir{}, Sub: sub, Args: map[string]ArgExpr{}}
	}
	leafLevel := []*Sel{f("leaf")}
	if r.Intn(3) == 0 {
		leafLevel = append(leafLevel, f("bname"))
	}
	if r.Intn(4) == 0 {
		leafLevel = []*Sel{f("as", f("aname"))}
	}
	bsel := f([]string{"bs", "bs", "b1"}[r.Intn(3)], leafLevel...)
	alevel := []*Sel{bsel}
	if r.Intn(3) == 0 {
		alevel = append(alevel, f("aname"))
	}
	root := []*Sel{f([]string{"as", "as", "a"}[r.Intn(3)], alevel...)}
	if r.Intn(3) == 0 {
		root = append(root, f("n"))
	}
	op := &Op{Kind: "query", VarDefs: map[string]*VarDef{}, Vars: map[string]ArgVal{}, Sel: root, Tags: []string{"chain"}}
	return op
}

func Gen(r *rand.Rand, cfg GenCfg, id int) *World {
	if cfg.Chain {
		return genChain(r, id)
	}
	g := &gen{r: r, cfg: cfg, own: map[string]map[string]int{}, ids: map[string][]string{}, tag: map[string]bool{}}
	w := &World{ID: id, Types: map[string]*TypeDecl{}, Ents: map[string]*Entity{}, Roots: map[string]map[string]Val{}}
	g.w = w
	nsvc := 1 + g.pick(cfg.MaxServices)
	for i := 0; i < nsvc; i++ {
		w.Services = append(w.Services, &Service{URL: fmt.Sprintf("http://s%d.test", i), Decl: map[string][]string{}})
	}
	nNode := 1 + g.pick(cfg.MaxNodeTypes)
	nVal := 0
	if cfg.MaxValueTypes > 0 {
		nVal = g.pick(cfg.MaxValueTypes + 1)
	}
	nodes := nodeNames[:nNode]
	values := valueNames[:nVal]
	for _, t := range nodes {
		w.Types[t] = &TypeDecl{Kind: "OBJECT", Node: true, Fields: map[string]*FieldDecl{"id": {Type: TypeRef{Name: "ID", NN: true}}}, Order: []string{"id"}}
	}
	for _, t := range values {
		w.Types[t] = &TypeDecl{Kind: "OBJECT", Fields: map[string]*FieldDecl{}}
	}
	// abstract types
	if cfg.RichArgs {
		w.Types["Color"] = &TypeDecl{Kind: "ENUM", Fields: map[string]*FieldDecl{}, Members: []string{"RED", "GREEN"}}
		w.Types["Range"] = &TypeDecl{Kind: "INPUT", Order: []string{"min", "max"}, Fields: map[string]*FieldDecl{
			"min": {Type: TypeRef{Name: "Int"}}, "max": {Type: TypeRef{Name: "Int"}}}}
		w.Types["Filter"] = &TypeDecl{Kind: "INPUT", Order: []string{"lo", "tag", "flags", "sub"}, Fields: map[string]*FieldDecl{
			"lo": {Type: TypeRef{Name: "Int"}}, "tag": {Type: TypeRef{Name: "String"}},
			"flags": {Type: TypeRef{Name: "Boolean", List: true}}, "sub": {Type: TypeRef{Name: "Range"}}}}
	}
	// abstract types: an interface / a union over Node types, each declared by ONE service, which
	// also owns every field that returns it (and, for the interface, its fields on the members)
	var ifaces, unions []string
	sI, sU := -1, -1
	if cfg.Abstract {
		if g.chance(0.7) {
			ifaces = append(ifaces, "Named")
			w.Types["Named"] = &TypeDecl{Kind: "INTERFACE", Fields: map[string]*FieldDecl{}}
			sI = g.pick(nsvc)
			g.tag["interface"] = true
		}
		if g.chance(0.6) && nNode >= 2 {
			unions = append(unions, "Thing")
			w.Types["Thing"] = &TypeDecl{Kind: "UNION", Fields: map[string]*FieldDecl{}}
			sU = g.pick(nsvc)
			g.tag["union"] = true
		}
	}
	// value type fields (lower index types may be nested in higher ones)
	for vi, t := range values {
		td := w.Types[t]
		nf := 1 + g.pick(3)
		for i := 0; i < nf; i++ {
			name := fmt.Sprintf("%c%d", 'x'+vi, i)
			var ft TypeRef
			switch {
			case g.chance(0.25):
				ft = TypeRef{Name: nodes[g.pick(nNode)], List: g.chance(0.4), NN: g.chance(0.3), ElemNN: g.chance(0.5)}
				g.tag["value-with-ref"] = true
			case vi > 0 && g.chance(0.15):
				ft = TypeRef{Name: values[g.pick(vi)], NN: g.chance(0.3)}
			default:
				ft = TypeRef{Name: scalarNames[g.pick(3)], NN: g.chance(0.4)}
			}
			td.Fields[name] = &FieldDecl{Type: ft}
			td.Order = append(td.Order, name)
		}
	}
	var fieldType0 func(allowValue bool, owner int) TypeRef
	fieldType := func(allowValue bool, owner int) TypeRef {
		tr := fieldType0(allowValue, owner)
		if cfg.NestedLists && tr.List && g.chance(0.5) {
			tr.List2 = true
			g.tag["nested-list"] = true
		}
		return tr
	}
	fieldType0 = func(allowValue bool, owner int) TypeRef {
		if owner == sI && len(ifaces) > 0 && g.chance(0.25) {
			return TypeRef{Name: ifaces[0], List: g.chance(0.5), ElemNN: g.chance(0.5)}
		}
		if owner == sU && len(unions) > 0 && g.chance(0.25) {
			return TypeRef{Name: unions[0], List: g.chance(0.5), ElemNN: g.chance(0.5)}
		}
		if cfg.Wide && g.chance(0.22) {
			g.tag["scalar-list"] = true
			return TypeRef{Name: scalarNames[g.pick(3)], List: true, NN: g.chance(0.3), ElemNN: g.chance(0.5)}
		}
		switch x := g.r.Float64(); {
		case x < 0.45:
			return TypeRef{Name: scalarNames[g.pick(3)], NN: g.chance(0.4)}
		case x < 0.65:
			return TypeRef{Name: nodes[g.pick(nNode)], NN: g.chance(0.3)}
		case x < 0.82:
			return TypeRef{Name: nodes[g.pick(nNode)], List: true, NN: g.chance(0.5), ElemNN: g.chance(0.5)}
		case allowValue && nVal > 0:
			return TypeRef{Name: values[g.pick(nVal)], List: g.chance(0.3), NN: g.chance(0.3), ElemNN: g.chance(0.5)}
		}
		return TypeRef{Name: scalarNames[g.pick(3)], NN: g.chance(0.4)}
	}
	// Node types: declaring services and owned fields
	decl := map[string][]int{}
	for ti, t := range nodes {
		k := 1 + g.pick(min(3, nsvc))
		perm := g.r.Perm(nsvc)[:k]
		sort.Ints(perm)
		decl[t] = perm
		td := w.Types[t]
		g.own[t] = map[string]int{}
		nf := 2 + g.pick(4)
		for i := 0; i < nf; i++ {
			name := fmt.Sprintf("%c%d", 'a'+ti, i)
			owner := perm[g.pick(k)]
			fd := &FieldDecl{Type: fieldType(true, owner)}
			if IsScalar(fd.Type.Name) && g.chance(0.25) {
				fd.Args = g.genArgs()
				g.tag["field-args"] = true
			}
			td.Fields[name] = fd
			td.Order = append(td.Order, name)
			g.own[t][name] = owner
		}
	}
	if len(ifaces) > 0 {
		// Named { id label }: implemented by a subset of the Node types; `label` is owned per type
		it := w.Types["Named"]
		it.Fields["id"] = &FieldDecl{Type: TypeRef{Name: "ID", NN: true}}
		it.Fields["label"] = &FieldDecl{Type: TypeRef{Name: "String"}}
		it.Order = []string{"id", "label"}
		for _, t := range nodes {
			if g.chance(0.6) || len(it.Members) == 0 {
				it.Members = append(it.Members, t)
				td := w.Types[t]
				td.Impl = append(td.Impl, "Named")
				td.Fields["label"] = &FieldDecl{Type: TypeRef{Name: "String"}}
				td.Order = append(td.Order, "label")
				g.own[t]["label"] = sI
				has := false
				for _, x := range decl[t] {
					if x == sI {
						has = true
					}
				}
				if !has {
					decl[t] = append(decl[t], sI)
				}
			}
		}
	}
	if len(unions) > 0 {
		ut := w.Types["Thing"]
		for _, t := range nodes {
			if g.chance(0.6) || len(ut.Members) < 2 {
				ut.Members = append(ut.Members, t)
			}
		}
	}
	// roots
	w.Types["Query"] = &TypeDecl{Kind: "OBJECT", Fields: map[string]*FieldDecl{}}
	g.own["Query"] = map[string]int{}
	nq := nsvc + g.pick(4)
	for i := 0; i < nq; i++ {
		name := fmt.Sprintf("q%d", i)
		owner := g.pick(nsvc)
		if i < nsvc {
			owner = i // every service owns at least one root field
		}
		fd := &FieldDecl{Type: fieldType(true, owner)}
		if g.chance(0.3) {
			fd.Args = g.genArgs()
		}
		w.Types["Query"].Fields[name] = fd
		w.Types["Query"].Order = append(w.Types["Query"].Order, name)
		g.own["Query"][name] = owner
	}
	if cfg.Mutations && g.chance(0.7) {
		w.Types["Mutation"] = &TypeDecl{Kind: "OBJECT", Fields: map[string]*FieldDecl{}}
		g.own["Mutation"] = map[string]int{}
		nm := 1 + g.pick(3)
		for i := 0; i < nm; i++ {
			name := fmt.Sprintf("m%d", i)
			owner := g.pick(nsvc)
			fd := &FieldDecl{Type: fieldType(false, owner), Args: g.genArgs()}
			w.Types["Mutation"].Fields[name] = fd
			w.Types["Mutation"].Order = append(w.Types["Mutation"].Order, name)
			g.own["Mutation"][name] = owner
		}
	}
	if cfg.Subscriptions {
		w.Types["Subscription"] = &TypeDecl{Kind: "OBJECT", Fields: map[string]*FieldDecl{}}
		g.own["Subscription"] = map[string]int{}
		ns := 1 + g.pick(2)
		for i := 0; i < ns; i++ {
			name := fmt.Sprintf("s%d", i)
			owner := g.pick(nsvc)
			fd := &FieldDecl{Type: fieldType(true, owner)}
			if g.chance(0.3) {
				fd.Args = g.genArgs()
			}
			w.Types["Subscription"].Fields[name] = fd
			w.Types["Subscription"].Order = append(w.Types["Subscription"].Order, name)
			g.own["Subscription"][name] = owner
		}
	}
	// service declarations: owned fields, then everything reachable from them
	for t, fs := range g.own {
		for _, f := range w.Types[t].Order {
			if s, ok := fs[f]; ok {
				w.Services[s].Decl[t] = append(w.Services[s].Decl[t], f)
			}
		}
	}
	for _, t := range nodes {
		for _, s := range decl[t] {
			if _, ok := w.Services[s].Decl[t]; !ok {
				w.Services[s].Decl[t] = []string{}
			}
		}
	}
	for _, s := range w.Services {
		g.closeDecl(s)
	}
	// entities
	for _, t := range nodes {
		n := 1 + g.pick(cfg.MaxEnts)
		for i := 1; i <= n; i++ {
			id := fmt.Sprintf("%s_%d", t, i)
			if cfg.OddIDs && g.chance(0.3) {
				id = []string{"%s:%d", "%s#%d", "%s:%d#x:y", "%s %d", "%s/%d=="}[g.pick(5)]
				id = fmt.Sprintf(id, t, i)
				g.tag["odd-id"] = true
			}
			g.ids[t] = append(g.ids[t], id)
		}
	}
	for _, t := range nodes {
		for _, id := range g.ids[t] {
			e := &Entity{Type: t, F: map[string]Val{"id": S(id)}}
			for _, f := range w.Types[t].Order {
				if f == "id" {
					continue
				}
				e.F[f] = g.genFieldVal(w.Types[t].Fields[f], 0)
			}
			w.Ents[id] = e
		}
	}
	for _, root := range []string{"Query", "Mutation", "Subscription"} {
		td := w.Types[root]
		if td == nil {
			continue
		}
		w.Roots[root] = map[string]Val{}
		for _, f := range td.Order {
			g.big = true
			w.Roots[root][f] = g.genFieldVal(td.Fields[f], 0)
			g.big = false
		}
	}
	for t := range g.tag {
		w.Tags = append(w.Tags, t)
	}
	sort.Strings(w.Tags)
	return w
}

// GenEventVal generates the value one event of subscription field `field` carries (the value of the
// root field for that event), over the entities of w.
func GenEventVal(r *rand.Rand, w *World, cfg GenCfg, field string) Val {
	g := &gen{r: r, cfg: cfg, w: w, ids: map[string][]string{}, tag: map[string]bool{}}
	var ids []string
	for id := range w.Ents {
		ids = append(ids, id)
	}
	sort.Strings(ids)
	for _, id := range ids {
		g.ids[w.Ents[id].Type] = append(g.ids[w.Ents[id].Type], id)
	}
	return g.genFieldVal(w.Types["Subscription"].Fields[field], 0)
}

func min(a, b int) int {
	if a < b {
		return a
	}
	return b
}

// closeDecl adds to a service every type its declared fields mention: Node types as stubs (id
// only), value / abstract types in full (identical copies in every service that uses them).
func (g *gen) closeDecl(s *Service) {
	w := g.w
	changed := true
	for changed {
		changed = false
		for t, fs := range s.Decl {
			td := w.Types[t]
			var refs []string
			for _, f := range fs {
				refs = append(refs, td.Fields[f].Type.Name)
				for _, a := range td.Fields[f].Args {
					refs = append(refs, a.Type.Name)
				}
			}
			if td.Kind == "INTERFACE" || td.Kind == "UNION" {
				refs = append(refs, td.Members...)
			}
			for _, rt := range refs {
				if IsScalar(rt) {
					continue
				}
				if _, ok := s.Decl[rt]; ok {
					continue
				}
				rd := w.Types[rt]
				if rd.Kind == "ENUM" {
					s.Decl[rt] = []string{}
				} else if rd.Kind == "OBJECT" && rd.Node {
					s.Decl[rt] = []string{}
				} else {
					s.Decl[rt] = append([]string{}, rd.Order...)
				}
				changed = true
			}
			// an object implementing an interface this service declares must carry the interface's fields
		}
	}
}

func (g *gen) scalarVal(ty string) Val {
	switch ty {
	case "Int":
		return S(g.pick(5))
	case "Boolean":
		return S(g.chance(0.5))
	}
	return S(fmt.Sprintf("v%d", g.pick(6)))
}

func (g *gen) genOne(tr TypeRef, nullable bool, depth int) Val {
	if nullable && g.chance(0.2) {
		return Z()
	}
	if IsScalar(tr.Name) {
		return g.scalarVal(tr.Name)
	}
	td := g.w.Types[tr.Name]
	name := tr.Name
	if td.Kind == "INTERFACE" || td.Kind == "UNION" {
		name = td.Members[g.pick(len(td.Members))]
		td = g.w.Types[name]
	}
	if td.Node {
		ids := g.ids[name]
		return R(ids[g.pick(len(ids))])
	}
	f := map[string]interface{}{}
	for _, fn := range td.Order {
		f[fn] = g.genFieldVal(td.Fields[fn], depth+1)
	}
	return Val{"t": "o", "ty": name, "f": f}
}

func (g *gen) genTyped(tr TypeRef, depth int) Val {
	if tr.List && g.cfg.Off["listnull"] && !IsScalar(tr.Name) {
		tr.ElemNN = true
	}
	if tr.List2 {
		if !tr.NN && g.chance(0.1) {
			return Z()
		}
		inner := tr
		inner.List2, inner.NN = false, false
		n := g.pick(3)
		var vs []Val
		for i := 0; i < n; i++ {
			vs = append(vs, g.genTyped(inner, depth))
		}
		return L(vs...)
	}
	if tr.List {
		if !tr.NN && g.chance(0.15) {
			return Z()
		}
		n := g.pick(g.cfg.MaxListLen + 1)
		if g.cfg.BigLists && g.big && g.chance(0.3) {
			n = 20 + g.pick(200)
			g.tag["big-list"] = true
		}
		var vs []Val
		for i := 0; i < n; i++ {
			v := g.genOne(TypeRef{Name: tr.Name}, !tr.ElemNN, depth)
			if v["t"] == "z" {
				g.tag["list-null"] = true
			}
			vs = append(vs, v)
		}
		return L(vs...)
	}
	return g.genOne(tr, !tr.NN, depth)
}

func (g *gen) genFieldVal(fd *FieldDecl, depth int) Val {
	if len(fd.Args) == 0 {
		return g.genTyped(fd.Type, depth)
	}
	// value depends on the arguments: a table over a few argument combinations
	by := map[string]interface{}{}
	var names []interface{}
	for _, a := range fd.Args {
		names = append(names, a.Name)
	}
	for k := 0; k < 4; k++ {
		key := ""
		for i, a := range fd.Args {
			if i > 0 {
				key += "|"
			}
			d := g.domainFor(a.Type)
			if !a.Type.NN && g.chance(0.2) {
				key += "~"
			} else {
				key += renderArgValKey(d[g.pick(len(d))])
			}
		}
		by[key] = g.genTyped(fd.Type, depth)
	}
	return Val{"t": "fn", "args": names, "by": by, "else": g.genTyped(fd.Type, depth)}
}

func renderArgValKey(v ArgVal) string {
	switch v["t"] {
	case "s", "e":
		return v["v"].(string)
	case "i":
		return fmt.Sprintf("%d", toInt(v["v"]))
	case "b":
		if v["v"].(bool) {
			return "TRUE"
		}
		return "FALSE"
	case "z":
		return "~"
	case "lst":
		var parts []string
		for _, e := range v["v"].([]interface{}) {
			parts = append(parts, renderArgValKey(e.(map[string]interface{})))
		}
		return "[" + strings.Join(parts, ",") + "]"
	case "io":
		var parts []string
		m := v["v"].(map[string]interface{})
		for _, k := range strs(v["k"]) {
			if e, ok := m[k]; ok {
				parts = append(parts, k+"="+renderArgValKey(e.(map[string]interface{})))
			}
		}
		return "{" + strings.Join(parts, ",") + "}"
	}
	return "?"
}

// ---------------------------------------------------------------------------- operations

type opgen struct {
	named   map[string][]*Sel // named fragments created so far, by type condition
	via     string            // url of the service that owns the field through which the current selection set was reached
	g       *gen
	op      *Op
	alias   int
	frag    int
	provide bool
	tag     map[string]bool
}

// GenOp generates an operation that is valid against the merged schema of w.
func GenOp(r *rand.Rand, w *World, cfg GenCfg, kind string) *Op {
	if cfg.Chain {
		return genChainOp(r)
	}
	g := &gen{r: r, cfg: cfg, w: w}
	og := &opgen{g: g, op: &Op{Kind: kind, VarDefs: map[string]*VarDef{}, Vars: map[string]ArgVal{}}, tag: map[string]bool{}, frag: cfg.FragBase}
	if g.chance(0.5) {
		og.op.Name = fmt.Sprintf("Op%d", g.pick(3))
	}
	root := RootTypeName(kind)
	td := w.Types[root]
	n := 1 + g.pick(3)
	if kind == "mutation" {
		n = 1 + g.pick(2)
	}
	if kind == "subscription" {
		n = 1
	}
	perm := g.r.Perm(len(td.Order))
	for i := 0; i < n && i < len(perm); i++ {
		og.op.Sel = append(og.op.Sel, og.field(root, td.Order[perm[i]], 1))
	}
	if cfg.Wide && kind == "query" && len(og.op.Sel) >= 2 && g.chance(0.7) {
		// a response key that spells the path to a field selected elsewhere: a.b next to "a_b"
	pairs:
		for i, first := range og.op.Sel {
			if first.K != "F" {
				continue
			}
			for _, c := range first.Sub {
				if c.K != "F" || len(c.Sub) == 0 {
					continue
				}
				for j, other := range og.op.Sel {
					if j != i && other.K == "F" && len(other.Sub) > 0 && other.Name != "node" {
						other.Key = first.Key + "_" + c.Key
						og.tag["path-alias"] = true
						break pairs
					}
				}
			}
		}
	}
	if kind == "query" && cfg.RootNode && g.chance(0.7) {
		og.op.Sel = append(og.op.Sel, og.rootNode())
		if g.chance(0.25) {
			og.op.Sel = append(og.op.Sel, og.rootNode())
		}
	}
	if (kind == "query" || kind == "mutation") && !cfg.Off["roottypename"] && g.chance(0.1) {
		tn := &Sel{K: "F", Key: "__typename", Name: "__typename"}
		if g.chance(0.5) {
			// in front of the service's fields: the step the gateway answers itself may then come first in the plan
			og.op.Sel = append([]*Sel{tn}, og.op.Sel...)
		} else {
			og.op.Sel = append(og.op.Sel, tn)
		}
		og.tag["root-typename"] = true
	}
	// response keys of object-valued fields that occur at more than one place of the operation
	seen := map[string]int{}
	var walk func(ss []*Sel, fix bool)
	walk = func(ss []*Sel, fix bool) {
		for _, s := range ss {
			if s.K == "F" && len(s.Sub) > 0 {
				seen[s.Key]++
				if fix && seen[s.Key] > 1 {
					og.alias++
					s.Key = fmt.Sprintf("k%d", og.alias)
					seen[s.Key]++
				}
			}
			walk(s.Sub, fix)
		}
	}
	if cfg.Off["dupname"] && cfg.Off["dupkey"] {
		walk(og.op.Sel, true)
	} else {
		walk(og.op.Sel, false)
		for _, n := range seen {
			if n > 1 {
				og.tag["dupname"] = true
			}
		}
	}
	for t := range og.tag {
		og.op.Tags = append(og.op.Tags, t)
	}
	sort.Strings(og.op.Tags)
	if len(og.op.Vars) == 0 {
		og.op.Vars = map[string]ArgVal{}
	}
	return og.op
}

// rootNode selects node(id: ...) { id? __typename? ... on T { fields } } for an entity of the world
// (sometimes for an id that does not exist, sometimes with a fragment on another type as well).
func (og *opgen) rootNode() *Sel {
	g := og.g
	w := g.w
	og.tag["rootnode"] = true
	var ids []string
	for id := range w.Ents {
		ids = append(ids, id)
	}
	sort.Strings(ids)
	id := ids[g.pick(len(ids))]
	ty := w.Ents[id].Type
	if g.chance(0.1) {
		id = "no-such-id"
	}
	og.alias++
	s := &Sel{K: "F", Key: fmt.Sprintf("n%d", og.alias), Name: "node", Dirs: []Dir{}, Sub: []*Sel{}, Args: map[string]ArgExpr{}}
	if g.chance(0.4) && len(og.op.Sel) == 0 {
		s.Key = "node"
	}
	if g.cfg.Off["vars"] || g.chance(0.6) {
		s.Args["id"] = ArgExpr{"t": "lit", "v": ArgVal{"t": "s", "v": id}}
	} else {
		name := fmt.Sprintf("nid%d", og.alias)
		og.op.VarDefs[name] = &VarDef{Type: TypeRef{Name: "ID", NN: true}}
		og.op.VarOrd = append(og.op.VarOrd, name)
		og.op.Vars[name] = ArgVal{"t": "s", "v": id}
		s.Args["id"] = ArgExpr{"t": "var", "n": name}
	}
	if g.chance(0.5) {
		s.Sub = append(s.Sub, &Sel{K: "F", Key: "id", Name: "id", Dirs: []Dir{}, Sub: []*Sel{}})
	}
	if g.chance(0.3) {
		s.Sub = append(s.Sub, &Sel{K: "F", Key: "__typename", Name: "__typename", Dirs: []Dir{}, Sub: []*Sel{}})
	}
	s.Sub = append(s.Sub, &Sel{K: "I", On: ty, Dirs: []Dir{}, Sub: og.selset(ty, 2)})
	if g.chance(0.3) {
		for _, other := range nodeNames {
			if td := w.Types[other]; td != nil && td.Node && other != ty {
				s.Sub = append(s.Sub, &Sel{K: "I", On: other, Dirs: []Dir{}, Sub: og.selset(other, 3)})
				break
			}
		}
	}
	return s
}

func (og *opgen) newVar(ty TypeRef, argDef ArgVal) ArgExpr {
	g := og.g
	name := fmt.Sprintf("v%d", len(og.op.VarOrd))
	if g.cfg.VarID && ty.Name == "ID" && !ty.List && og.op.VarDefs["id"] == nil && g.chance(0.6) {
		name = "id" // the name the gateway's own follow-up requests use
		og.tag["var-named-id"] = true
	}
	// reuse an existing variable of the same type sometimes (one variable at two positions)
	if !g.cfg.Off["varreuse"] && g.chance(0.25) {
		for _, v := range og.op.VarOrd {
			if _, given := og.op.Vars[v]; og.op.VarDefs[v].Type == ty && (given || !og.provide) {
				og.tag["var-reuse"] = true
				return ArgExpr{"t": "var", "n": v}
			}
		}
	}
	vd := &VarDef{Type: ty}
	dom := g.domainFor(ty)
	val := dom[g.pick(len(dom))]
	switch {
	case og.provide:
		og.op.Vars[name] = val
	case !ty.NN && !g.cfg.Off["vardefault"] && g.chance(0.25):
		vd.Def = dom[g.pick(len(dom))]
		og.tag["var-default"] = true
		if g.chance(0.5) {
			og.op.Vars[name] = val
		}
	case !ty.NN && g.chance(0.15):
		// nullable, no default, not provided
		og.tag["var-omitted"] = true
	case !ty.NN && g.chance(0.1):
		og.op.Vars[name] = ArgVal{"t": "z"}
		og.tag["var-null"] = true
	default:
		og.op.Vars[name] = val
	}
	og.op.VarDefs[name] = vd
	og.op.VarOrd = append(og.op.VarOrd, name)
	og.tag["vars"] = true
	return ArgExpr{"t": "var", "n": name}
}

// argExpr writes an argument of type tr: a literal, a variable, or - for lists and input objects -
// a structure whose leaves are literals and variables (variables nested in input positions).
func (og *opgen) argExpr(tr TypeRef, def ArgVal, depth int) ArgExpr {
	g := og.g
	if tr.List && depth < 2 && g.chance(0.5) {
		n := 1 + g.pick(2)
		var es []interface{}
		for i := 0; i < n; i++ {
			es = append(es, og.argExpr(TypeRef{Name: tr.Name, NN: true}, nil, depth+1))
		}
		og.tag["nested-arg"] = true
		return ArgExpr{"t": "lst", "v": es}
	}
	if td := g.w.Types[tr.Name]; td != nil && td.Kind == "INPUT" && !tr.List && depth < 2 && g.chance(0.6) {
		m := map[string]interface{}{}
		var ks []interface{}
		for _, k := range td.Order {
			ks = append(ks, k)
			if g.chance(0.3) {
				continue
			}
			m[k] = og.argExpr(td.Fields[k].Type, nil, depth+1)
		}
		og.tag["nested-arg"] = true
		return ArgExpr{"t": "io", "k": ks, "v": m}
	}
	if !g.cfg.Off["vars"] && g.chance(0.45) {
		vt := tr
		if !vt.NN && g.chance(0.3) {
			vt.NN = true
		}
		// a variable nested in a list / input object always gets a value: what an ABSENT variable
		// means there differs between the GraphQL specification (field omitted) and gqlparser (null)
		og.provide = depth > 0
		e := og.newVar(vt, def)
		og.provide = false
		return e
	}
	d := g.domainFor(tr)
	v := d[g.pick(len(d))]
	if !tr.NN && g.chance(0.1) {
		v = ArgVal{"t": "z"}
	}
	return ArgExpr{"t": "lit", "v": v}
}

func (og *opgen) dirs() []Dir {
	g := og.g
	if g.cfg.Off["dirs"] || !g.chance(0.12) {
		return []Dir{}
	}
	og.tag["dirs"] = true
	n := "include"
	if g.chance(0.5) {
		n = "skip"
	}
	var e ArgExpr
	if g.cfg.Off["dirvars"] || g.cfg.Off["vars"] || g.chance(0.5) {
		e = ArgExpr{"t": "lit", "v": ArgVal{"t": "b", "v": g.chance(0.5)}}
	} else {
		e = og.newVar(TypeRef{Name: "Boolean", NN: true}, nil)
		og.tag["dir-var"] = true
	}
	return []Dir{{N: n, If: e}}
}

func (og *opgen) field(parent, name string, depth int) *Sel {
	g := og.g
	w := g.w
	s := &Sel{K: "F", Key: name, Name: name, Dirs: []Dir{}, Sub: []*Sel{}}
	if !((name == "__typename" || name == "id") && g.cfg.Off["dirid"]) {
		s.Dirs = og.dirs()
		if len(s.Dirs) > 0 && (name == "__typename" || name == "id") {
			og.tag["dir-on-id"] = true
		}
	}
	if name == "__typename" || name == "id" {
		if !g.cfg.Off["aliasid"] && g.chance(0.15) {
			og.alias++
			s.Key = fmt.Sprintf("k%d", og.alias)
			og.tag["alias"] = true
		}
		return s
	}
	fd := w.Types[parent].Fields[name]
	if g.chance(0.2) {
		og.alias++
		s.Key = fmt.Sprintf("k%d", og.alias)
		og.tag["alias"] = true
	}
	if len(fd.Args) > 0 {
		s.Args = map[string]ArgExpr{}
		og.tag["args"] = true
		for _, a := range fd.Args {
			if !a.Type.NN && g.chance(0.35) {
				continue // omitted: the schema default (or null) applies
			}
			s.Args[a.Name] = og.argExpr(a.Type, a.Def, 0)
		}
	}
	if !IsScalar(fd.Type.Name) {
		saved := og.via
		og.via = og.ownerOf(parent, name)
		s.Sub = og.selset(fd.Type.Name, depth)
		og.via = saved
		if fd.Type.List2 {
			og.tag["nested-list"] = true
		}
	}
	return s
}

// ownerOf tells which service declares field f of type tn ("" if several or none do)
func (og *opgen) ownerOf(tn, f string) string {
	owner := ""
	for _, s := range og.g.w.Services {
		for _, x := range s.Decl[tn] {
			if x == f {
				if owner != "" {
					return ""
				}
				owner = s.URL
			}
		}
	}
	return owner
}

func (og *opgen) selset(tn string, depth int) []*Sel {
	g := og.g
	w := g.w
	td := w.Types[tn]
	var out []*Sel
	if td.Kind == "UNION" || td.Kind == "INTERFACE" {
		og.tag["abstract"] = true
		if g.chance(0.6) {
			out = append(out, &Sel{K: "F", Key: "__typename", Name: "__typename", Dirs: []Dir{}, Sub: []*Sel{}})
		}
		if td.Kind == "INTERFACE" {
			for _, f := range td.Order {
				if g.chance(0.6) {
					out = append(out, og.field(tn, f, depth+1))
					if g.cfg.Wide && f != "id" && g.chance(0.25) {
						// the same interface field once more under another response key
						again := og.field(tn, f, depth+1)
						og.alias++
						again.Key = fmt.Sprintf("k%d", og.alias)
						out = append(out, again)
						og.tag["iface-field-twice"] = true
					}
				}
			}
		}
		for _, m := range td.Members {
			if g.chance(0.6) {
				fr := &Sel{K: "I", On: m, Dirs: []Dir{}, Sub: og.selset(m, depth+1)}
				if !g.cfg.Off["fragdirs"] {
					fr.Dirs = og.dirs()
					if len(fr.Dirs) > 0 {
						og.tag["frag-dir"] = true
					}
				}
				out = append(out, fr)
			}
		}
		if len(out) == 0 {
			out = append(out, &Sel{K: "F", Key: "__typename", Name: "__typename", Dirs: []Dir{}, Sub: []*Sel{}})
		}
		return out
	}
	var scalars, objs []string
	for _, f := range td.Order {
		if IsScalar(td.Fields[f].Type.Name) {
			scalars = append(scalars, f)
		} else {
			objs = append(objs, f)
		}
	}
	cands := append([]string{}, scalars...)
	if depth < g.cfg.MaxDepth {
		cands = append(cands, objs...)
		if g.cfg.Skeleton && len(objs) > 0 && g.chance(0.6) {
			// nothing of this object itself: after the helper fields are removed it is empty unless its children are not
			cands = append([]string{}, objs...)
		}
	}
	if g.cfg.Skeleton && td.Node && og.via != "" && g.chance(0.7) {
		// only what OTHER services own: everything selected here arrives through follow-up steps (which a service that
		// does not know the entity answers with node: null)
		var elsewhere []string
		for _, f := range cands {
			if o := og.ownerOf(tn, f); o != "" && o != og.via {
				elsewhere = append(elsewhere, f)
			}
		}
		if len(elsewhere) > 0 {
			cands = elsewhere
		}
	}
	if g.chance(0.15) {
		cands = append(cands, "__typename")
	}
	n := 1 + g.pick(3)
	perm := g.r.Perm(len(cands))
	for i := 0; i < n && i < len(perm); i++ {
		f := cands[perm[i]]
		if f == "__typename" {
			og.tag["typename"] = true
		}
		out = append(out, og.field(tn, f, depth+1))
	}
	if len(out) == 0 {
		out = append(out, &Sel{K: "F", Key: "__typename", Name: "__typename", Dirs: []Dir{}, Sub: []*Sel{}})
	}
	if g.cfg.Skeleton && !g.cfg.Off["dirs"] && g.chance(0.35) {
		// every leaf selected here is switched off: once the helper fields are removed the object is empty
		for _, x := range out {
			if x.K == "F" && len(x.Sub) == 0 && len(x.Dirs) == 0 && x.Name != "id" && x.Name != "__typename" {
				if g.chance(0.5) {
					x.Dirs = []Dir{{N: "skip", If: ArgExpr{"t": "lit", "v": ArgVal{"t": "b", "v": true}}}}
				} else {
					x.Dirs = []Dir{{N: "include", If: ArgExpr{"t": "lit", "v": ArgVal{"t": "b", "v": false}}}}
				}
				og.tag["dirs"] = true
			}
		}
	}
	// wrap some of the selections into a fragment
	if !g.cfg.Off["frag"] && g.chance(0.2) && len(out) > 0 {
		k := g.pick(len(out))
		inner := out[k]
		fr := &Sel{K: "I", On: tn, Dirs: []Dir{}, Sub: []*Sel{inner}}
		if !g.cfg.Off["fragdirs"] {
			fr.Dirs = og.dirs()
			if len(fr.Dirs) > 0 {
				og.tag["frag-dir"] = true
			}
		}
		if g.cfg.Off["fragsiblingid"] && td.Node {
			hasID := false
			for _, x := range fr.Sub {
				if x.K == "F" && x.Name == "id" && x.Key == "id" {
					hasID = true
				}
			}
			if !hasID {
				fr.Sub = append(fr.Sub, &Sel{K: "F", Key: "id", Name: "id", Dirs: []Dir{}, Sub: []*Sel{}})
			}
		}
		if g.chance(0.3) {
			fr.On = ""
		} else if g.chance(0.5) {
			og.frag++
			fr.Frag = fmt.Sprintf("F%d", og.frag)
			og.tag["named-frag"] = true
			if og.named == nil {
				og.named = map[string][]*Sel{}
			}
			og.named[tn] = append(og.named[tn], fr)
		}
		og.tag["frag"] = true
		out[k] = fr
	}
	// a named fragment on this type that exists already, spread here once more (the same definition at two places)
	if g.cfg.Wide && !g.cfg.Off["frag"] && len(og.named[tn]) > 0 && g.chance(0.3) {
		old := og.named[tn][g.pick(len(og.named[tn]))]
		// the response keys of the fragment must not collide with what is selected here already (a key selected
		// twice under different conditions is not what this feature is about)
		var keys func(ss []*Sel, acc map[string]bool)
		keys = func(ss []*Sel, acc map[string]bool) {
			for _, x := range ss {
				if x.K == "F" {
					acc[x.Key] = true
				} else {
					keys(x.Sub, acc)
				}
			}
		}
		here, there := map[string]bool{}, map[string]bool{}
		keys(out, here)
		keys(old.Sub, there)
		clash := false
		for k := range there {
			if here[k] {
				clash = true
			}
		}
		if !clash && old != nil {
			out = append(out, &Sel{K: "I", On: old.On, Frag: old.Frag, Dirs: []Dir{}, Sub: old.Sub})
			og.tag["frag-twice"] = true
		}
	}
	// the same object field twice with different sub-selections (merged by response key)
	if !g.cfg.Off["dupkey"] && g.chance(0.06) && depth < g.cfg.MaxDepth {
		for _, s := range out {
			if s.K == "F" && len(s.Sub) > 0 && len(s.Dirs) == 0 {
				fd := td.Fields[s.Name]
				dup := &Sel{K: "F", Key: s.Key, Name: s.Name, Args: s.Args, Dirs: []Dir{}, Sub: og.selset(fd.Type.Name, depth+1)}
				// everything below the copy gets a fresh response key, so that the two copies can merge
				var fresh func(ss []*Sel)
				fresh = func(ss []*Sel) {
					for _, x := range ss {
						if x.K == "F" && x.Name != "id" && x.Name != "__typename" {
							og.alias++
							x.Key = fmt.Sprintf("k%d", og.alias)
						}
						fresh(x.Sub)
					}
				}
				fresh(dup.Sub)
				out = append(out, dup)
				og.tag["dupkey"] = true
				break
			}
		}
	}
	return out
}
