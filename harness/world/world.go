// Package world is the abstract GraphQL "world" shared by the TLA+ specifications (spec/GQL.tla)
// and the Go harness: service schemas, the entity graph, operations - plus renderers to SDL and
// GraphQL text.  The JSON encoding of these types is the contract with the specs (every value is
// tagged, because TLC cannot compare a record with a string and the Json module has no null).
package world

import (
	"fmt"
	"sort"
	"strconv"
	"strings"
)

// Val is a tagged data value:
//
//	{"t":"s","v":scalar}            scalar (string, int or bool)
//	{"t":"z"}                       null
//	{"t":"r","id":"U1"}             reference to an entity
//	{"t":"l","v":[Val]}             list
//	{"t":"o","ty":"Addr","f":{..}}  embedded (non-Node) object
//	{"t":"fn","args":[names],"by":{key:Val},"else":Val}   value depends on the (rendered) arguments
//	{"t":"m","v":{key:Val}}         response object (only in responses)
type Val = map[string]interface{}

// S is a scalar value.  It travels as a string plus a type tag ("s", "i", "b", "f"): TLC refuses to compare a
// string with a number or a boolean, and a response may well carry a value of another type than the reference.
func S(v interface{}) Val {
	switch x := v.(type) {
	case bool:
		return Val{"t": "s", "v": fmt.Sprint(x), "y": "b"}
	case int:
		return Val{"t": "s", "v": fmt.Sprint(x), "y": "i"}
	case int64:
		return Val{"t": "s", "v": fmt.Sprint(x), "y": "i"}
	case float64:
		if x == float64(int64(x)) {
			return Val{"t": "s", "v": fmt.Sprint(int64(x)), "y": "i"}
		}
		return Val{"t": "s", "v": fmt.Sprint(x), "y": "f"}
	case string:
		return Val{"t": "s", "v": x, "y": "s"}
	}
	return Val{"t": "s", "v": fmt.Sprint(v), "y": "s"}
}

// ScalarGo is the Go (JSON) value of a scalar Val.
func ScalarGo(v Val) interface{} {
	y, _ := v["y"].(string)
	sv, isStr := v["v"].(string)
	if y == "" || !isStr {
		return v["v"] // a value written before the type tag existed
	}
	switch y {
	case "b":
		return sv == "true"
	case "i":
		n, _ := strconv.Atoi(sv)
		return n
	case "f":
		f, _ := strconv.ParseFloat(sv, 64)
		return f
	}
	return sv
}

// Retag brings values written before the type tag existed (pinned cases) to the current encoding.
func Retag(v interface{}) interface{} {
	switch x := v.(type) {
	case map[string]interface{}:
		if t, _ := x["t"].(string); t == "s" {
			if _, has := x["y"]; !has {
				return map[string]interface{}(S(x["v"]))
			}
			return x
		}
		out := map[string]interface{}{}
		for k, e := range x {
			out[k] = Retag(e)
		}
		return out
	case []interface{}:
		out := make([]interface{}, len(x))
		for i, e := range x {
			out[i] = Retag(e)
		}
		return out
	}
	return v
}

// RetagWorld applies Retag to the data of a world (entities and root values).
func (w *World) RetagWorld() {
	for _, e := range w.Ents {
		for k, v := range e.F {
			e.F[k] = Retag(map[string]interface{}(v)).(map[string]interface{})
		}
	}
	for _, fs := range w.Roots {
		for k, v := range fs {
			fs[k] = Retag(map[string]interface{}(v)).(map[string]interface{})
		}
	}
}
func Z() Val          { return Val{"t": "z"} }
func R(id string) Val { return Val{"t": "r", "id": id} }
func L(vs ...Val) Val {
	out := make([]interface{}, len(vs))
	for i, v := range vs {
		out[i] = v
	}
	return Val{"t": "l", "v": out}
}

// ArgVal is a tagged argument value:
//
//	{"t":"s","v":"x"} {"t":"i","v":1} {"t":"b","v":true} {"t":"z"} {"t":"e","v":"RED"}
//	{"t":"lst","v":[ArgVal]}  {"t":"io","k":[key order],"v":{k:ArgVal}}
type ArgVal = map[string]interface{}

// ArgExpr is what an operation writes at an argument position:
//
//	{"t":"lit","v":ArgVal} {"t":"var","n":"v1"} {"t":"lst","v":[ArgExpr]} {"t":"io","k":[..],"v":{k:ArgExpr}}
type ArgExpr = map[string]interface{}

type TypeRef struct {
	Name   string `json:"ty"`
	List   bool   `json:"list"`
	NN     bool   `json:"nn"`    // the field (or the list) is non-null
	ElemNN bool   `json:"enn"`   // list elements are non-null
	List2  bool   `json:"list2"` // a list of lists: [[T]] (the inner lists are nullable)
}

func (t TypeRef) String() string {
	s := t.Name
	if t.List {
		if t.ElemNN {
			s += "!"
		}
		s = "[" + s + "]"
		if t.List2 {
			s = "[" + s + "]"
		}
	}
	if t.NN {
		s += "!"
	}
	return s
}

type ArgDecl struct {
	Name string  `json:"name"`
	Type TypeRef `json:"type"`
	Def  ArgVal  `json:"def,omitempty"`
}

type FieldDecl struct {
	Type TypeRef   `json:"type"`
	Args []ArgDecl `json:"args"`
}

type TypeDecl struct {
	Kind    string                `json:"kind"` // OBJECT INTERFACE UNION INPUT ENUM
	Node    bool                  `json:"node"`
	Fields  map[string]*FieldDecl `json:"fields"`
	Order   []string              `json:"order"`   // field order (rendering, input object key order)
	Members []string              `json:"members"` // possible types of INTERFACE / UNION; values of ENUM
	Impl    []string              `json:"impl"`    // interfaces an OBJECT implements (besides Node)
}

type Service struct {
	URL string `json:"url"`
	// Decl[T] = fields of T this service declares (id always implied for Node types); a type that
	// is present with an empty list is declared as a stub
	Decl map[string][]string `json:"decl"`
	SDL  string              `json:"-"`
}

type Entity struct {
	Type string         `json:"ty"`
	F    map[string]Val `json:"f"`
}

type World struct {
	ID       int                       `json:"id"`
	Types    map[string]*TypeDecl      `json:"types"`
	Services []*Service                `json:"services"`
	Ents     map[string]*Entity        `json:"ents"`
	Roots    map[string]map[string]Val `json:"roots"` // "Query"/"Mutation"/"Subscription" -> field -> value
	Tags     []string                  `json:"tags"`  // features this world exercises (classification only)
}

type Dir struct {
	N  string  `json:"n"` // include | skip
	If ArgExpr `json:"if"`
}

type Sel struct {
	K    string             `json:"k"` // "F" field, "I" inline fragment (On may be "")
	Key  string             `json:"key"`
	Name string             `json:"name"`
	Args map[string]ArgExpr `json:"args"`
	Dirs []Dir              `json:"dirs"`
	On   string             `json:"on"`
	Sub  []*Sel             `json:"sub"`
	Frag string             `json:"frag"` // render this inline fragment as a named fragment spread
}

type VarDef struct {
	Type TypeRef `json:"type"`
	Def  ArgVal  `json:"def,omitempty"`
}

type Op struct {
	Kind    string             `json:"kind"` // query | mutation | subscription
	Name    string             `json:"name"`
	VarDefs map[string]*VarDef `json:"varDefs"`
	VarOrd  []string           `json:"varOrd"`
	Vars    map[string]ArgVal  `json:"vars"`
	Sel     []*Sel             `json:"sel"`
	Tags    []string           `json:"tags"`
	// Doc, when set, is the whole document the operation is posted in (it then holds other
	// operations too and the operation is selected by operationName)
	Doc string `json:"doc"`
}

// DocText is the document text to post for op.
func (w *World) DocText(op *Op) string {
	if op.Doc != "" {
		return op.Doc
	}
	return w.OpText(op)
}

// Fill replaces nil maps and slices by empty ones (the TLA+ Json module cannot read null).
func (op *Op) Fill() *Op {
	if op.VarDefs == nil {
		op.VarDefs = map[string]*VarDef{}
	}
	if op.Vars == nil {
		op.Vars = map[string]ArgVal{}
	}
	if op.VarOrd == nil {
		op.VarOrd = []string{}
	}
	if op.Tags == nil {
		op.Tags = []string{}
	}
	var fill func(ss []*Sel)
	fill = func(ss []*Sel) {
		for _, s := range ss {
			if s.Args == nil {
				s.Args = map[string]ArgExpr{}
			}
			if s.Dirs == nil {
				s.Dirs = []Dir{}
			}
			if s.Sub == nil {
				s.Sub = []*Sel{}
			}
			fill(s.Sub)
		}
	}
	fill(op.Sel)
	return op
}

func (w *World) Fill() *World {
	for _, td := range w.Types {
		if td.Fields == nil {
			td.Fields = map[string]*FieldDecl{}
		}
		if td.Order == nil {
			td.Order = []string{}
		}
		if td.Members == nil {
			td.Members = []string{}
		}
		if td.Impl == nil {
			td.Impl = []string{}
		}
		for _, fd := range td.Fields {
			if fd.Args == nil {
				fd.Args = []ArgDecl{}
			}
		}
	}
	if w.Tags == nil {
		w.Tags = []string{}
	}
	for _, r := range []string{"Query", "Mutation", "Subscription"} {
		if w.Roots[r] == nil {
			w.Roots[r] = map[string]Val{}
		}
	}
	return w
}

func RootTypeName(kind string) string {
	switch kind {
	case "mutation":
		return "Mutation"
	case "subscription":
		return "Subscription"
	}
	return "Query"
}

func IsScalar(name string) bool {
	switch name {
	case "String", "Int", "Boolean", "ID", "Float":
		return true
	}
	return false
}

// ---------------------------------------------------------------------------- SDL

func renderArgVal(v ArgVal) string {
	switch v["t"] {
	case "s":
		return strconv.Quote(v["v"].(string))
	case "i":
		return fmt.Sprintf("%v", toInt(v["v"]))
	case "b":
		return fmt.Sprintf("%v", v["v"])
	case "z":
		return "null"
	case "e":
		return v["v"].(string)
	case "lst":
		var parts []string
		for _, e := range v["v"].([]interface{}) {
			parts = append(parts, renderArgVal(e.(map[string]interface{})))
		}
		return "[" + strings.Join(parts, ", ") + "]"
	case "io":
		var parts []string
		m := v["v"].(map[string]interface{})
		for _, k := range strs(v["k"]) {
			if e, ok := m[k]; ok {
				parts = append(parts, k+": "+renderArgVal(e.(map[string]interface{})))
			}
		}
		return "{" + strings.Join(parts, ", ") + "}"
	}
	panic(fmt.Sprintf("bad ArgVal %v", v))
}

func toInt(v interface{}) int {
	switch x := v.(type) {
	case int:
		return x
	case int64:
		return int(x)
	case float64:
		return int(x)
	}
	panic(fmt.Sprintf("not an int: %T", v))
}

func strs(v interface{}) []string {
	switch x := v.(type) {
	case []string:
		return x
	case []interface{}:
		out := make([]string, len(x))
		for i, e := range x {
			out[i] = e.(string)
		}
		return out
	}
	return nil
}

func renderArgs(args []ArgDecl) string {
	if len(args) == 0 {
		return ""
	}
	var parts []string
	for _, a := range args {
		s := a.Name + ": " + a.Type.String()
		if a.Def != nil {
			s += " = " + renderArgVal(a.Def)
		}
		parts = append(parts, s)
	}
	return "(" + strings.Join(parts, ", ") + ")"
}

// ServiceSDL renders the schema one service declares.
func (w *World) ServiceSDL(s *Service) string {
	var b strings.Builder
	hasNode := false
	names := make([]string, 0, len(s.Decl))
	for t := range s.Decl {
		names = append(names, t)
		if w.Types[t].Node {
			hasNode = true
		}
	}
	sort.Strings(names)
	if hasNode {
		b.WriteString("interface Node {\n  id: ID!\n}\n\n")
	}
	for _, t := range names {
		td := w.Types[t]
		fields := s.Decl[t]
		switch td.Kind {
		case "UNION":
			b.WriteString("union " + t + " = " + strings.Join(td.Members, " | ") + "\n\n")
			continue
		case "ENUM":
			b.WriteString("enum " + t + " {\n  " + strings.Join(td.Members, "\n  ") + "\n}\n\n")
			continue
		case "SCALAR":
			b.WriteString("scalar " + t + "\n\n")
			continue
		}
		kw := "type"
		if td.Kind == "INTERFACE" {
			kw = "interface"
		} else if td.Kind == "INPUT" {
			kw = "input"
		}
		head := kw + " " + t
		var impl []string
		if td.Node {
			impl = append(impl, "Node")
		}
		for _, i := range td.Impl {
			if _, ok := s.Decl[i]; ok {
				impl = append(impl, i)
			}
		}
		if len(impl) > 0 && td.Kind == "OBJECT" {
			head += " implements " + strings.Join(impl, " & ")
		}
		b.WriteString(head + " {\n")
		if td.Node {
			b.WriteString("  id: ID!\n")
		}
		if t == "Query" && hasNode {
			b.WriteString("  node(id: ID!): Node\n")
		}
		have := map[string]bool{}
		for _, f := range fields {
			have[f] = true
		}
		for _, f := range td.Order {
			if !have[f] || (f == "id" && td.Node) {
				continue
			}
			fd := td.Fields[f]
			if td.Kind == "INPUT" {
				line := "  " + f + ": " + fd.Type.String()
				b.WriteString(line + "\n")
				continue
			}
			b.WriteString("  " + f + renderArgs(fd.Args) + ": " + fd.Type.String() + "\n")
		}
		b.WriteString("}\n\n")
	}
	return b.String()
}

// ---------------------------------------------------------------------------- operation text

func renderArgExpr(e ArgExpr) string {
	switch e["t"] {
	case "lit":
		return renderArgVal(e["v"].(map[string]interface{}))
	case "var":
		return "$" + e["n"].(string)
	case "lst":
		var parts []string
		for _, x := range e["v"].([]interface{}) {
			parts = append(parts, renderArgExpr(x.(map[string]interface{})))
		}
		return "[" + strings.Join(parts, ", ") + "]"
	case "io":
		var parts []string
		m := e["v"].(map[string]interface{})
		for _, k := range strs(e["k"]) {
			if x, ok := m[k]; ok {
				parts = append(parts, k+": "+renderArgExpr(x.(map[string]interface{})))
			}
		}
		return "{" + strings.Join(parts, ", ") + "}"
	}
	panic(fmt.Sprintf("bad ArgExpr %v", e))
}

func renderDirs(ds []Dir) string {
	s := ""
	for _, d := range ds {
		s += " @" + d.N + "(if: " + renderArgExpr(d.If) + ")"
	}
	return s
}

type fragAcc struct {
	defs  []string
	names map[string]bool
}

func (w *World) renderSel(b *strings.Builder, sels []*Sel, indent string, parentType string, fa *fragAcc) {
	for _, s := range sels {
		switch s.K {
		case "F":
			b.WriteString(indent)
			if s.Key != s.Name {
				b.WriteString(s.Key + ": ")
			}
			b.WriteString(s.Name)
			if len(s.Args) > 0 {
				var names []string
				for a := range s.Args {
					names = append(names, a)
				}
				sort.Strings(names)
				var parts []string
				for _, a := range names {
					parts = append(parts, a+": "+renderArgExpr(s.Args[a]))
				}
				b.WriteString("(" + strings.Join(parts, ", ") + ")")
			}
			b.WriteString(renderDirs(s.Dirs))
			if len(s.Sub) > 0 {
				b.WriteString(" {\n")
				ft := ""
				if td := w.Types[parentType]; td != nil && td.Fields[s.Name] != nil {
					ft = td.Fields[s.Name].Type.Name
				}
				w.renderSel(b, s.Sub, indent+"  ", ft, fa)
				b.WriteString(indent + "}")
			}
			b.WriteString("\n")
		case "I":
			on := s.On
			if on == "" {
				on = parentType
			}
			if s.Frag != "" {
				b.WriteString(indent + "..." + s.Frag + renderDirs(s.Dirs) + "\n")
				if !fa.names[s.Frag] {
					fa.names[s.Frag] = true
					var fb strings.Builder
					fb.WriteString("fragment " + s.Frag + " on " + on + " {\n")
					w.renderSel(&fb, s.Sub, "  ", on, fa)
					fb.WriteString("}\n")
					fa.defs = append(fa.defs, fb.String())
				}
				continue
			}
			b.WriteString(indent + "...")
			if s.On != "" {
				b.WriteString(" on " + s.On)
			}
			b.WriteString(renderDirs(s.Dirs) + " {\n")
			w.renderSel(b, s.Sub, indent+"  ", on, fa)
			b.WriteString(indent + "}\n")
		}
	}
}

// OpText renders the operation as GraphQL text.
func (w *World) OpText(op *Op) string {
	var b strings.Builder
	b.WriteString(op.Kind)
	if op.Name != "" {
		b.WriteString(" " + op.Name)
	}
	if len(op.VarOrd) > 0 {
		var parts []string
		for _, v := range op.VarOrd {
			d := op.VarDefs[v]
			s := "$" + v + ": " + d.Type.String()
			if d.Def != nil {
				s += " = " + renderArgVal(d.Def)
			}
			parts = append(parts, s)
		}
		b.WriteString("(" + strings.Join(parts, ", ") + ")")
	}
	b.WriteString(" {\n")
	fa := &fragAcc{names: map[string]bool{}}
	w.renderSel(&b, op.Sel, "  ", RootTypeName(op.Kind), fa)
	b.WriteString("}\n")
	for _, d := range fa.defs {
		b.WriteString(d)
	}
	return b.String()
}

// ArgValToGo converts a tagged argument value to the plain JSON value a client would send.
func ArgValToGo(v ArgVal) interface{} {
	switch v["t"] {
	case "s", "b", "e":
		return v["v"]
	case "i":
		return toInt(v["v"])
	case "z":
		return nil
	case "lst":
		out := []interface{}{}
		for _, e := range v["v"].([]interface{}) {
			out = append(out, ArgValToGo(e.(map[string]interface{})))
		}
		return out
	case "io":
		out := map[string]interface{}{}
		for k, e := range v["v"].(map[string]interface{}) {
			out[k] = ArgValToGo(e.(map[string]interface{}))
		}
		return out
	}
	panic(fmt.Sprintf("bad ArgVal %v", v))
}

func (op *Op) VarsToGo() map[string]interface{} {
	if op.Vars == nil {
		return nil
	}
	out := map[string]interface{}{}
	for k, v := range op.Vars {
		out[k] = ArgValToGo(v)
	}
	return out
}

// TagJSON converts a decoded JSON response value (encoding/json) to the tagged form.
func TagJSON(v interface{}) Val {
	switch x := v.(type) {
	case nil:
		return Z()
	case map[string]interface{}:
		m := map[string]interface{}{}
		for k, e := range x {
			m[k] = TagJSON(e)
		}
		return Val{"t": "m", "v": m}
	case []interface{}:
		out := make([]interface{}, len(x))
		for i, e := range x {
			out[i] = TagJSON(e)
		}
		return Val{"t": "l", "v": out}
	case []map[string]interface{}:
		out := make([]interface{}, len(x))
		for i, e := range x {
			out[i] = TagJSON(e)
		}
		return Val{"t": "l", "v": out}
	case float64:
		return S(x)
	default:
		return S(x)
	}
}

// RenderArg renders a Go argument value (as delivered by gqlparser's ArgumentMap) canonically; the
// same function exists in spec/GQL.tla (RenderArgVal).  keyOrder gives the field order of input
// object types.
func RenderArg(v interface{}, ty TypeRef, w *World) string {
	switch x := v.(type) {
	case nil:
		return "~"
	case string:
		return x
	case bool:
		if x {
			return "TRUE"
		}
		return "FALSE"
	case int:
		return strconv.Itoa(x)
	case int64:
		return strconv.FormatInt(x, 10)
	case float64:
		return strconv.FormatInt(int64(x), 10)
	case []interface{}:
		var parts []string
		et := TypeRef{Name: ty.Name}
		for _, e := range x {
			parts = append(parts, RenderArg(e, et, w))
		}
		return "[" + strings.Join(parts, ",") + "]"
	case map[string]interface{}:
		var parts []string
		td := w.Types[ty.Name]
		if td == nil {
			return "{?}"
		}
		for _, k := range td.Order {
			e, ok := x[k]
			if !ok {
				continue
			}
			parts = append(parts, k+"="+RenderArg(e, td.Fields[k].Type, w))
		}
		return "{" + strings.Join(parts, ",") + "}"
	}
	return fmt.Sprintf("?%T", v)
}
