#!/usr/bin/env python3
"""Generates /verif/MANIFEST.json.  Run after claiming or withdrawing a property."""
import json
import os
import subprocess

VERIF = os.path.dirname(os.path.dirname(os.path.abspath(__file__)))
props = [json.loads(l) for l in open(os.path.join(VERIF, "properties.jsonl"))]

TECH = "TLA+ spec checked by TLC + replay of TLC behaviours into the real code + TLC trace validation of recorded runs"

CHECKS = {
    "C20": dict(
        category="model_checking",
        text="MapReduceImpl (the helper's goroutine/channel/WaitGroup protocol, one action per step between hook points) is model-checked exhaustively for n<=3 (quick) / n<=4 (thorough) against the contract MapReduceAbs (refinement, no crash, no leak, termination); every behaviour for n<=2, an edge-covering + seeded sample (quick) or all 93,072 behaviours (thorough) for n=3 are forced on the real common.AsyncMapReduce through hook gates (plus the same behaviours with the caller's gates opened early) and compared step by step; perturbed free runs up to n=64 (race detector in thorough) are validated by TLC against MapReduceAbs.",
        ref="DESIGN.md section 6 C20",
        note="Trusts TLC, the gate scheduler and the harness-supplied map/reduce functions; schedules inside the Go runtime below hook points are not controlled; goroutine accounting by runtime.NumGoroutine.",
        technique="TLA+ spec (Impl=>Abs by TLC) + replay of TLC behaviours into real code via hook gates + TLC trace validation of recorded runs"),
    "C11": dict(
        category="model_checking",
        text="BatcherImpl (chunk arithmetic N div m + 1, queryBatch's file / non-file index spaces, splice in completion order) is model-checked against the contract BatcherAbs (each request in exactly one call, at most m per call, result i answers request i, any failed call => error and no partial result, any completion order) exhaustively for N<=5,m<=3 (quick) / N<=7,m<=4 (thorough); behaviours (edge cover + seeded sample, or all) are forced on the real MultiOpQueryer with a gating RoundTripper that controls completion order and failures (a failing call is an HTTP 500, a body that is not JSON, or a transport error that looks like a lost connection - errors.Is finds EOF / ECONNRESET / EPIPE - after the service received the call); free runs with random delays/failures up to N=200, m=64 are validated by TLC against BatcherAbs.",
        ref="DESIGN.md section 6 C11",
        note="Assumes a service that answers each call with one entry per request in order (other shapes belong to C09); sends are observed, completion order and status are controlled.",
        technique="TLA+ spec (Impl=>Abs by TLC) + replay of TLC behaviours through a gating HTTP transport + TLC trace validation"),
    "C01": dict(
        category="model_checking",
        text="GQL.tla defines Ref (the GraphQL execution algorithm over the union of the services' data) and Norm (the tolerated pruning); FederationAbs allows a response only if Norm(data)=Norm(Ref) and errors is empty. The REAL gateway (NewGateway: real merger, planner, executor, MultiOpQueryer; six configurations: default, node-hiding merger, id->type hint, cached planner, batch size 1 and 2) is run over fake services that validate and evaluate what they receive, on seeded generated (schemas x entity graph x operation x variables) cases - 15k (quick) / 500k (thorough) operation runs - and TLC recomputes Ref for every recorded case and accepts or refuses the recorded response (FederationTrace). The harness's own evaluator is cross-checked against Ref on every case. Generator features with a recorded defect are exercised in separate strata so that the core stratum has no exemptions.",
        ref="DESIGN.md section 6 C01",
        note="Sampled, not exhaustive, over an abstract GraphQL (objects, Node/value types, lists, nulls, aliases, arguments, variables with defaults, @skip/@include, inline and named fragments, interfaces/unions in their own stratum; scalars over a small alphabet). Assumes consistent services and mergeable schema sets; schemas are handed to the gateway by an SDL-loading introspector.",
        technique="TLA+ reference semantics (Ref/Norm) evaluated by TLC on traces recorded from the real gateway (trace validation), seeded generation in strata"),
    "C02": dict(
        category="translation_validation",
        text="Each client operation is a program that the planner translates into a tree of sub-programs. FederationAbs!PlanOK states the per-translation claim (every step text parses and validates against the RECEIVING service's own schema as judged by that service's gqlparser, declares the variables it uses, root steps keep operation kind and name, child steps are node queries on Node types; together the steps cover every client-selected field at a service that declares it; only id/__typename helpers are added and each is registered for removal; nothing the client selected is registered for removal) and ReqOK the per-request claim (every request actually received is an instance of a plan step, valid for its service, carrying the client's value or declared default of every variable it uses). TLC evaluates both on the plans and requests recorded from the real planner/executor for 15k (quick) / 500k (thorough) generated operation runs; negative controls (dropped step, wrong service, unregistered helper, changed variable value, invalid request) must be refused.",
        ref="DESIGN.md section 6 C02",
        note="Validity for a schema is decided by gqlparser (trusted); ownership/coverage/helper/variable accounting by the specification on abstract projections produced by the harness (fakesvc.AbsSel/Facts). Scalar-valued arguments only.",
        technique="TLA+ contract (PlanOK/ReqOK) evaluated by TLC on recorded translations (trace validation) + negative controls"),
    "C12": dict(
        category="model_checking",
        text="FederationAbs!QCall allows a batched call (Queryer.Query) to a service only while the number of calls to it is below the number of levels of the OBSERVED plan at which it appears, and only without two identical id-only lookups; TLC validates the calls recorded from the real executor on 22k (quick) / 500k (thorough) generated operation runs whose data contains repeated entities in lists and root lists of 20..220 entries, so a second call at one level (N+1) or a duplicated lookup has no enabled action. C01 on the same traces guarantees that de-duplicated answers are stitched everywhere.",
        ref="DESIGN.md section 6 C12",
        note="Levels come from the recorded plan; a call is one Queryer.Query on the recording wrapper around the real MultiOpQueryer.",
        technique="TLA+ contract (QCall) evaluated by TLC on recorded executions (trace validation) + negative controls"),
    "C06": dict(
        category="model_checking",
        text="FederationAbs (Enforce=C06): a `mutation` request is only sent for a mutation operation and only to a service declaring every root field it carries; all other requests of the operation are node queries; at the response every client-selected root field (after @skip/@include) was carried by exactly one request and never by more than one. TLC validates the requests logged by the receiving fake services for 24k (quick) / 500k (thorough) generated mutation runs under batch sizes 1/2/3000, caching planner, id hint, node-hiding merger, and the same mutation sent twice in a row.",
        ref="DESIGN.md section 6 C06",
        note="Fault-free runs here; failures in sibling/child steps are exercised by C09's fault strata with the same C06 predicate enforced.",
        technique="TLA+ contract evaluated by TLC on recorded executions (trace validation) + negative controls"),
    "C09": dict(
        category="fault_enumeration",
        text="Every generated operation is run fault-free (to learn the downstream calls it makes), then once per injected fault - 18 kinds (transport error, HTTP 500, non-JSON body, JSON object instead of array, array too short / too long, GraphQL errors on one / on every entry, missing data, null data, missing node, node of the wrong JSON type, list for object, object for list, scalar inside a list, null leaf, extra key) x a seeded choice of (service, call, position in the batch) - then fault-free again (canary). FederationAbs (Enforce=C09,C01) lets the faulty run respond only with a well-formed 200 answer whose errors is non-empty for failure-signal kinds and whose scalar leaves all occur in what the services returned; the canary must satisfy C01. The gateway runs in a child process, so a panic in one of its goroutines or a hang is observed and attributed to the case. 19k (quick) / 500k (thorough) runs, validated by TLC.",
        ref="DESIGN.md section 6 C09",
        note="Single faults per run (pairs are separate runs); fault positions are sampled by seed, not enumerated exhaustively; independence of batch siblings is checked in C08.",
        technique="TLA+ contract evaluated by TLC on recorded fault runs (trace validation), child-process crash/hang observation"),
    "C10": dict(
        category="model_checking",
        text="(a) Invalid operations derived from valid generated ones by one mutation (11 kinds: unknown field/argument/type, undeclared variable, wrong variable type, selection on a leaf, object without selection, fragment cycle, two operations without operationName, unknown operationName, syntax error; invalidity confirmed by gqlparser on the merged schema) are sent to the real gateway: FederationAbs (Enforce=C10) has no enabled Call/QCall action for them and accepts only a response with errors and data:null; the valid operation is served afterwards. (b) For the fault kinds `errors`/`errorsall` every GraphQL error a service answered with must occur in the client's errors with identical message, extensions and path. 21k (quick) / 300k (thorough) runs validated by TLC.",
        ref="DESIGN.md section 6 C10",
        note="Invalidity is decided by gqlparser (trusted). Error payload alphabets are small.",
        technique="TLA+ contract evaluated by TLC on recorded runs (trace validation) + negative controls"),
    "C13": dict(
        category="model_checking",
        text="Determinism.tla: an observation of one execution is (data, set of error messages, per service the bag of sub-requests); for one gateway and one (operation, fault plan) every execution must yield the first observation again. Each generated operation is executed 7 (quick) / 26 (thorough) times on the same gateway (the first execution, which also learns the calls for the fault plan, counts: what it leaves in a cached plan must not show later) - plain and caching planner - while Go randomises map iteration and the fake transport perturbs the completion order of the concurrent calls with seeded delays; half of the operations run under a fixed injected fault tied to sub-requests by identity or under sparse knowledge (every service answers node: null for a fixed part of the entities, in every call). Strata: core, skeleton (objects holding nothing but object-valued fields), abstract types, root node(id:) queries. ExecMerge.tla models the merge of one depth's results in completion order: TLC shows it order-independent with the rule the code uses (a null never replaces an answer) and order-dependent with last-one-wins, and enumerates the completion orders of 2..4 concurrent calls, which are FORCED on the real executor through gated service calls (each call held at the fake transport, released one at a time, the next after the executor has reduced the previous result). TLC validates every recorded observation (60k quick / 830k+ thorough executions).",
        ref="DESIGN.md section 6 C13",
        note="Map-iteration nondeterminism is sampled over k executions, not enumerated; completion orders of the calls of one depth are enumerated by TLC and forced (6 order combinations per operation, all permutations available up to 4 concurrent calls). Services answer the same way by construction (faults are tied to request identity, not batch position).",
        technique="TLA+ model of merging in completion order (TLC; orders replayed on the real executor through gated calls) + TLA+ contract (first observation = every observation) evaluated by TLC on recorded repeated executions"),
    "C03": dict(
        category="model_checking",
        text="Merge.tla defines Merged(S), the union of the declarations of a set of service schemas (types by name, fields with result type and arguments incl. defaults, enum values, union members, interfaces, input fields, directives, the node entry point), order free by construction (TLC checks Merged(pi(S)) = Merged(S) for all permutations on every enumerated set). The real merger (ExtendMergerFunc, SanitizeNodeMergerFunc) is run on every permutation of (a) every set of 2 services over the grammar of MergeGen.tla and every set of 3 services over its reduced grammar, enumerated by TLC (a seeded slice in the quick tier), and (b) seeded generated sets of 1-4 services covering all type kinds; TLC validates the projected result schema against Merged(S) (MergeTrace, Enforce=C03).",
        ref="DESIGN.md section 6 C03",
        note="Signatures are compared as gqlparser renders them; descriptions and deprecations are not part of the comparison; the result is valid by construction of the merger (it is re-parsed by gqlparser) and that is recorded.",
        technique="TLA+ declarative union (Merge.tla) + TLC enumeration of schema sets (MergeGen.tla) replayed on the real merger in all orders + TLC trace validation of the results"),
    "C04": dict(
        category="model_checking",
        text="Merge!RoutesOK(S, r): every root field routed to the one declaring service, every non-id field of every object type of Merged(S) routed to a service declaring it on that type, no phantom routes, Node flag iff the type implements Node, routed services = contributing services. TLC evaluates it on the TypeURLMap returned by the real merger for every mergeable set (TLC-enumerated and generated) in every order of the service list; in every other set one service calls its root operation types RootQ/RootM/RootS (same abstract schema, same expectation); in the mode extend-again every order, then the first order once more, then every service alone are merged from ONE set of parsed schema objects (what a merge leaves in its inputs must not change the next outcome; the expectation comes from what the services declared).",
        ref="DESIGN.md section 6 C04",
        note="That the planner finds a route for every field of the merged schema is exercised indirectly by C01/C02 (generated operations over the same routing tables), not enumerated per field here.",
        technique="TLA+ contract (RoutesOK) evaluated by TLC on routing tables recorded from the real merger, sets enumerated by TLC and generated"),
    "C05": dict(
        category="model_checking",
        text="Merge!Mergeable(S) states the conflicts of the property (root field twice, one name two kinds, Node in one service only, Node-type field twice, shared plain/input type neither identical nor disjoint, shared field with different type/arguments, union with different members). For EVERY permutation of the service list the real merger (both merger functions and NewGateway) must accept iff Mergeable and never panic (MergeTrace, Enforce=C05). Sets: all sets over MergeGen.tla's grammar enumerated by TLC (2 services rich - incl. one name as custom scalar here and enum/object there -, 3 services reduced with three plain fields, so that one declaration can be disjoint from two that overlap each other; each conflict kind arises naturally) and generated mergeable sets with 0-2 conflict-introducing edits (8 kinds).",
        ref="DESIGN.md section 6 C05",
        note="Interfaces are declared by one service in the generated sets; directive-definition conflicts are not part of the property.",
        technique="TLA+ declarative conflict definition + TLC enumeration of schema sets replayed on the real merger in all orders + TLC trace validation"),
    "C07": dict(
        category="model_checking",
        text="HttpFront.tla is a grammar of request SHAPES (content type x JSON body shape x member classes of query/variables/operationName x batch element classes x multipart layout x 19 file-map path classes incl. indexes beyond the int range x 12 query-text classes incl. an interface without members, root __typename, introspection mixed with data, introspection arguments from variables of the wrong JSON type; batch elements incl. introspection at any position) and Outcome(shape), what the property allows (422 / 200 with errors and data:null / 200 with a well-formed envelope; always: the handler returns and the next request is served). TLC enumerates all shapes (about 2,000); the driver renders each to bytes (2 quick / 6 thorough renderings), sends it to the real Gateway.Handler of a real gateway, sends a canary, and TLC checks the recorded answer against Outcome (HttpFrontTrace). 1,500 (quick) / 20,000 (thorough) byte-mutated renderings per shard are checked against the shape-independent part of the property. The driver is a child process: a panic in a gateway goroutine is observed as its death.",
        ref="DESIGN.md section 6 C07",
        note="\"All byte strings\" is covered as shape classes plus random byte mutations, not exhaustively; the handler is invoked in-process (a panic in the handler goroutine is caught by the driver and reported).",
        technique="TLA+ shape grammar + outcome function, TLC enumeration replayed on the real handler, TLC trace validation of the answers"),
    "C08": dict(
        category="model_checking",
        text="BatchFront.tla models the batch fan-out of gateway.go (Run(i): operation i executed; Place(i): the reducer stored its result at index i; Emit); TLC checks InOrder for every interleaving (n<=3 quick, n<=4 thorough) and every behaviour is FORCED on the real handler through the hook gates of the batch-level AsyncMapReduce instance. BatchTrace.tla states the contract on observations: status 200, an array of exactly N results, result i = the result the same operation gets when sent alone to the same gateway. Also perturbed free batches of 0..30 operations (queries, mutation, introspection, invalid, unknown operation names with distinct messages, failing downstream, slow) on plain and caching gateways, burst batches (16 operations refused at the same point, all goroutines released at the same instant), and one shard built with the Go race detector (a data race between the goroutines of two operations of one batch is shared state between them): 3k (quick) / 30k (thorough) batches validated by TLC.",
        ref="DESIGN.md section 6 C08",
        note="Single results are observed on the real code right after the batch; downstream failure / slowness is selected by operation name so that it is the same alone and in a batch; nested fan-outs are not gated.",
        technique="TLA+ model of the fan-out (TLC, all interleavings) forced on the real handler via hook gates + TLC trace validation of batch-vs-single observations"),
    "C14": dict(
        category="model_checking",
        text="PlanCache.tla models the caching planner as written (key taken before planning, eviction on every call, lookup, compute + in-place sanitisation + store, two requests in flight) over a pool of 9 operations that differ pairwise in exactly one component (selection - also: the service's root field next to a root field the gateway answers itself, whose plan the handler splits on every request -, operation type, which operation of a two-operation document operationName selects, variable defaults, fragment body behind the same spread, helper ids written out). TLC checks that every request uses the plain planner's plan for ITS operation, that the key the code hashed before fix C14-X1 violates this (vacuity guard), and prints all complete histories (23,328); a seeded slice (quick) / all (thorough) x TTL in {0, short, long} are replayed on a real caching gateway and in lockstep on a real plain gateway; CacheTrace.tla demands equal responses and equal per-service sub-request bags. Plus long random histories with 1-8 concurrent clients and varying variable values over a pool extended by 24 numbered aliases (distinct cache keys: plans are built many times), and a hammer: 16 clients send the whole pool to one caching gateway as fast as they can (plans computed, looked up and evicted at the same instant), every answer must be the plain gateway's for that operation and those variables.",
        ref="DESIGN.md section 6 C14",
        note="Expiry is straddled with real millisecond TTLs and sleeps; concurrent histories compare responses only; subscriptions interleaved with queries are exercised by the subscription drivers on a caching gateway.",
        technique="TLA+ model of the cache protocol (TLC) whose histories are replayed differentially on caching vs plain real gateways + TLC trace validation"),
    "C19": dict(
        category="model_checking",
        text="Upload.tla: the layouts of a GraphQL multipart request (which upload mutations of two services are selected; which client file - A, B or none - the map attaches to each of four variable paths: top level, inside an input object, two list positions, one file at several paths; single or batched) and the contract SvcReqOK (a service request that uses variable v carries exactly the client's files under v at the same paths with the same name and bytes, and is multipart iff it carries one; the operation succeeds). TLC enumerates all 5,472 layouts and, at design level, shows that leaf-by-leaf extraction that nulls shared containers in place loses files for the second reader under every interleaving that lets it come second. Every layout is sent as a real multipart/form-data request through the real gateway; the fake services re-parse the multipart they receive; TLC validates what they got (UploadTrace). Every other shard sends the two files under ONE client file name (they are still two files); four shards use a 3 MiB file read by several upstream requests at once.",
        ref="DESIGN.md section 6 C19",
        note="Two files (text and binary with CRLF / boundary-like bytes), trees of depth <= 2; the interleaving of the two concurrent service requests is not forced.",
        technique="TLA+ layout grammar + contract, TLC enumeration replayed as real multipart requests, TLC trace validation of what the services received"),
    "C15": dict(
        category="model_checking",
        text="Introspect.tla: IntroOK - the schema the real ParallelRemoteSchemaIntrospector reconstructs from a spec-compliant introspection answer for S equals S in the abstract view (kinds, descriptions, fields with arbitrarily nested list/non-null wrappers, argument names/types/default values of every value kind, deprecations with and without reason, enum values and their deprecations, union members, interfaces, input fields and defaults, custom scalars, directives with arguments, defaults and locations, root operation type names); SchemaDiff names the first difference. S = a base schema + every set of at most two of 38 type-system features, all 742 enumerated by TLC; the answer is produced by the harness's own spec-compliant responder evaluating the introspection query the gateway sends.",
        ref="DESIGN.md section 6 C15",
        note="Fidelity checking with TLC as enumerator and contract evaluator, no interleavings; strings over a small alphabet; both sides compared through one projection of gqlparser schemas.",
        technique="TLA+ contract (IntroOK/SchemaDiff) + TLC enumeration of feature sets replayed on the real introspector + TLC trace validation"),
    "C16": dict(
        category="model_checking",
        text="Introspect.tla IntroOK on what (a) a standard client (the harness's reimplementation of buildClientSchema) and (b) a SECOND REAL GATEWAY's introspector rebuild from the real gateway's answer to the standard introspection query, compared with the schema the gateway was started with; __type(name:) by literal and by variable must equal the entry of __schema.types; for every root field: reported <=> an operation using it validates. Schemas: base + every set of at most two of 38 type-system features (742, enumerated by TLC).",
        ref="DESIGN.md section 6 C16",
        note="One service per gateway (merging is C03); mixed introspection + data operations are exercised by C07's shapes.",
        technique="TLA+ contract + TLC enumeration of feature sets replayed on the real gateway (and a second gateway behind it) + TLC trace validation"),
    "C17": dict(
        category="model_checking",
        text="SubscriptionAbs.tla: the delivery contract per (connection, id) - the frames read under an id are, in order, one per event the owning service emitted: a `data` message whose payload equals Stitch(world, subscription, event) with no errors for a data event, the upstream's error messages for an error event; no frame under an id nobody subscribed with, never more frames than events, and when the system is quiet every event has been delivered. TLC model-checks the contract on an abstract payload domain against a FIFO-forwarder design (holds, incl. eventual delivery) and a forwarder that may tag with another id (violated). SubscriptionTrace.tla binds Stitch to Norm(GQL!Ref(world with the event's value at the Subscription root field, operation)) - the same reference evaluator that decides C01 - and validates recorded traces of the real gateway: generated worlds with a Subscription root split over up to 3 services, 1-2 real websocket connections, 1-4 subscriptions (same operation several times, same id on two connections), seeded event histories (data, errors without data, data next to errors, error messages) emitted by fake upstreams over real TCP, interleaved at random, gateway configurations default/cached/sanitize/idhint.",
        ref="DESIGN.md section 6 C17",
        note="Direction B only: schedules are not forced (free-running goroutines with seeded delays); operations come from the core stratum of the C01 generator (C01's recorded findings are switched off here); follow-up services answer honestly.",
        technique="TLA+ contract checked by TLC on an abstract domain + TLC trace validation of frames recorded from the real gateway against GQL!Ref, with an R7 cross-check of the harness's evaluator on every event"),
    "C18": dict(
        category="model_checking",
        text="SubscriptionImpl.tla: one subscription on one client connection as the code is written - connection handler (stop, terminate, malformed message, abrupt disconnect; deferred exit: close frame, conn.Close, CleanAll), Listen (select on respCh/closeCh, prepare, write, deferred close of queryerCloseCh), Close, the upstream reader (read; select{respCh<-payload | <-queryerCloseCh}; exit path) and closer of MultiOpQueryer.Subscribe, plus the start whose upstream handshake fails - one action per step between two hook points, over 12 client scripts (stop, a start under the id in use, terminate, malformed message, abrupt disconnect) x 10 upstream scripts (event, error message, complete, disconnect). TLC: NoLeak (at every state where nothing can happen any more, an ended subscription/connection has no goroutine and no upstream connection left), termination EventuallyGone under weak fairness, TypeOK; SubscriptionFrames.tla: frames of concurrent writers reach the wire intact iff handed over in one Write call or under a lock. Binding: behaviours of the model (complete edge cover of its state graph in the thorough tier + sampled maximal paths) are forced on the real gateway over real websocket/TCP connections by parking every goroutine at its hook points and comparing the parked set with the model's program counters after every action; verdict from the real process: death of the (child) process, goroutines or upstream connection left after the end, malformed frame at the client. Direction B: in the free-running stress (1-3 connections, several subscriptions each, nothing forced) the hook events of every subscription's goroutines are recorded per goroutine (Listen, Close, upstream reader, upstream closer - per goroutine the order is certain, across goroutines it is not) and SubscriptionImplTrace.tla lets TLC search for a behaviour of SubscriptionImpl that explains all four logs (one position per goroutine; the shared connection handler's steps are inferred) and, the run having settled after every client left, ends with nothing of the subscription left; corrupted copies of accepted records must be refused.",
        ref="DESIGN.md section 6 C18",
        note="One subscription per connection in the forced behaviours (the operation a restart starts runs freely); two concurrent writers (two listeners, events > 4 KiB, listener + heartbeat) for frames, gated at the connection's Write calls only; free-running stress over 1-3 connections with several subscriptions each, restarts under ids in use, incomplete frames; when the code leaves the model's path without doing anything the property forbids the behaviour is judged by its end state and SPEC-DRIFT is noted; the select between a ready event and a closed closeCh cannot be forced (TLC shows no state is lost). The model is of the protocol after the fix: commits; SubscriptionImplOld.tla keeps the model of the protocol as found, whose TLC counterexamples were reproduced on the code.",
        technique="TLA+ model of the teardown protocol checked by TLC (safety at quiescence + liveness) whose behaviours are replayed into the real gateway through a gate scheduler on build-tagged hook points; TLC trace validation of the hook events of free runs (per-goroutine logs, interleaving inferred by TLC) and of the recorded Write calls"),
}

PENDING = "not claimed yet: specification and binding for this property are still being built (DESIGN.md section 10 build order)"
NOT_APPLICABLE = {}

hook_commits = subprocess.run(["git", "-C", "/repo", "log", "--format=%h", "--grep", "^verif hooks"], stdout=subprocess.PIPE, text=True).stdout.split()

man = {
    "version": 1,
    "setup_cmd": "bin/setup",
    "hooks": {"guard": "verif", "enable": "go build -tags verif (harness module /verif/harness, replace github.com/buildbuildio/pebbles => /repo)",
              "baseline_off_cmd": "cd /repo && go test -vet=off -count=1 ./...", "source_commits": hook_commits, "add_only": True},
    "engines": [{"name": "tlc+harness", "path": "bin/check", "serves_properties": sorted(CHECKS),
                 "kind_free_text": "TLA+ specifications in spec/ checked by TLC; Go harness in harness/ replays TLC-generated behaviours into the real code (direction A) and records traces that TLC validates against the specifications (direction B)"}],
    "checks": [],
    "notes": "Properties are moved from not_applicable to checks as their specification + binding is built (build order in DESIGN.md section 10).",
    "not_applicable": [],
}
for p in props:
    pid = p["id"]
    if pid in CHECKS:
        c = CHECKS[pid]
        man["checks"].append({
            "property_id": pid, "quick_cmd": "bin/check %s quick" % pid, "thorough_cmd": "bin/check %s thorough" % pid,
            "evidence_file": "evidence/%s.json" % pid, "replay_cmd_template": "bin/check %s quick --replay {path}" % pid,
            "engine": "tlc+harness",
            "level_claimed": {"category": c["category"], "text": c["text"], "design_ref": c["ref"]},
            "level_note": c["note"], "technique": c.get("technique", TECH)})
    else:
        man["not_applicable"].append({"property_id": pid, "reason": NOT_APPLICABLE.get(pid, PENDING)})
json.dump(man, open(os.path.join(VERIF, "MANIFEST.json"), "w"), indent=1)
print("MANIFEST.json: %d checks, %d not_applicable" % (len(man["checks"]), len(man["not_applicable"])))
