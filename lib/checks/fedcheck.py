"""Common driver of the checks decided on traces of the real request path (C01, C02, C06, C12):
seeded generation in strata -> real gateway over fake services -> FederationTrace validated by TLC
with Enforce = {the property}.  What differs per property: Enforce, the classifier that turns a
refused line into a signature, the negative controls, the evidence level."""
import copy
import json
import os
import time

import vlib
from vlib import log
from checks import fedlib

CFGS = "default,sanitize,idhint,cached,batch1,batch2"


# ------------------------------------------------------------------------------------------------
# description of refused Plan / Call lines (Python twins of the TLA+ predicates, used ONLY to name
# the reason; the verdict is TLC's)

def _nodes(world, sels, path, pt, out):
    for s in sels:
        if s["k"] == "F":
            out.add((tuple(path), pt, s["name"], s["key"]))
            if s["sub"]:
                ft = ""
                td = world["types"].get(pt)
                if pt == "Query" and s["name"] == "node":
                    ft = "Node"
                elif td and s["name"] in td["fields"]:
                    ft = td["fields"][s["name"]]["type"]["ty"]
                _nodes(world, s["sub"], path + [s["key"]], ft, out)
        else:
            _nodes(world, s["sub"], path, s["on"] or pt, out)


def plan_reason(world, op, plan):
    if plan.get("err"):
        return "plan:planner-error"
    steps = [s for s in plan["steps"] if not s["internal"]]
    svc = {s["url"]: s for s in world["services"]}
    for st in steps:
        f = st["facts"]
        if st["url"] not in svc:
            return "plan:step-for-unknown-service"
        if not f["parses"]:
            return "plan:sub-request-does-not-parse"
        if not f["validates"]:
            return "plan:sub-request-invalid-for-its-service:" + fedlib.err_class(f["err"])
        if any(u not in f["declared"] for u in f["used"]):
            return "plan:sub-request-uses-undeclared-variable"
        root = st["parentType"] in ("Query", "Mutation", "Subscription")
        if root and (f["kw"] != op["kind"] or f["opName"] != op["name"]):
            return "plan:root-step-loses-operation-kind-or-name"
        if not root and f["kw"] != "query":
            return "plan:child-step-is-not-a-query"
    client = set()
    _nodes(world, op["sel"], [], {"query": "Query", "mutation": "Mutation", "subscription": "Subscription"}[op["kind"]], client)
    client = {n for n in client if not (n[2] == "__typename" and n[0] == ())}
    sent = set()
    for st in steps:
        ns = set()
        if st["parentType"] in ("Query", "Mutation", "Subscription"):
            _nodes(world, st["facts"]["sel"], [], st["parentType"], ns)
        else:
            for s in st["facts"]["sel"]:
                if s["k"] == "F" and s["name"] == "node":
                    _nodes(world, s["sub"], list(st["ip"]), st["parentType"], ns)
        for n in ns:
            sent.add((n, st["url"]))

    def declares(url, pt, f):
        d = svc[url]["decl"]
        if f == "__typename":
            return True
        has_node = any(world["types"].get(t, {}).get("node") for t in d)
        if (pt == "Query" and f == "node") or (pt == "Node" and f == "id"):
            return has_node
        if f == "id":
            return pt in d and world["types"].get(pt, {}).get("node", False)
        return pt in d and f in d[pt]

    def is_abs(t):
        return t == "Node" or world["types"].get(t, {}).get("kind") in ("INTERFACE", "UNION")

    def members(t):
        if t == "Node":
            return sorted(x for x, td in world["types"].items() if td.get("node"))
        return world["types"][t]["members"]

    def scrubbed(path, pt, f):
        if is_abs(pt):
            return all(f in plan["scrub"].get(".".join(path), {}).get(m, []) for m in members(pt))
        return f in plan["scrub"].get(".".join(path), {}).get(pt, [])

    def same_spot(a, b):
        return a[0] == b[0] and a[2] == b[2] and a[3] == b[3]

    def related(t1, t2):
        return t1 == t2 or (is_abs(t2) and t1 in members(t2)) or (is_abs(t1) and t2 in members(t1))
    for n in sorted(client):
        ok = any(x[0] == n and declares(x[1], n[1], n[2]) for x in sent)
        if not ok and is_abs(n[1]):
            ok = all(any(same_spot(x[0], n) and x[0][1] == m and declares(x[1], m, n[2]) for x in sent) for m in members(n[1]))
        if not ok:
            # which kind of field it is (the recorded findings name their kinds: another kind is another defect)
            path, pt, f, key = n
            if pt == "Node" or (pt == "Query" and f == "node"):
                kind = ""                      # the rootnode stratum has its own findings
            elif f == "__typename":
                kind = ":typename" + ("-aliased" if key != f else "")
            elif world["types"].get(pt, {}).get("kind") == "INTERFACE":
                kind = ":interface-field" + ("-aliased" if key != f else "")
            elif any(pt in (td.get("members") or []) for td in world["types"].values() if td.get("kind") in ("INTERFACE", "UNION")):
                kind = ":member-field"
            else:
                kind = ""
            return "plan:client-field-not-sent-to-a-service-that-declares-it" + kind
    for (n, url) in sorted(sent):
        if any(same_spot(n, c) and related(n[1], c[1]) for c in client):
            continue
        if n[2] not in ("id", "__typename") or n[3] != n[2]:
            return "plan:field-added-that-the-client-did-not-select"
        if not scrubbed(n[0], n[1], n[2]):
            return "plan:helper-not-registered-for-removal"
    for n in sorted(client):
        if n[2] in ("id", "__typename") and n[3] == n[2] and not is_abs(n[1]) and scrubbed(n[0], n[1], n[2]):
            return "plan:client-selected-field-registered-for-removal"
    return "plan:other"


def _render(v):
    t = v["t"]
    if t in ("s", "e"):
        return v["v"]
    if t == "i":
        return str(v["v"])
    if t == "b":
        return "TRUE" if v["v"] else "FALSE"
    if t == "z":
        return "~"
    return "?"


def _var_ok(op, r, v):
    if v == "id" and "id" not in op["varDefs"]:
        return True
    if v in op["vars"]:
        return r["passed"].get(v) == _render(op["vars"][v])
    d = op["varDefs"].get(v, {}).get("def")
    if d is not None:
        return r["defaults"].get(v) == _render(d) or r["passed"].get(v) == _render(d)
    return v not in r["passed"] or r["passed"][v] == "~"


def call_reason(op, call, enforce):
    for r in call["reqs"]:
        if "C02" in enforce:
            if not r["parses"]:
                return "call:sub-request-does-not-parse"
            if not r["validates"]:
                return "call:sub-request-invalid-for-its-service:" + fedlib.err_class(r["err"])
            if r["undeclared"]:
                return "call:sub-request-uses-undeclared-variable"
            if not r["inPlan"]:
                return "call:request-is-not-an-instance-of-a-plan-step"
            for v in r["used"]:
                if not _var_ok(op, r, v):
                    return "call:variable-value-or-default-not-forwarded"
        if "C06" in enforce:
            if r["kw"] == "mutation" and op["kind"] != "mutation":
                return "call:mutation-sent-for-a-query"
            if op["kind"] == "mutation" and r["kw"] != "mutation" and any(x["name"] != "node" for x in r["roots"]):
                return "call:mutation-root-step-sent-as-query"
            if r["kw"] == "mutation":
                return "call:mutation-root-field-sent-to-a-service-that-does-not-own-it"
    if "C12" in enforce:
        if call["dup"]:
            return "call:identical-lookups-sent-twice-in-one-call"
        return "call:more-calls-to-a-service-than-plan-levels"
    return "call:other"


def describe(enforce, stratum, r, idx, ev, payload):
    a, b = fedlib.op_bounds(r, idx)
    req = r["events"][a]
    exp = None
    obs = None
    if ev["ev"] == "Resp":
        exp = fedlib.expected_from_payload(payload)
        fault = next((e for e in r["events"][a:b + 1] if e["ev"] == "Fault"), None)
        calls = [e for e in r["events"][a:b + 1] if e["ev"] == "Call"]
        if fault is not None and ("C09" in enforce or "C10" in enforce):
            seen = set(l for c in calls for l in c.get("leaves", []))
            if not ev.get("wellformed", True) or ev.get("status") != 200:
                sym = "fault:%s/malformed-or-status-%s" % (fault["kind"], ev.get("status"))
            elif "C09" in enforce and fault["signal"] and not ev["errors"]:
                sym = "fault:%s/failure-not-reported" % fault["kind"]
            elif "C09" in enforce and not set(ev.get("leaves", [])) <= seen:
                sym = "fault:%s/value-no-service-returned" % fault["kind"]
            elif "C10" in enforce:
                sym = "fault:%s/service-error-not-forwarded-intact" % fault["kind"]
            else:
                sym = "fault:%s/other" % fault["kind"]
        elif req.get("invalid") and "C10" in enforce:
            sym = "invalid:%s/%s" % (req["invalid"], "no-errors" if not ev["errors"] else "data-not-null" if fedlib.untag(ev["data"]) is not None else "other")
        elif "C09" in enforce and not set(ev.get("leaves", [])) <= set(l for c in calls for l in c.get("leaves", [])) and not ev["errors"] and exp is None:
            sym = "value-no-service-returned"
        elif "C01" in enforce:
            sym = fedlib.symptom(ev, exp)
        else:
            sym = "resp:mutation-root-field-count"
        obs = fedlib.norm(fedlib.untag(ev["data"]))
    elif ev["ev"] == "Plan":
        sym = plan_reason(r["reset"], req["op"], ev)
    elif ev["ev"] in ("Call", "QCall") and req.get("invalid") and "C10" in enforce:
        sym = "invalid:%s/downstream-request-made" % req["invalid"]
    elif ev["ev"] == "QCall":
        sym = "call:identical-lookups-sent-twice-in-one-call" if ev["dup"] else "call:more-calls-to-a-service-than-plan-levels"
    elif ev["ev"] == "Call":
        sym = call_reason(req["op"], ev, enforce)
    else:
        sym = "refused-" + ev["ev"]
    sig = "%s/%s" % (fedlib.case_prefix(r, req), sym)
    what = "config %s, operation:\n%s\nvariables %s\nrefused event: %s" % (
        req.get("cfg"), req["text"], json.dumps(req["op"]["vars"]), ev["ev"])
    if ev["ev"] == "Resp":
        what += "\nerrors %s\nfirst difference %s" % (ev.get("errors"), fedlib.first_diff(exp, obs) if exp is not None and obs is not None else None)
    elif ev["ev"] == "Call":
        what += "\n" + json.dumps({k: ev[k] for k in ("svc", "call", "n", "dup")}) + "\n" + "\n".join(
            "  %s %s" % (q["kw"], q["query"].replace("\n", " ").replace("\t", "")[:300]) for q in ev["reqs"])
    elif ev["ev"] == "Plan":
        what += "\n" + "\n".join("  %s <- %s%s" % (s["url"], s["query"].replace("\n", " ").replace("\t", "")[:300],
                                                   "" if s["facts"]["validates"] else "   INVALID: " + s["facts"]["err"][:200]) for s in ev["steps"])
    case = {"stratum": stratum, "world": r["reset"], "request": req, "events": r["events"][a:b + 1], "expected": exp, "observed": obs}
    return sig, what, case


# ------------------------------------------------------------------------------------------------

def run_fed_check(sc, tier, pid, enforce, level, budgets, controls, assumptions, extra_cov=None, strata=None):
    t0 = time.time()
    V = vlib.Verdicts(pid)
    thorough = tier == "thorough"
    binary = vlib.go_build(sc, "./cmd/fed", "fed")
    cfgpath = os.path.join(vlib.SPEC, "fed.cfg")
    # run_tlc copies spec/ into its scratch dir: the per-property config is written there on the fly
    cfg_text = fedlib.cfg_text(enforce)
    fedlib.CFG_TEXT = cfg_text
    worlds, ops = budgets["thorough" if thorough else "quick"]
    stats, rejections, other, samples, runs_sample, crashes = fedlib.run_strata(sc, binary, enforce, worlds, ops, cfgs_core=CFGS, pinned_prefix=pid, strata=strata)
    for stratum, last, code, stderr in crashes:
        if code != 3 and not vlib.panic_in_code_under_test(stderr):
            raise vlib.MachineryError("the harness itself panicked:\n" + stderr[-3000:])
        msg = [l for l in stderr.splitlines() if l.startswith("panic:") or l.startswith("fatal error:")]
        frame = ""
        lines = stderr.splitlines()
        for i, l in enumerate(lines):
            if "buildbuildio/pebbles" in l and "(" in l and not frame:
                frame = l.split("(")[0].strip().split("/")[-1]
        kind = "hang" if code == 3 else "crash"
        sig = "%s/%s:%s@%s" % (fedlib.case_prefix(last[0], last[1]) if last else "?", kind, (msg[0] if msg else "exit %s" % code)[:80], frame)
        what = "the gateway process %s while serving (stratum %s):\n%s\n%s" % ("hung" if code == 3 else "died", stratum, last[1]["text"] if last else "?", "\n".join(msg[:2]))
        V.violation(sig, what, {"stratum": stratum, "world": last[0]["reset"] if last else None, "request": last[1] if last else None, "stderr": stderr})
    for o in other:
        if o["ev"] == "HarnessError":
            raise vlib.MachineryError("harness: %s" % o["what"])
        if o["ev"] == "StartFailed":
            raise vlib.MachineryError("a generated world did not start (the generator must only produce mergeable sets; conflicts are C05): %s" % o["err"])
    for stratum, r, idx, ev, payload in rejections:
        sig, what, case = describe(enforce, stratum, r, idx, ev, payload)
        V.violation(sig, what, case)
    for k, v in stats.items():
        log("stratum %-13s worlds %5d ops %6d refused %4d" % (k, v["worlds"], v["ops"], v["rejected"]))
    # negative controls (R7): corrupted traces must be refused by the specification
    nctrl = 0
    if controls and runs_sample:
        for cname, mutate in controls:
            rs = copy.deepcopy(runs_sample)
            if not mutate(rs):
                continue
            sub = vlib.Scratch("ctrl-" + cname)
            try:
                rej, mono, st = vlib.validate_lenient(sub, "FederationTrace", "fed.cfg", rs, "ctrl", cfg_text=cfg_text)
            finally:
                sub.cleanup()
            if not rej:
                raise vlib.MachineryError("negative control '%s' was accepted by FederationTrace with Enforce=%s" % (cname, enforce))
            nctrl += 1
        if nctrl == 0:
            raise vlib.MachineryError("no negative control could be applied to the sampled runs")
    rc = V.finish()
    total_ops = sum(v["ops"] for v in stats.values())
    cov = {
        "states": sum(v["tlc"]["states"] for v in stats.values()),
        "transitions": sum(v["tlc"]["states"] for v in stats.values()),
        "traces_validated_against_impl": total_ops,
        "programs": total_ops,
        "disagreements_checked": len(rejections),
        "samples": samples,
        "strata": stats,
        "configurations": CFGS.split(","),
        "negative_controls_refused": nctrl,
        "evaluations": total_ops,
        "distinct_nontrivial": sum(v["nontrivial"] for v in stats.values()),
        "rule": "seeded generator of (service schemas x entity graph x operation x variables); every case is an (operation, gateway configuration) pair run through the real gateway; "
                "non-trivial = the observed plan involves >= 2 services and >= 3 (service, level) pairs, i.e. at least one stitched child step (counted, not de-duplicated: cases come from distinct seeds)",
        "known_findings_hit": sorted(V.hit_known), "notes": V.notes, "repo_head": vlib.repo_head(),
    }
    cov.update(extra_cov or {})
    vlib.write_evidence(pid, tier, level, cov, time.time() - t0, violations=len(V.violations), assumptions=assumptions)
    return rc
