"""C07 - every HTTP request gets a well-formed response; none can crash the gateway.

Spec: spec/HttpFront.tla - the request-shape grammar (content type x JSON body shape x member
classes x batch element classes x multipart layout x file-map path classes x query text classes)
and Outcome(shape), what the property allows (422 / 200 with errors and data:null / 200 with a
well-formed envelope; always: the handler returns, the next request is served).  TLC enumerates
every shape (1,768); the Go driver renders each shape to bytes (k renderings), sends it to the
real Gateway.Handler of a real gateway over fake services, sends a canary afterwards, and
HttpFrontTrace (TLC) checks the recorded answer against Outcome.  The driver is a child process: a
panic in a goroutine of the gateway kills it and is attributed to the shape being sent.
"""
import json
import time
from concurrent.futures import ThreadPoolExecutor

import vlib
from vlib import log

PID = "C07"


def shape_key(s):
    f = s["f"]
    if f == "fuzz":
        return "byte-mutated rendering of a %s shape" % s.get("from")
    if f == "simple":
        return "simple:%s/%s" % (s["ct"], s["body"])
    if f == "object":
        return "object:q=%s,vars=%s,opn=%s" % (s["q"], s["vars"], s["opn"])
    if f == "array":
        return "array:[%s]" % ",".join(s["elems"])
    return "multipart:ops=%s,map=%s,path=%s,file=%s" % (s["ops"], s["map"], s["path"], s["file"])


def shape_class(s):
    """coarser key used in signatures: the member that decides the outcome"""
    f = s["f"]
    if f == "fuzz":
        return "fuzz:%s" % s.get("from")
    if f == "simple":
        return "simple:%s" % s["body"] if s["ct"] != "other" else "simple:content-type-other"
    if f == "object":
        for k in ("vars", "opn"):
            if s[k] in ("string", "array", "number"):
                return "object:%s=%s" % (k, s[k])
        return "object:q=%s" % s["q"]
    if f == "array":
        bad = sorted(set(e for e in s["elems"] if e not in ("valid", "valid2", "invalidquery")))
        return "array:%s" % ("+".join(bad) if bad else "decodable")
    if s["ops"] in ("missing", "garbage") or s["map"] != "paths" or not s["file"]:
        return "multipart:ops=%s,map=%s,file=%s" % (s["ops"], s["map"], s["file"])
    return "multipart:%s,path=%s" % (s["ops"], s["path"])


def symptom(a, outcome):
    if a["panic"]:
        line = a["what"].splitlines()[0][:80]
        return "handler-panics:" + line
    if a["hang"]:
        return "handler-hangs"
    if not a["canary"]:
        return "next-request-not-served"
    if not a["json"]:
        return "answer-not-json"
    want = outcome.get("status")
    if want is None:
        return "status-%s-or-malformed-envelope" % a["status"]
    if str(a["status"]) != want:
        return "status-%s-instead-of-%s" % (a["status"], want)
    if want == "422":
        return "422-without-errors-envelope"
    if a["batch"] != outcome.get("batch") or len(a["elems"]) != len(outcome.get("elems", [])):
        return "wrong-number-or-kind-of-results"
    for w, e in zip(outcome["elems"], a["elems"]):
        if not e["wellformed"]:
            return "result-without-data-and-errors"
        if w == "invalid" and not (e["hasErrors"] and e["dataNull"]):
            return "invalid-operation-not-answered-with-errors-and-null-data"
    return "other"


def run(sc, tier, replay):
    t0 = time.time()
    V = vlib.Verdicts(PID)
    thorough = tier == "thorough"
    binary = vlib.go_build(sc, "./cmd/httpfront", "httpfront")
    res = vlib.run_tlc(sc, "HttpFront", "HttpFront_gen.cfg", workers=1, serial=True, name="gen", timeout=600)
    cases = res.printed
    if len(cases) < 1000:
        raise vlib.MachineryError("HttpFront enumerated only %d shapes" % len(cases))
    nsh = 12
    renderings = 6 if thorough else 2
    for k in range(nsh):
        with open(sc.path("shapes%d.ndjson" % k), "w") as f:
            for c in cases[k::nsh]:
                f.write(json.dumps(c) + "\n")

    def one(k):
        return vlib.run([binary, "-in", sc.path("shapes%d.ndjson" % k), "-out", sc.path("front%d.trace" % k), "-seed", str(vlib.seed() * 100 + k),
                         "-renderings", str(renderings), "-fuzz", str(20000 if thorough else 1500)], timeout=1800)
    with ThreadPoolExecutor(max_workers=nsh) as ex:
        rs = list(ex.map(one, range(nsh)))
    runs = []
    nreq = 0
    for k, r in enumerate(rs):
        evs = []
        for line in open(sc.path("front%d.trace" % k)):
            try:
                evs.append(json.loads(line))
            except ValueError:
                pass
        if r.returncode == 4:
            raise vlib.MachineryError("httpfront: %s" % r.stderr[-1000:])
        if r.returncode != 0:
            if not vlib.panic_in_code_under_test(r.stderr):
                raise vlib.MachineryError("the httpfront driver itself failed:\n" + r.stderr[-3000:])
            last = next((e for e in reversed(evs) if e["ev"] == "Http"), None)
            msg = [l for l in r.stderr.splitlines() if l.startswith("panic:") or l.startswith("fatal error:")]
            frame = next((l.split("(")[0].strip().split("/")[-1] for l in r.stderr.splitlines() if "buildbuildio/pebbles" in l and "(" in l), "")
            V.violation("%s/process-dies:%s@%s" % (shape_class(last["shape"]) if last else "?", (msg[0] if msg else "exit %d" % r.returncode)[:80], frame),
                        "the gateway process died while serving %s\nbody: %s" % (shape_key(last["shape"]) if last else "?", (last or {}).get("body", "")[:300]),
                        {"shape": last["shape"] if last else None, "ct": (last or {}).get("ct"), "body": (last or {}).get("body"), "stderr": r.stderr[-4000:]})
            # drop the unanswered request
            while evs and evs[-1]["ev"] != "Answer":
                evs.pop()
        nreq += sum(1 for e in evs if e["ev"] == "Http")
        runs.append({"id": "shard%d" % k, "reset": {"ev": "Reset"}, "events": evs})
    rej, mono, st = vlib.validate_lenient(sc, "HttpFrontTrace", "HttpFrontTrace.cfg", runs, "front")
    for r, idx, ev, payload in rej:
        http = r["events"][idx - 1]
        outcome = json.loads(payload)
        sig = "%s/%s" % (shape_class(http["shape"]), symptom(ev, outcome))
        V.violation(sig, "shape %s\ncontent-type %s\nbody %s\nallowed %s\nobserved %s" % (
            shape_key(http["shape"]), http["ct"], http["body"][:400], payload, json.dumps({k: ev[k] for k in ("panic", "hang", "status", "json", "batch", "elems", "canary")})),
            {"shape": http["shape"], "ct": http["ct"], "body": http["body"], "allowed": outcome, "observed": ev})
    log("shapes %d, requests %d (renderings %d), refused %d" % (len(cases), nreq, renderings, len(rej)))
    # negative control
    import copy
    ctrl = copy.deepcopy(runs[:1])
    done = False
    for e in ctrl[0]["events"]:
        if e["ev"] == "Answer" and not done:
            e["canary"] = False
            done = True
    rj, _, _ = vlib.validate_lenient(sc, "HttpFrontTrace", "HttpFrontTrace.cfg", ctrl, "ctrl")
    if not rj:
        raise vlib.MachineryError("negative control accepted")
    rc = V.finish()
    fam = {}
    for c in cases:
        fam[c["shape"]["f"]] = fam.get(c["shape"]["f"], 0) + 1
    vlib.write_evidence(PID, tier, "model_checking", {
        "states": res.distinct, "transitions": res.generated, "traces_validated_against_impl": nreq,
        "samples": [{"shape": cases[len(cases) // 3]["shape"], "allowed": cases[len(cases) // 3]["outcome"]},
                    {"shape": cases[-1]["shape"], "allowed": cases[-1]["outcome"]}],
        "byte_mutated_requests": nreq - len(cases) * renderings,
        "shapes_enumerated_by_tlc": len(cases), "shape_families": fam, "renderings_per_shape": renderings, "exhaustive": True,
        "evaluations": nreq, "distinct_nontrivial": len(cases),
        "rule": "every shape of HttpFront!Shapes (enumerated exhaustively by TLC) x k byte renderings; distinct = shapes; non-trivial: every shape differs from the others in at least one class that the decoder inspects",
        "known_findings_hit": sorted(V.hit_known), "notes": V.notes, "repo_head": vlib.repo_head(),
    }, time.time() - t0, violations=len(V.violations), assumptions=[
        "\"all byte strings\" is covered as shape classes with a few concrete renderings each, not as bytes (DESIGN.md section 8)",
        "the handler is called in-process with an httptest recorder; a panic in the handler goroutine itself is caught by the driver and reported as such (net/http would turn it into a closed connection)",
        "one fixed gateway over a generated world with an interface without members, upload mutations and a scalar root field",
    ])
    return rc
