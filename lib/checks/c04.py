"""C04 - the routing table names a real owner for every routable field.

Spec: Merge!RoutesOK(S, r): every root field is routed to the one service that declared it; every
other non-id field of every object type of Merged(S) is routed to a service whose schema declares
that field on that type; no route for anything else; a type is marked stitchable by id iff it
implements Node; the routed services are exactly those that contributed fields.  MergeTrace
(Enforce={C04}) evaluates it on the TypeURLMap the real merger returns, for every mergeable set and
every permutation of the service list.  (That the planner finds a route for every field is
exercised by C01/C02 on the same routing tables.)
"""
from checks import mergecheck

PID = "C04"


def _mergeable(r):
    return not any(t.startswith("edit:") for t in r["reset"].get("tags", []))


def _wrong_owner(runs):
    for r in runs:
        if not _mergeable(r) or len(r["reset"]["svcs"]) < 2:
            continue
        urls = [s["url"] for s in r["reset"]["svcs"]]
        for e in r["events"]:
            if e["ok"] and e["merger"] == "extend":
                for f, u in e["routes"].get("Query", {}).items():
                    e["routes"]["Query"][f] = [x for x in urls if x != u][0]
                    return True
    return False


def _unrouted(runs):
    for r in runs:
        if not _mergeable(r):
            continue
        for e in r["events"]:
            if e["ok"] and e["merger"] == "extend" and e["routes"].get("Query"):
                del e["routes"]["Query"][sorted(e["routes"]["Query"])[0]]
                return True
    return False


def _node_flag(runs):
    for r in runs:
        if not _mergeable(r):
            continue
        for e in r["events"]:
            if e["ok"] and e["merger"] == "extend" and e["nodeTypes"]:
                e["nodeTypes"] = e["nodeTypes"][1:]
                return True
    return False


def run(sc, tier, replay):
    return mergecheck.run_merge_check(sc, tier, PID, ["C04"], "model_checking", [],
                                      [("route-to-wrong-owner", _wrong_owner), ("field-unrouted", _unrouted), ("node-flag-lost", _node_flag)])
