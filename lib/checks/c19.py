"""C19 - file uploads arrive at the owning service unchanged.

Spec: spec/Upload.tla - the layouts of a GraphQL multipart request (which upload mutations of two
services are selected, which client file the map attaches to each of four variable paths - top
level, nested object, two list positions, one file at several paths - single or batched) and the
contract SvcReqOK: a service request that uses variable v carries exactly the client's files under
v, same path, same name, same bytes, and is multipart iff it carries one.  TLC enumerates all 5,472
layouts (UploadGen) and, as design-level lead, shows that extraction which nulls shared containers
in place loses files for the second reader (UploadExtract.cfg, expected to be violated on the
model).  Every layout is sent as a real multipart/form-data request to the real gateway; the fake
services re-parse what they receive; UploadTrace (TLC) checks SvcReqOK and the response.
"""
import copy
import json
import time
from concurrent.futures import ThreadPoolExecutor

import vlib
from vlib import log

PID = "C19"


def run(sc, tier, replay):
    t0 = time.time()
    V = vlib.Verdicts(PID)
    thorough = tier == "thorough"
    binary = vlib.go_build(sc, "./cmd/upload", "upload")
    res = vlib.run_tlc(sc, "UploadGen", "UploadGen.cfg", workers=1, serial=True, name="gen", timeout=600)
    layouts = res.printed
    if len(layouts) < 1000:
        raise vlib.MachineryError("UploadGen printed only %d layouts" % len(layouts))
    ex = vlib.run_tlc(sc, "Upload", "UploadExtract.cfg", workers=2, name="extract", allow_violation=True)
    design_lead = ex.violated == "BothSeeAll"
    nsh = 12
    for k in range(nsh):
        with open(sc.path("lay%d.ndjson" % k), "w") as f:
            for l in layouts[k::nsh]:
                l = dict(l)
                l["fields"] = sorted(l["fields"]) if isinstance(l["fields"], list) else []
                f.write(json.dumps(l) + "\n")

    # the same layouts with a 3 MiB file where one file is read for several paths (several upstream requests read it at once)
    import random
    multi = [l for l in layouts if isinstance(l.get("assign"), dict) and sum(1 for v in l["assign"].values() if v == "A") >= 2]
    random.Random(vlib.seed()).shuffle(multi)
    multi = multi[:(480 if thorough else 96)]
    nbig = 4
    for k in range(nbig):
        with open(sc.path("lay%d.ndjson" % (nsh + k)), "w") as f:
            for l in multi[k::nbig]:
                l = dict(l)
                l["fields"] = sorted(l["fields"]) if isinstance(l["fields"], list) else []
                f.write(json.dumps(l) + "\n")

    def one(k):
        return vlib.run([binary, "-in", sc.path("lay%d.ndjson" % k), "-out", sc.path("up%d.trace" % k)] + (["-big"] if k >= nsh else []) +
                        (["-samename"] if k % 2 == 1 else []), timeout=1800)   # every other shard: both files under one client file name
    with ThreadPoolExecutor(max_workers=nsh + nbig) as ex2:
        rs = list(ex2.map(one, range(nsh + nbig)))
    runs = []
    n = 0
    for k, r in enumerate(rs):
        if r.returncode == 4:
            raise vlib.MachineryError("upload driver: %s" % r.stderr[-1000:])
        evs = []
        for line in open(sc.path("up%d.trace" % k)):
            try:
                evs.append(json.loads(line))
            except ValueError:
                pass
        if r.returncode != 0:
            if not vlib.panic_in_code_under_test(r.stderr):
                raise vlib.MachineryError("the upload driver itself failed:\n" + r.stderr[-3000:])
            msg = [l for l in r.stderr.splitlines() if l.startswith("panic:") or l.startswith("fatal error:")]
            last = next((e for e in reversed(evs) if e["ev"] == "Upload"), None)
            V.violation("process-dies:" + (msg[0] if msg else "exit %d" % r.returncode)[:90], "the gateway process died while serving an upload", {"layout": last, "stderr": r.stderr[-4000:]})
            while evs and evs[-1]["ev"] != "Resp":
                evs.pop()
        n += sum(1 for e in evs if e["ev"] == "Upload")
        runs.append({"id": "shard%d" % k, "reset": {"ev": "Reset"}, "events": evs})
    rej, _, st = vlib.validate_lenient(sc, "UploadTrace", "UploadTrace.cfg", runs, "upload")
    for r, idx, ev, payload in rej:
        up = next(e for e in reversed(r["events"][:idx]) if e["ev"] == "Upload")
        lay = up["layout"]
        nsvc = len({("u0" if f in ("up", "upNested0", "upList") else "u1") for f in lay["fields"]})
        multi = len([p for p, f in lay["assign"].items() if f != "-"]) != len({f for f in lay["assign"].values() if f != "-"})
        if ev["ev"] == "Resp":
            sym = "operation-fails"
        else:
            exp = json.loads(payload) if payload and payload != "[]" else {}
            got = ev["files"]
            if set(got) - set(exp):
                sym = "file-sent-to-a-request-that-does-not-use-the-variable"
            elif set(exp) - set(got):
                sym = "file-missing"
            elif any(got[p] != exp[p] for p in exp):
                sym = "file-content-or-name-differs"
            else:
                sym = "multipart-flag"
        cls = "%s%s%s" % ("two-services" if nsvc == 2 else "one-service", "+file-at-several-paths" if multi else "", "+batch" if lay["batch"] else "")
        V.violation("%s/%s" % (cls, sym), "layout %s\nrefused %s %s\nexpected files %s" % (json.dumps(lay), ev["ev"], json.dumps({k2: ev.get(k2) for k2 in ("svc", "mp", "files", "used", "status", "ok")})[:500], payload[:300]),
                    {"layout": lay, "event": ev, "expected": payload})
    log("layouts %d, refused %d, design-level lead (in-place nulling loses files): %s" % (n, len(rej), design_lead))
    ctrl = copy.deepcopy(runs[:1])
    ctrl[0]["events"] = ctrl[0]["events"][:40]
    done = False
    for e in ctrl[0]["events"]:
        if e["ev"] == "SvcReq" and e["files"] and not done:
            k0 = sorted(e["files"])[0]
            e["files"][k0] += "tampered"
            done = True
    rj, _, _ = vlib.validate_lenient(sc, "UploadTrace", "UploadTrace.cfg", ctrl, "ctrl")
    if not done or not rj:
        raise vlib.MachineryError("negative control accepted")
    rc = V.finish()
    vlib.write_evidence(PID, tier, "model_checking", {
        "states": res.distinct + ex.distinct, "transitions": res.generated + ex.generated, "traces_validated_against_impl": n,
        "samples": [{"layout": layouts[len(layouts) // 2]}, {"layout": layouts[-1]}],
        "layouts_enumerated_by_tlc": len(layouts), "exhaustive": True, "design_model_finds_in_place_nulling_loss": design_lead,
        "evaluations": n, "distinct_nontrivial": sum(1 for l in layouts if len(l["fields"]) >= 2),
        "rule": "every layout of Upload!Layouts, enumerated exhaustively by TLC; non-trivial = at least two upload fields selected",
        "known_findings_hit": sorted(V.hit_known), "notes": V.notes, "repo_head": vlib.repo_head(),
    }, time.time() - t0, violations=len(V.violations), assumptions=[
        "two files (one text, one binary with CRLF and boundary-like bytes); variable trees of depth <= 2 with one object and one list position",
        "the two requests of one depth run concurrently in the real executor; their interleaving is not forced (the contract must hold for whichever order occurs)",
    ])
    return rc
