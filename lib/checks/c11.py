"""C11 - downstream batching is transparent (queryer.MultiOpQueryer.Query).

Spec: spec/BatcherAbs.tla (contract over HTTP calls and the returned slice), spec/BatcherImpl.tla
(chunk arithmetic, queryBatch's file/non-file index spaces, splice in completion order; TLC checks
refinement, the arithmetic invariants and termination), spec/BatcherTrace.tla.
Direction A: behaviours of BatcherImpl (N, m, file mask, completion order, failing calls) are forced
on the real MultiOpQueryer through a gating http.RoundTripper.  Direction B: free runs with random
delays/failures for N <= 200, m <= 64 validated by TLC against BatcherAbs.
"""
import json
import random
import time
from concurrent.futures import ThreadPoolExecutor

import vlib
from vlib import log

PID = "C11"

CFG = """SPECIFICATION %s
CONSTANTS MaxN = %d MaxM = %d MaxFail = %d FileN = %d
INVARIANTS AccLen ChunksCover ChunkSize
%s
CHECK_DEADLOCK FALSE
"""


def to_tlc(trace):
    out = []
    for e in trace:
        k = e["ev"]
        if k == "Start":
            out.append({"ev": "Start", "n": e.get("n", 0), "m": e.get("m", 0)})
        elif k == "Http":
            out.append({"ev": "Http", "c": e["c"], "mem": e.get("mem", [])})
        elif k == "HttpDone":
            out.append({"ev": "HttpDone", "c": e["c"], "st": e["st"]})
        elif k == "Return":
            out.append({"ev": "Return", "ok": e["ok"], "res": e.get("res", [])})
    return out


def classify(run, idx, ev):
    evs = run["events"]
    what = "event #%d %s is not allowed by BatcherAbs (n=%s m=%s) after %s" % (
        idx, json.dumps(ev), run["reset"]["n"], run["reset"]["m"], json.dumps(evs[max(0, idx - 3):idx]))
    if idx < 0:
        return "abs-reject:Start", what
    kind = ev["ev"]
    if kind == "Http":
        if len(ev["mem"]) > run["reset"]["m"]:
            return "abs-reject:Http:more-than-m-requests-in-one-call", what
        seen = set()
        for e in evs[:idx]:
            if e["ev"] == "Http":
                seen |= set(e["mem"])
        if seen & set(ev["mem"]) or len(set(ev["mem"])) != len(ev["mem"]):
            return "abs-reject:Http:request-sent-twice", what
        return "abs-reject:Http:other", what
    if kind == "Return":
        fails = any(e["ev"] == "HttpDone" and e["st"] == "fail" for e in evs[:idx])
        if ev["ok"] and fails:
            return "abs-reject:Return:partial-result-instead-of-error", what
        if not ev["ok"] and not fails:
            return "abs-reject:Return:error-without-failed-call", what
        if ev["ok"]:
            n = run["reset"]["n"]
            sent = {}
            for e in evs[:idx]:
                if e["ev"] == "Http":
                    for i in e["mem"]:
                        sent[i] = sent.get(i, 0) + 1
            if any(sent.get(i, 0) != 1 for i in range(n)):
                return "abs-reject:Return:request-never-sent", what
            if len(ev["res"]) != n:
                return "abs-reject:Return:wrong-number-of-results", what
            return "abs-reject:Return:result-i-does-not-answer-request-i", what
    return "abs-reject:" + kind, what


def run(sc, tier, replay):
    t0 = time.time()
    rng = random.Random(vlib.seed())
    V = vlib.Verdicts(PID)
    thorough = tier == "thorough"
    binary = vlib.go_build(sc, "./cmd/c11", "c11")

    # design level
    dn, dm, df = (7, 4, 4) if thorough else (5, 3, 3)
    r = vlib.run_tlc(sc, "BatcherImpl", "design.cfg", workers=12, name="design", timeout=3000, coverage=thorough,
                     cfg_text=CFG % ("FairSpec", dn, dm, 2, df, "PROPERTIES StepOK Quiet Termination\nVIEW NoAct"))
    design = dict(MaxN=dn, MaxM=dm, MaxFail=2, FileN=df, states=r.distinct, transitions=r.generated, depth=r.depth)
    log("design-level TLC: %s" % design)
    # pure arithmetic for larger N, m (no failures, no files: interleavings of splice only up to 6 chunks handled by sampling)
    # generation
    gn, gm, gf = (5, 3, 3) if thorough else (4, 3, 3)
    dot = sc.path("g.dot")
    rg = vlib.run_tlc(sc, "BatcherImpl", "gen.cfg", workers=4, name="gen", timeout=3000, extra=["-dump", "dot", dot],
                      cfg_text=CFG % ("Spec", gn, gm, 2, gf, ""))
    g = vlib.Graph(dot, keep=("act",))
    total = g.total_paths()
    budget = 150000 if thorough else 12000
    if total <= budget:
        plist = list(g.all_paths())
        exhaustive = True
    else:
        exhaustive = False
        plist = g.edge_cover_paths(rng)
        for _ in range(budget):
            plist.append(g.nth_path(rng.randrange(total)))
    paths = []
    for k, p in enumerate(plist):
        steps = [g.state[p[0]]["act"]] + g.acts(p)
        paths.append({"id": k, "steps": steps})
    gstat = dict(MaxN=gn, MaxM=gm, FileN=gf, states=rg.distinct, transitions=rg.generated, behaviours=total, replayed=len(paths),
                 exhaustive=exhaustive, edges=sum(len(v) for v in g.succ.values()))
    log("direction A: %s" % gstat)
    nsh = 14
    for k in range(nsh):
        with open(sc.path("paths%d.ndjson" % k), "w") as f:
            for p in paths[k::nsh]:
                f.write(json.dumps(p) + "\n")

    def one(k):
        return vlib.run([binary, "replay", "-in", sc.path("paths%d.ndjson" % k), "-out", sc.path("res%d.ndjson" % k)],
                        timeout=3000 if thorough else 900)
    with ThreadPoolExecutor(max_workers=nsh) as ex:
        rs = list(ex.map(one, range(nsh)))
    counts = {"ok": 0, "mismatch": 0, "drift": 0, "hang": 0, "crash": 0}
    deviating, okruns, skipped, done_ids = [], [], 0, set()
    for k, r in enumerate(rs):
        begun = None
        for line in open(sc.path("res%d.ndjson" % k)):
            try:
                o = json.loads(line)
            except ValueError:
                continue
            if "begin" in o:
                begun = o["begin"]
                continue
            if "skipped_rest" in o:
                skipped += 1
                continue
            begun = None
            done_ids.add(o["id"])
            counts[o["status"]] += 1
            if o["status"] == "hang":
                V.violation("hang:replay", "Query did not return although every HTTP call was answered: %s" % o.get("detail"),
                            {"path": paths[o["id"]], "result": o})
            elif o["status"] != "ok":
                deviating.append(o)
            elif o.get("trace"):
                okruns.append(o)
        if r.timed_out:
            raise vlib.MachineryError("replay shard %d timed out" % k)
        if r.returncode not in (0, 3):
            counts["crash"] += 1
            msg = [l for l in r.stderr.splitlines() if l.startswith("panic:") or l.startswith("fatal error:")]
            V.violation("crash:" + (msg[0] if msg else "exit %d" % r.returncode),
                        "the process died while replaying a model behaviour",
                        {"path": paths[begun] if begun is not None else None, "stderr": r.stderr[-3000:]})
    if skipped:
        V.note("%d replay shard(s) stopped early after too many deviating runs; %d of %d behaviours replayed" % (skipped, len(done_ids), len(paths)))
    elif not counts["crash"] and not counts["hang"] and len(done_ids) != len(paths):
        raise vlib.MachineryError("replay lost behaviours: %d of %d" % (len(done_ids), len(paths)))
    log("direction A results: %s" % counts)

    def mk(o, rid):
        tr = to_tlc(o["trace"])
        return {"id": rid, "reset": tr[0], "events": tr[1:], "o": o}
    if deviating:
        acc, rej, _ = vlib.validate_runs(sc, "BatcherTrace", "BatcherTrace.cfg", [mk(o, o["id"]) for o in deviating], "dev")
        for r, idx, ev in rej:
            sig, what = classify(r, idx, ev)
            V.violation(sig, what, {"path": paths[r["id"]], "observed": r["events"], "detail": r["o"].get("detail")})
        if acc:
            V.note("SPEC-DRIFT: %d replayed behaviour(s) deviate from BatcherImpl but satisfy BatcherAbs (first: %s)" % (acc, deviating[0].get("detail")))
    accA = 0
    if okruns:
        accA, rej, _ = vlib.validate_runs(sc, "BatcherTrace", "BatcherTrace.cfg", [mk(o, o["id"]) for o in okruns], "okA")
        for r, idx, ev in rej:
            sig, what = classify(r, idx, ev)
            V.violation(sig, what, {"path": paths[r["id"]], "observed": r["events"]})

    # direction B
    runs_per = 2500 if thorough else 250
    maxn, maxm = (200, 64) if thorough else (60, 16)

    def two(k):
        return vlib.run([binary, "stress", "-runs", str(runs_per), "-maxn", str(maxn), "-maxm", str(maxm),
                         "-seed", str(vlib.seed() * 1000 + k), "-out", sc.path("stress%d.ndjson" % k)], timeout=3000)
    with ThreadPoolExecutor(max_workers=nsh) as ex:
        srs = list(ex.map(two, range(nsh)))
    bruns = []
    distinct = set()
    for k, r in enumerate(srs):
        begun = None
        for line in open(sc.path("stress%d.ndjson" % k)):
            try:
                o = json.loads(line)
            except ValueError:
                continue
            if "begin" in o:
                begun = o["begin"]
                continue
            begun = None
            if o["status"] == "hang":
                V.violation("hang:stress", "Query did not return within 30 s (n=%d m=%d)" % (o["n"], o["m"]), o)
                continue
            bruns.append(mk(o, "s%d.%d" % (k, o["id"])))
            fails = tuple(e["c"] for e in o["trace"] if e["ev"] == "HttpDone" and e["st"] == "fail")
            distinct.add((o["n"], o["m"], fails, tuple(e["c"] for e in o["trace"] if e["ev"] == "HttpDone")))
        if r.timed_out:
            raise vlib.MachineryError("stress shard timed out")
        if r.returncode not in (0, 3):
            msg = [l for l in r.stderr.splitlines() if l.startswith("panic:") or l.startswith("fatal error:")]
            V.violation("crash:" + (msg[0] if msg else "exit %d" % r.returncode), "the process died during a free run",
                        {"stderr": r.stderr[-3000:], "run": begun})
    accB, rej, tstats = vlib.validate_runs(sc, "BatcherTrace", "BatcherTrace.cfg", bruns, "stress")
    for r, idx, ev in rej:
        sig, what = classify(r, idx, ev)
        V.violation(sig, what, {"run": r["id"], "observed": [r["reset"]] + r["events"]})
    log("direction B: %d free runs, %d accepted" % (len(bruns), accB))

    # negative controls
    base = next((r for r in bruns if r["reset"]["n"] >= 3 and r["events"][-1]["ok"] and len([e for e in r["events"] if e["ev"] == "Http"]) >= 2), None)
    if base is None:
        raise vlib.MachineryError("no run usable as negative control")
    ctrls = []
    e1 = [dict(e) for e in base["events"]]
    e1[-1] = dict(e1[-1], res=list(reversed(e1[-1]["res"])))
    ctrls.append(("swapped-results", e1))
    e2 = [dict(e) for e in base["events"]]
    i = next(k for k, e in enumerate(e2) if e["ev"] == "Http")
    ctrls.append(("dropped-call", [e for e in e2 if not (e["ev"] in ("Http", "HttpDone") and e["c"] == e2[i]["c"])]))
    e3 = [dict(e) for e in base["events"]]
    j = next(k for k, e in enumerate(e3) if e["ev"] == "HttpDone")
    e3[j] = dict(e3[j], st="fail")
    ctrls.append(("failure-masked", e3))
    for cname, evs in ctrls:
        a, rj, _ = vlib.validate_runs(sc, "BatcherTrace", "BatcherTrace.cfg", [{"id": cname, "reset": base["reset"], "events": evs}], "ctrl-" + cname)
        if not rj:
            raise vlib.MachineryError("negative control %s accepted" % cname)

    rc = V.finish()
    vlib.write_evidence(PID, tier, "model_checking", {
        "states": design["states"], "transitions": design["transitions"],
        "traces_validated_against_impl": len(done_ids) + accB,
        "samples": [{"direction": "A", "steps": paths[len(paths) // 2]["steps"]},
                    {"direction": "B", "start": base["reset"], "events": base["events"][:30]}],
        "design_level": design, "direction_A": dict(gstat, results=counts, ok_traces_revalidated_by_tlc=accA),
        "direction_B": {"free_runs": len(bruns), "accepted": accB, "max_n": maxn, "max_m": maxm, "tlc": tstats},
        "negative_controls_rejected": len(ctrls),
        "evaluations": len(done_ids) + len(bruns),
        "distinct_nontrivial": sum(1 for p in paths if p["steps"][0][1] > p["steps"][0][2]) + len([d for d in distinct if d[0] > d[1]]),
        "rule": "A: maximal behaviours of BatcherImpl, non-trivial = N > m (more than one chunk); B: free runs distinct by (N, m, completion order, failing calls), non-trivial = N > m",
        "exhaustive": exhaustive, "known_findings_hit": sorted(V.hit_known), "notes": V.notes, "repo_head": vlib.repo_head(),
    }, time.time() - t0, violations=len(V.violations), assumptions=[
        "the service answers a call with one entry per request, in order (other shapes are C09)",
        "a call fails by transport error, HTTP 500 or a non-JSON body",
        "sends are not gated: the harness waits for the call the model names and controls only completion order and status",
    ])
    return rc
