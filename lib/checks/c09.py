"""C09 - downstream failures are contained and reported, never masked.

Spec: FederationAbs (Enforce={C09}): after a Fault(kind, service, call, position) event the
response must still be well formed with status 200; if the fault is a failure signal (transport
error, non-2xx, body not JSON / not an array / of the wrong length, `errors`, missing or null
`data`, missing or mistyped `node`) `errors` is non-empty; in every case the scalar leaves of
`data` are a subset of the scalar leaves the services actually returned (nothing fabricated); the
fault-free canary that follows is answered as C01 demands.  The gateway runs in a child process: a
panic in one of its goroutines or a hang is observed as the death of that process and attributed to
the operation being served.
Each operation is run fault-free first (to learn the calls it makes), then once per injected fault
(kind x service x call x position in the batch), then fault-free again.
"""
from checks import fedcheck

PID = "C09"


def _mask_failure(runs):
    for r in runs:
        evs = r["events"]
        for i, e in enumerate(evs):
            if e["ev"] == "Fault" and e["signal"]:
                for f in evs[i:]:
                    if f["ev"] == "Resp":
                        f["errors"] = []
                        return True
    return False


def _fabricate(runs):
    for r in runs:
        for e in r["events"]:
            if e["ev"] == "Resp":
                e["leaves"] = e["leaves"] + ["value-no-service-returned"]
                return True
    return False


def run(sc, tier, replay):
    off = ["nodirid", "nofragdirs"]
    strata = {"core-faults": (off + ["oddids", "richargs"], 1.0, "faults")}
    return fedcheck.run_fed_check(
        sc, tier, PID, ["C09", "C01"], "fault_enumeration",
        {"quick": (110, 10), "thorough": (1600, 20)},
        [("failure-masked", _mask_failure), ("value-fabricated", _fabricate)],
        ["one fault per run (kind x service x call x batch position), chosen by the seeded generator among the calls the fault-free run made; pairs of faults are two runs",
         "C01 is enforced on the fault-free dry run and on the canary",
         "a fault of a shape-contradicting kind that the honest answer cannot express (no list / no object in it) is skipped"],
        strata=strata)
