"""Common driver of C15 and C16: schemas = a base schema plus every set of at most two type-system
features (enumerated exhaustively by TLC, spec/Introspect.tla Cases); cmd/intro runs the real code;
IntrospectTrace (TLC) decides with IntroOK."""
import copy
import json
import time
from concurrent.futures import ThreadPoolExecutor

import vlib
from vlib import log


def run_intro_check(sc, tier, pid, mode, text):
    t0 = time.time()
    V = vlib.Verdicts(pid)
    binary = vlib.go_build(sc, "./cmd/intro", "intro", tags="")
    res = vlib.run_tlc(sc, "Introspect", "Introspect_gen.cfg", workers=1, serial=True, name="gen", timeout=600)
    cases = []
    for c in res.printed:
        if not isinstance(c["features"], list):
            c["features"] = []
        cases.append(c)
    if len(cases) < 500:
        raise vlib.MachineryError("Introspect enumerated only %d cases" % len(cases))
    nsh = 12
    for k in range(nsh):
        with open(sc.path("feat%d.ndjson" % k), "w") as f:
            for c in cases[k::nsh]:
                f.write(json.dumps(c) + "\n")

    def one(k):
        return vlib.run([binary, "-mode", mode, "-in", sc.path("feat%d.ndjson" % k), "-out", sc.path("intro%d.trace" % k)], timeout=1800)
    with ThreadPoolExecutor(max_workers=nsh) as ex:
        rs = list(ex.map(one, range(nsh)))
    runs = []
    n = 0
    for k, r in enumerate(rs):
        evs = []
        for line in open(sc.path("intro%d.trace" % k)):
            try:
                e = json.loads(line)
            except ValueError:
                continue
            if e["ev"] == "HarnessError":
                raise vlib.MachineryError("intro driver: %s" % e["what"][:1500])
            evs.append(e)
        if r.returncode != 0:
            if not vlib.panic_in_code_under_test(r.stderr):
                raise vlib.MachineryError("the intro driver itself failed:\n" + r.stderr[-3000:])
            last = next((e for e in reversed(evs) if e["ev"] == "Begin"), None)
            msg = [l for l in r.stderr.splitlines() if l.startswith("panic:") or l.startswith("fatal error:")]
            V.violation("%s/process-dies:%s" % ("+".join(last["features"]) if last else "?", (msg[0] if msg else "exit %d" % r.returncode)[:80]),
                        "the process died while introspecting", {"features": last, "stderr": r.stderr[-3000:]})
        evs = [e for e in evs if e["ev"] == "Intro"]
        # C16: the second gateway's reconstruction is a second Intro event
        extra = []
        for e in evs:
            if mode == "c16" and "second" in e:
                s = e["second"]
                extra.append(dict(e, ok=s["ok"], err=s["err"], rebuilt=s["schema"], typeAgrees=True, aliasAgrees=True, concurrentAgrees=True, probes=[], via="second-gateway"))
        n += len(evs)
        runs.append({"id": "shard%d" % k, "reset": {"ev": "Reset"}, "events": evs + extra})
    rej, _, st = vlib.validate_lenient(sc, "IntrospectTrace", "IntrospectTrace.cfg", runs, "intro", chunk_events=400)
    for r, idx, ev, why in rej:
        feats = "+".join(ev["features"]) or "base"
        via = ev.get("via", "standard-client" if mode == "c16" else "introspector")
        if why == "not-reconstructed":
            err = ev["err"]
            if "Schema does not support operation type" in err:
                why = "not-reconstructed:schema-does-not-support-operation-type"
            elif "can only be defined once" in err:
                why = "not-reconstructed:field-defined-twice"
            else:
                import re as _re
                why = "not-reconstructed:" + _re.sub(r"\s+", " ", _re.sub(r'"[^"]*"|\d+', "#", err))[:60]
        sig = "%s/%s[%s]" % (feats, why, via)
        V.violation(sig, "schema (features %s):\n%s\nrefused because: %s%s" % (ev["features"], ev["sdl"][:1500], why,
                                                                         ("\n__type(name: %s) disagrees" % ev.get("typeDisagrees")) if not ev.get("typeAgrees", True) else ""),
                    {"features": ev["features"], "sdl": ev["sdl"], "why": why, "err": ev["err"], "orig": ev["orig"], "rebuilt": ev["rebuilt"], "probes": ev["probes"]})
    log("schemas %d, refused %d" % (n, len(rej)))
    ctrl = copy.deepcopy(runs[:1])
    ctrl[0]["events"] = ctrl[0]["events"][:3]
    ctrl[0]["events"][0]["rebuilt"]["roots"]["Query"].pop(sorted(ctrl[0]["events"][0]["rebuilt"]["roots"]["Query"])[0], None)
    rj, _, _ = vlib.validate_lenient(sc, "IntrospectTrace", "IntrospectTrace.cfg", ctrl, "ctrl")
    if not rj:
        raise vlib.MachineryError("negative control accepted")
    rc = V.finish()
    vlib.write_evidence(pid, tier, "model_checking", {
        "states": res.distinct, "transitions": res.generated, "traces_validated_against_impl": n,
        "samples": [{"features": cases[5]["features"]}, {"features": cases[-1]["features"], "sdl": runs[0]["events"][0]["sdl"][:600]}],
        "feature_sets_enumerated_by_tlc": len(cases), "exhaustive": True,
        "evaluations": n, "distinct_nontrivial": sum(1 for c in cases if c["features"]),
        "rule": "every set of at most two of the 38 type-system features of Introspect!Features on top of a base schema, enumerated exhaustively by TLC; non-trivial = at least one feature",
        "known_findings_hit": sorted(V.hit_known), "notes": V.notes, "repo_head": vlib.repo_head(),
    }, time.time() - t0, violations=len(V.violations), assumptions=text)
    return rc
