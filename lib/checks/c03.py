"""C03 - the merged schema is exactly the union of the service schemas.

Spec: Merge!Merged(S) - the union of declarations: types by name, fields with result type and
arguments (type, default), enum values, union members, implemented interfaces, input fields,
directives; Node types declared by several services once with the union of their fields; the node
entry point present iff some service has it (absent under the node-hiding merger).  MergeTrace
(Enforce={C03}): for every mergeable set and EVERY permutation of the service list the schema the
real merger returns, projected to the same view, must equal Merged(S) and be a valid schema.
"""
from checks import mergecheck

PID = "C03"


def _mergeable(r):
    return not any(t.startswith("edit:") for t in r["reset"].get("tags", []))


def _drop_field(runs):
    for r in runs:
        if not _mergeable(r):
            continue
        for e in r["events"]:
            if e["ok"] and e["merger"] == "extend":
                for t, td in e["schema"]["types"].items():
                    if td["fields"]:
                        del td["fields"][sorted(td["fields"])[0]]
                        return True
    return False


def _invent_type(runs):
    for r in runs:
        if not _mergeable(r):
            continue
        for e in r["events"]:
            if e["ok"] and e["merger"] == "extend":
                e["schema"]["types"]["Invented"] = {"kind": "SCALAR", "node": False, "fields": {}, "values": [], "members": [], "impl": []}
                return True
    return False


def _lose_node(runs):
    for r in runs:
        if not _mergeable(r):
            continue
        for e in r["events"]:
            if e["ok"] and e["merger"] == "extend" and e["schema"]["hasNode"]:
                e["schema"]["hasNode"] = False
                return True
    return False


def run(sc, tier, replay):
    return mergecheck.run_merge_check(sc, tier, PID, ["C03"], "model_checking", [],
                                      [("field-dropped", _drop_field), ("type-invented", _invent_type), ("node-entry-point-lost", _lose_node)])
