"""C16 - what the gateway reports about its schema is the schema it enforces.

Spec: spec/Introspect.tla - IntroOK on what a standard client (harness/introresp.Rebuild, a
reimplementation of buildClientSchema) and a SECOND REAL GATEWAY INTROSPECTOR rebuild from the
gateway's answer to the standard introspection query, compared with the schema the gateway was
started with (one service, real merger); __type(name:) by literal and by variable must equal the
entry of __schema.types; for every root field: reported <=> an operation using it validates.
Schemas: base + every set of at most two type-system features (742 sets, enumerated by TLC).
"""
from checks import introcheck

PID = "C16"


def run(sc, tier, replay):
    return introcheck.run_intro_check(sc, tier, PID, "c16", [
        "one service per gateway (merging is C03); the enforced schema is what gqlparser loads from the service's SDL",
        "the standard client is the harness's reimplementation of buildClientSchema over the standard introspection query (9 ofType levels)",
    ])
