"""C05 - conflicting service schemas are rejected, independent of service order.

Spec: Merge!Mergeable (no root field declared twice, no name used for two kinds, no type that is a
Node in one service only, no Node-type field declared twice, no shared plain/input type that is
neither identical nor disjoint, no shared field with different type or arguments, no union with
different members).  MergeTrace (Enforce={C05}): for EVERY permutation of the service list the real
merger (ExtendMergerFunc, SanitizeNodeMergerFunc, NewGateway) must accept iff Mergeable, and must
never panic.  Sets are generated mergeable and then get 0-2 conflict-introducing edits.
"""
from checks import mergecheck

PID = "C05"


def _flip(runs):
    for r in runs:
        for e in r["events"]:
            e["ok"] = not e["ok"]
            return True
    return False


def _panic(runs):
    for r in runs:
        for e in r["events"]:
            e["panic"] = True
            return True
    return False


def run(sc, tier, replay):
    return mergecheck.run_merge_check(sc, tier, PID, ["C05"], "model_checking", [], [("accept-flipped", _flip), ("panic", _panic)])
