"""C01 - federated execution returns what a single server would return.

Spec: spec/GQL.tla (Ref = the GraphQL execution algorithm over the union of the data; Norm = the
tolerated pruning), spec/FederationAbs.tla (Respond is allowed only with Norm(data) = Norm(Ref) and
no errors), spec/FederationTrace.tla.  The real gateway (NewGateway, real merger / planner /
executor / MultiOpQueryer, six configurations) runs over fake services that evaluate what they
receive; TLC recomputes Ref for every recorded (world, operation) and accepts or refuses the
recorded response.  R7: the harness's own evaluator on the merged world is compared with Ref on
every case.
"""
from checks import fedcheck

PID = "C01"


def _corrupt_scalar(runs):
    for r in runs:
        for e in r["events"]:
            if e["ev"] == "Resp" and e["data"].get("t") == "m" and e["data"]["v"]:
                k = sorted(e["data"]["v"])[0]
                e["data"]["v"][k] = {"t": "s", "v": "corrupted-by-negative-control"}
                return True
    return False


def _leak_helper(runs):
    for r in runs:
        for e in r["events"]:
            if e["ev"] == "Resp" and e["data"].get("t") == "m":
                e["data"]["v"]["__typename"] = {"t": "s", "v": "Query"}
                return True
    return False


def _add_error(runs):
    for r in runs:
        for e in r["events"]:
            if e["ev"] == "Resp":
                e["errors"] = ["injected"]
                return True
    return False


def run(sc, tier, replay):
    return fedcheck.run_fed_check(
        sc, tier, PID, ["C01"], "model_checking",
        {"quick": (420, 12), "thorough": (6000, 25)},
        [("wrong-value", _corrupt_scalar), ("helper-leaks", _leak_helper), ("errors-not-empty", _add_error)],
        ["services are consistent: each resolves node(id:) for every entity of the Node types it declares and agrees on id; data conforms to declared nullability; mutations are pure echoes",
         "generated service sets merge successfully (conflicting sets belong to C05)",
         "scalars are String/Int/Boolean/ID over a small alphabet; custom scalars and directives other than @skip/@include are not generated",
         "schemas reach the gateway through an SDL-loading introspector (introspection fidelity is C15)"])
