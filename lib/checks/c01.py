"""C01 - federated execution returns what a single server would return.

Spec: spec/GQL.tla (Ref = the GraphQL execution algorithm over the union of the data; Norm = the
tolerated pruning), spec/FederationAbs.tla (Respond is enabled only with Norm(data) = Norm(Ref) and
no errors), spec/FederationTrace.tla.  The real gateway (NewGateway, real merger / planner /
executor / MultiOpQueryer) runs over fake services that evaluate what they receive; TLC recomputes
Ref for every recorded (world, operation) and accepts or rejects the recorded response.
R7: the harness's own evaluator on the merged world is compared with Ref on every case.
"""
import json
import time

from checks import fedlib
import vlib
from vlib import log

PID = "C01"
CFGS = "default,sanitize,idhint,cached,batch1,batch2"


def describe(stratum, r, idx, ev, payload):
    a, b = fedlib.op_bounds(r, idx)
    req = r["events"][a]
    exp = fedlib.expected_from_payload(payload)
    sym = fedlib.symptom(ev, exp) if ev["ev"] == "Resp" else "rejected-" + ev["ev"]
    sig = "%s/%s" % (fedlib.case_prefix(r, req), sym)
    obs = fedlib.norm(fedlib.untag(ev["data"])) if ev["ev"] == "Resp" else None
    what = "config %s, operation:\n%s\nvariables %s\nerrors %s\nfirst difference %s" % (
        req.get("cfg"), req["text"], json.dumps(req["op"]["vars"]), ev.get("errors"),
        fedlib.first_diff(exp, obs) if exp is not None and obs is not None else None)
    case = {"stratum": stratum, "world": r["reset"], "request": req, "events": r["events"][a:b + 1], "expected": exp, "observed": obs}
    return sig, what, case


def run(sc, tier, replay):
    t0 = time.time()
    V = vlib.Verdicts(PID)
    thorough = tier == "thorough"
    binary = vlib.go_build(sc, "./cmd/fed", "fed")
    open(sc.path("x"), "w").close()
    import os
    import shutil
    # trace config for this property
    with open(os.path.join(vlib.SPEC, "fed.cfg.tmp"), "w") as f:
        f.write(fedlib.cfg_text(["C01"]))
    os.replace(os.path.join(vlib.SPEC, "fed.cfg.tmp"), os.path.join(vlib.SPEC, "fed.cfg"))
    try:
        stats, rejections, other, samples = fedlib.run_strata(sc, binary, ["C01"], 6000 if thorough else 420, 25 if thorough else 12, cfgs_core=CFGS, pinned_prefix=PID)
    finally:
        try:
            os.remove(os.path.join(vlib.SPEC, "fed.cfg"))
        except OSError:
            pass
    for o in other:
        if o["ev"] == "HarnessError":
            raise vlib.MachineryError("harness: %s" % o["what"])
        if o["ev"] == "StartFailed":
            raise vlib.MachineryError("a generated world did not start (the generator must only produce mergeable sets; conflicts are C05): %s" % o["err"])
    for stratum, r, idx, ev, payload in rejections:
        sig, what, case = describe(stratum, r, idx, ev, payload)
        V.violation(sig, what, case)
    for k, v in stats.items():
        log("stratum %-13s worlds %5d ops %6d rejected %3d" % (k, v["worlds"], v["ops"], v["rejected"]))
    rc = V.finish()
    total_ops = sum(v["ops"] for v in stats.values())
    vlib.write_evidence(PID, tier, "model_checking", {
        "states": sum(v["tlc"]["states"] for v in stats.values()),
        "transitions": sum(v["tlc"]["states"] for v in stats.values()),
        "traces_validated_against_impl": total_ops,
        "samples": samples,
        "strata": stats,
        "configurations": CFGS.split(","),
        "evaluations": total_ops,
        "distinct_nontrivial": sum(v["nontrivial"] for v in stats.values()),
        "rule": "seeded generator of (service schemas x entity graph x operation); every case is an (operation, gateway configuration) pair run through the real gateway; "
                "non-trivial = the observed plan involves >= 2 services and >= 3 (service, level) pairs, i.e. at least one stitched child step",
        "known_findings_hit": sorted(V.hit_known), "notes": V.notes, "repo_head": vlib.repo_head(),
    }, time.time() - t0, violations=len(V.violations), assumptions=[
        "services are consistent: each resolves node(id:) for every entity of the Node types it declares and agrees on id; data conforms to declared nullability; mutations are pure echoes",
        "generated service sets merge successfully (conflicting sets belong to C05)",
        "scalars are String/Int/Boolean/ID over a small alphabet; custom scalars and directives other than @skip/@include are not generated",
        "schemas reach the gateway through an SDL-loading introspector (introspection fidelity is C15)",
    ])
    return rc
