"""C18 - subscription teardown is safe under every interleaving.

Specs: spec/SubscriptionImpl.tla (one subscription on one connection: handler, Listen, Close,
upstream reader, upstream closer; one action per step between two `verif` hook points; client and
upstream scripts as the environment; TLC checks NoLeak at every quiescent state, termination under
fairness, and that leaving out the one unforceable step loses no state), spec/SubscriptionFrames.tla
(+Trace: writers sharing the client connection), spec/SubscriptionImplOld.tla (the protocol before the
fix: commits - TLC still finds its crashes; kept as the record of the finding).

Direction A: maximal behaviours of SubscriptionImpl are forced on the real gateway (real websocket
client, real TCP upstreams): every goroutine parks at its hook points, one model action = release the
goroutines taking part, then the set of parked goroutines is compared with the program counters of the
model's next state.  The verdict comes from the real process: it dies (child process, panic /
fatal error inside the repository), goroutines of the subscription or its upstream connection are
left when the behaviour is over, the client reads a malformed frame.  Frames: the counterexample of
SubscriptionFrames Mode "two" (h1 h2 p1 p2) is attempted on the real connection; the Write calls
recorded there are validated against SubscriptionFramesTrace.
"""
import json
import os
import random
import re
import time

import vlib
from vlib import log

PID = "C18"
KEEP = ("act", "hpc", "lpc", "cpc", "rpc", "kpc", "delivered", "upClosed", "clientGone", "inDict", "subEnd", "connEnd", "closeReq", "qClosed")


def case_of(g, path, cid):
    steps = []
    for s in path[1:]:
        st = g.state[s]
        steps.append({"act": list(st["act"]), "post": {
            "H": st["hpc"], "L": st["lpc"], "C": st["cpc"], "R": st["rpc"], "K": st["kpc"], "delivered": st["delivered"],
            "crashed": "", "upClosed": st["upClosed"], "clientGone": st["clientGone"], "inDict": st["inDict"]}})
    f = g.state[path[-1]]
    ended = f["subEnd"] or f["connEnd"]
    allgone = f["lpc"] in ("done", "none") and f["rpc"] == "done" and f["kpc"] == "done" and f["cpc"] in ("none", "done") and f["upClosed"]
    return {"id": cid, "init": list(g.state[path[0]]["act"]), "steps": steps, "quiescent": True, "ended": ended, "allGone": allgone}


def racy_cases(g, rng, limit):
    """Listen in its select with closeCh closed AND the reader ready to send: Go picks a case at random.
    A shortest behaviour to every such state, followed by one step that lets both goroutines go."""
    import collections
    parent = {i: None for i in g.inits}
    dq = collections.deque(g.inits)
    while dq:
        x = dq.popleft()
        for y in g.succ.get(x, []):
            if y not in parent:
                parent[y] = x
                dq.append(y)
    seen, out = set(), []
    nodes = sorted(n for n in parent if g.state[n]["lpc"] == "select" and g.state[n]["closeReq"] and g.state[n]["rpc"] in ("send", "sendnil") and not g.state[n]["qClosed"])
    rng.shuffle(nodes)
    for n in nodes:
        st = g.state[n]
        key = tuple(str(st[k]) for k in KEEP if k != "act") + (str(g.state[[p for p in [n]][0]]["act"]),)
        if key in seen:
            continue
        seen.add(key)
        path = []
        x = n
        while x is not None:
            path.append(x)
            x = parent[x]
        path.reverse()
        c = case_of(g, path, "race%d" % len(out))
        c["steps"].append({"act": ["Race", st["rpc"]], "post": c["steps"][-1]["post"] if c["steps"] else {}})
        c["quiescent"], c["ended"] = False, True
        out.append(c)
        if len(out) >= limit:
            break
    return out


def history(c):
    return [c["init"]] + [s["act"] for s in c["steps"]]


def gen_cases(sc, tier, rng):
    dot = sc.path("sub.dot")
    rg = vlib.run_tlc(sc, "SubscriptionMC", "SubscriptionGen.cfg", workers=4, name="gen", timeout=1200, extra=["-dump", "dot", dot])
    g = vlib.Graph(dot, keep=KEEP)
    total = g.total_paths()
    cover = g.edge_cover_paths(rng)
    edges = sum(len(v) for v in g.succ.values())
    if tier == "thorough":
        plist = list(cover)
        for _ in range(80000):
            plist.append(g.nth_path(rng.randrange(total)))
    else:
        rng.shuffle(cover)
        plist = cover[:3000]
        for _ in range(1000):
            plist.append(g.nth_path(rng.randrange(total)))
    cases = [case_of(g, p, "b%d" % i) for i, p in enumerate(plist)]
    # every behaviour with a failing upstream handshake
    have = {json.dumps(history(c)) for c in cases}
    for p in cover:
        if g.state[p[0]]["act"][3] is True:
            c = case_of(g, p, "sf%d" % len(cases))
            if json.dumps(history(c)) not in have:
                cases.append(c)
    racy = racy_cases(g, rng, 100000 if tier == "thorough" else 400)
    cases += racy
    os.remove(dot)
    return cases, dict(racy_select_cases=len(racy), states=rg.distinct, transitions=rg.generated, behaviours=total, edges=edges, edge_cover=len(cover),
                       replayed=len(cases), edge_cover_complete=(tier == "thorough"))


def classify(r, case):
    """-> (kind, signature, what) ; kind in ok | violation | machinery"""
    if "harnessError" in r:
        return "machinery", None, r["harnessError"]
    if "crash" in r:
        if not r.get("inRepo"):
            return "machinery", None, "the harness died: %s at %s\n%s" % (r["crash"], r["where"], r["stderr"][:1500])
        return "violation", "crash:%s@%s" % (r["crash"].replace("panic: ", "").replace("fatal error: ", ""), r["where"]), \
            "the gateway process died (%s in %s) on this history" % (r["crash"], r["where"])
    if r.get("badFrames"):
        return "violation", "frames:" + r["badFrames"][0].split(":")[0], "the client received %s" % r["badFrames"][:2]
    if r.get("leak") or r.get("upOpen"):
        roles = "+".join(sorted(set(r.get("leak") or []))) or "-"
        return "violation", "leak:%s%s" % (roles, ":upstream-open" if r.get("upOpen") else ""), \
            "after the %s ended, left behind: goroutines %s%s%s" % (
                "connection" if r.get("connEnded") else "subscription", r.get("leak") or [],
                ", upstream connection still open" if r.get("upOpen") else "",
                "; the code left the model's path at: " + r["deviation"] if r.get("deviation") else "")
    if r.get("deviation"):
        if r["deviation"].startswith("setup:") or r["deviation"].startswith("dial:") or "unknown action" in r["deviation"]:
            return "machinery", None, "harness: %s on %s" % (r["deviation"], r["id"])
        return "drift", None, "the code does not follow SubscriptionImpl on %s: %s" % (r["id"], r["deviation"])
    if r.get("modelSays"):
        return "drift", None, "model and code disagree on the end state of %s: %s" % (r["id"], r["modelSays"])
    return "ok", None, None


def replay(sc, binary, cases, name, workers=16, timeout=3000):
    path = sc.path(name + "-cases.ndjson")
    with open(path, "w") as f:
        for c in cases:
            f.write(json.dumps(c) + "\n")
    out = sc.path(name + "-results.ndjson")
    r = vlib.run([binary, "teardown", "-cases", path, "-out", out, "-workers", str(workers)], timeout=timeout)
    if r.timed_out:
        raise vlib.MachineryError("teardown replay timed out")
    if r.returncode != 0:
        raise vlib.MachineryError("teardown replay failed (exit %s): %s" % (r.returncode, r.stderr[-2000:]))
    res = [json.loads(l) for l in open(out)]
    skipped = sum(r["skippedRest"] for r in res if "skippedRest" in r)
    return [r for r in res if "skippedRest" not in r], skipped


def run(sc, tier, replay_file):
    t0 = time.time()
    rng = random.Random(vlib.seed())
    V = vlib.Verdicts(PID)
    thorough = tier == "thorough"
    binary = vlib.go_build(sc, "./cmd/sub", "sub")
    byid = {}
    drift = []      # behaviours on which the code left the model's path without doing anything the property forbids

    def judge(results, cases):
        counts = {"ok": 0, "violation": 0, "machinery": 0, "drift": 0}
        mach = []
        for r in results:
            c = byid.get(r.get("id"))
            kind, sig, what = classify(r, c)
            counts[kind] += 1
            if kind == "violation":
                V.violation(sig, what, {"mode": "teardown", "case": c, "history": history(c) if c else None, "result": {k: v for k, v in r.items() if k != "log"}})
            elif kind == "machinery":
                mach.append(what)
            elif kind == "drift":
                drift.append(what)
        return counts, mach

    if replay_file:
        o = json.load(open(replay_file))["case"]
        if o.get("mode") == "frames":
            raise vlib.MachineryError("frames cases are re-run by the check itself")
        c = o["case"]
        byid[c["id"]] = c
        counts, mach = judge(replay(sc, binary, [c], "replay", workers=1)[0], [c])
        if mach:
            raise vlib.MachineryError(mach[0])
        rc = V.finish()
        return rc

    # ---------------------------------------------------------------- design level
    d = vlib.run_tlc(sc, "SubscriptionMC", "SubscriptionMC.cfg", workers=8, name="design", timeout=1800, coverage=thorough)
    f = vlib.run_tlc(sc, "SubscriptionMC", "SubscriptionForce.cfg", workers=8, name="force", timeout=1800)
    if d.distinct != f.distinct:
        raise vlib.MachineryError("leaving out the unforceable select step loses states: %d vs %d" % (d.distinct, f.distinct))
    old = vlib.run_tlc(sc, "SubscriptionOldMC", "SubscriptionOldMC.cfg", workers=4, name="old", timeout=600, allow_violation=True)
    if not old.violated:
        raise vlib.MachineryError("the model of the protocol before the fix no longer shows its defects")
    fr = {}
    for m in ("one", "locked", "two"):
        r = vlib.run_tlc(sc, "SubscriptionFrames", "SubscriptionFrames_%s.cfg" % m, workers=2, name="frames-" + m, timeout=300, allow_violation=(m == "two"))
        fr[m] = dict(states=r.distinct, violated=r.violated)
    if fr["two"]["violated"] != "WellFormed" or fr["one"]["violated"] or fr["locked"]["violated"]:
        raise vlib.MachineryError("SubscriptionFrames: unexpected design-level results %s" % fr)
    design = dict(states=d.distinct, transitions=d.generated, depth=d.depth, liveness="EventuallyGone under WF(Next)",
                  forceable_states=f.distinct, old_protocol_violates=old.violated, frames=fr)
    log("design level: %s" % design)

    # ---------------------------------------------------------------- direction A
    cases, gstat = gen_cases(sc, tier, rng)
    for c in cases:
        byid[c["id"]] = c
    log("direction A: %s" % gstat)
    results, skipped = replay(sc, binary, cases, "A")
    if len(results) + skipped != len(cases):
        raise vlib.MachineryError("replay lost cases: %d + %d skipped of %d" % (len(results), skipped, len(cases)))
    counts, mach = judge(results, cases)
    if skipped:
        V.note("the replay stopped early after too many failing behaviours: %d of %d replayed" % (len(results), len(cases)))
    log("direction A results: %s" % counts)
    acts = {}
    for c in cases:
        for s in c["steps"]:
            acts[s["act"][0]] = acts.get(s["act"][0], 0) + 1

    # pinned histories of the defects that were fixed (the old model's counterexamples, translated)
    # are part of the behaviours above; the recorded pre-fix histories are kept in findings/ for reference

    # ---------------------------------------------------------------- frames
    fout = sc.path("frames.ndjson")
    cmd = [binary, "frames", "-out", fout, "-heartbeat"]   # the heartbeat's period is a 4 s constant: this costs 4 s
    r = vlib.run(cmd, timeout=120)
    if r.returncode != 0:
        if vlib.panic_in_code_under_test(r.stderr):
            V.violation("crash:frames", "the gateway died while two writers wrote frames", {"mode": "frames", "stderr": r.stderr[-3000:]})
        else:
            raise vlib.MachineryError("frames driver failed: %s" % r.stderr[-2000:])
    frames = [json.loads(l) for l in open(fout)] if os.path.exists(fout) else []
    fstat = []
    for fr_ in frames:
        if fr_.get("deviation"):
            mach.append("frames %s: %s" % (fr_["mode"], fr_["deviation"]))
            continue
        tr = sc.path("wr-%s.ndjson" % fr_["mode"])
        with open(tr, "w") as fh:
            for e in fr_["trace"]:
                fh.write(json.dumps(e) + "\n")
        t = vlib.run_tlc(sc, "SubscriptionFramesTrace", "SubscriptionFramesTrace.cfg", workers=1, serial=True, name="wr-" + fr_["mode"],
                         env={"VERIF_TRACE": tr}, timeout=300, allow_violation=True)
        accepted = t.violated == "NotAccepted"
        fstat.append(dict(mode=fr_["mode"], writes=fr_["writes"], forced=fr_["forced"], serialised=fr_["serialised"], accepted_by_tlc=accepted,
                          data_frames=fr_["data"], bad=len(fr_.get("badFrames") or [])))
        if fr_.get("badFrames"):
            V.violation("frames:interleaved", "two writers (%s) were brought to write at the same time; the gateway handed the frames to the connection in "
                        "pieces (%s) and the client read: %s" % (fr_["mode"], fr_["writes"], fr_["badFrames"][:2]), {"mode": "frames", "result": fr_})
        elif not accepted:
            mach.append("frames %s: the recorded Write calls are refused by SubscriptionFramesTrace although the client read intact frames: %s" % (fr_["mode"], fr_["trace"]))
    log("frames: %s" % fstat)

    # ---------------------------------------------------------------- direction B: perturbed stress
    sout = sc.path("stress.ndjson")
    nstress = 50000 if thorough else 1200
    r = vlib.run([binary, "stress", "-seed", str(vlib.seed()), "-runs", str(nstress), "-out", sout, "-workers", "16"], timeout=3000)
    if r.timed_out or r.returncode != 0:
        raise vlib.MachineryError("stress driver failed: %s" % r.stderr[-2000:])
    sstat = {"runs": 0, "ok": 0, "conns": 0, "subs": 0, "emitted": 0, "frames": 0, "skipped": 0}
    subtraces, owner, unlinked = [], {}, 0
    for line in open(sout):
        o = json.loads(line)
        if "skippedRest" in o:
            sstat["skipped"] += o["skippedRest"]
            continue
        if "harnessError" in o:
            raise vlib.MachineryError(o["harnessError"])
        sstat["runs"] += 1
        rep = {"mode": "stress", "seed": o.get("seed"), "id": o.get("id"), "actions": o.get("actions")}
        if "crash" in o:
            if not o.get("inRepo"):
                raise vlib.MachineryError("the stress harness died: %s at %s\n%s" % (o["crash"], o["where"], o["stderr"][:1500]))
            V.violation("crash:%s@%s" % (o["crash"].replace("panic: ", "").replace("fatal error: ", ""), o["where"]),
                        "the gateway process died (%s in %s) during free run %s" % (o["crash"], o["where"], o["id"]), dict(rep, stderr=o["stderr"][:3000]))
            continue
        for f in ("conns", "subs", "emitted", "frames"):
            sstat[f] += o.get(f, 0)
        unlinked += o.get("unlinked", 0)
        for t_ in o.get("subTraces") or []:
            subtraces.append(t_)
            owner[t_["key"]] = o
        if o.get("deviation"):
            mach.append("stress %s: %s" % (o["id"], o["deviation"]))
        elif o.get("badFrames"):
            kind = "frames:" + ("not-stitched" if "not stitched" in o["badFrames"][0] else "not-a-prefix" if "prefix" in o["badFrames"][0] else
                                "unknown-id" if "never started" in o["badFrames"][0] else "malformed")
            V.violation(kind, "free run %s: %s\n   actions: %s" % (o["id"], o["badFrames"][:2], o["actions"]), dict(rep, result=o))
        elif o.get("leak") or o.get("upOpenN"):
            roles = "+".join(sorted(set(o.get("leak") or []))) or "-"
            V.violation("leak:%s%s" % (roles, ":upstream-open" if o.get("upOpenN") else ""),
                        "free run %s: after every client had gone, left behind: goroutines %s, %d upstream connection(s) open\n   actions: %s" % (
                            o["id"], o.get("leak"), o.get("upOpenN", 0), o["actions"]), dict(rep, result=o))
        else:
            sstat["ok"] += 1
    log("direction B (stress): %s" % sstat)

    # ---------------------------------------------------------------- direction B: the hook events of the free runs against SubscriptionImpl
    # Per subscription the program points of its own goroutines (Listen, Close, upstream reader, upstream closer), each
    # in its own certain order; TLC looks for an interleaving of SubscriptionImpl that explains all four
    # (spec/SubscriptionImplTrace.tla).  Two corrupted copies of accepted records ride along as negative controls.
    tstat = {"records": len(subtraces), "accepted": 0, "refused": 0, "left_behind": 0, "unlinked_subscriptions": unlinked, "events": 0}
    if len(subtraces) > 80000:
        # (thorough tier: TLC needs about 85 states per record; the sample keeps the pass within a few minutes)
        random.Random(vlib.seed()).shuffle(subtraces)
        tstat["records_not_examined"] = len(subtraces) - 80000
        subtraces = subtraces[:80000]
        tstat["records"] = 80000
    if subtraces:
        ctrl = []
        src = next((t_ for t_ in subtraces if len(t_["L"]) >= 5 and "write" in t_["L"]), None)
        if src is not None:
            c1 = json.loads(json.dumps(src)); c1["key"] = "NEG-dropped-write"; c1["L"].remove("write"); ctrl.append(c1)
            c2 = json.loads(json.dumps(src)); c2["key"] = "NEG-frame-without-event"; c2["R"] = [x for x in c2["R"] if x != "send"]
            c2["R"] = [x for i, x in enumerate(c2["R"]) if not (x == "read" and i > 0 and c2["R"][i - 1] == "read")]; ctrl.append(c2)
        src = next((t_ for t_ in subtraces if t_["L"][-1:] == ["done"] and t_["K"][-1:] == ["done"]), None)
        if src is not None:
            c3 = json.loads(json.dumps(src)); c3["key"] = "NEG-closer-never-ran"; c3["K"] = []; ctrl.append(c3)
        trf = sc.path("subtraces.ndjson")
        with open(trf, "w") as fh:
            for t_ in subtraces + ctrl:
                fh.write(json.dumps(t_) + "\n")
        t = vlib.run_tlc(sc, "SubscriptionImplTrace", "SubscriptionImplTrace.cfg", workers=1, serial=True, name="subtraces",
                         env={"SUBTRACE_FILE": trf}, timeout=2400, heap="8g")
        verdicts = {}
        for m_ in re.finditer(r'<<"SUBTRACE", "([^"]*)", "(accepted|refused)", (\d+), (\d+)>>', t.out):
            verdicts[m_.group(1)] = (m_.group(2), int(m_.group(3)), int(m_.group(4)))
        if len(verdicts) != len(subtraces) + len(ctrl):
            raise vlib.MachineryError("SubscriptionImplTrace reported %d verdicts for %d records" % (len(verdicts), len(subtraces) + len(ctrl)))
        for c_ in ctrl:
            if verdicts[c_["key"]][0] != "refused":
                raise vlib.MachineryError("negative control: the corrupted record %s was accepted by SubscriptionImplTrace" % c_["key"])
        tstat["negative_controls_refused"] = len(ctrl)
        tstat["tlc_states"] = t.distinct
        for t_ in subtraces:
            v, prog, total = verdicts[t_["key"]]
            tstat["events"] += total
            o = owner[t_["key"]]
            rep = {"mode": "stress", "seed": o.get("seed"), "id": o.get("id"), "actions": o.get("actions")}
            if v == "accepted":
                tstat["accepted"] += 1
            elif prog == total:
                # every step is a step of the model, but where the logs end something of the subscription is still there
                tstat["left_behind"] += 1
                left = [g for g in ("L", "R", "K") if t_[g][-1:] != ["done"]] + (["C"] if t_["C"][-1:] == ["enter"] else [])
                V.violation("hook-events:left-behind:%s" % "+".join(left),
                            "free run %s, subscription %s: after every client had gone and the process was left to settle, the hook events of the "
                            "subscription's goroutines end before their exits (%s): L=%s C=%s R=%s K=%s\n   actions: %s" % (
                                o["id"], t_["key"], "+".join(left), t_["L"][-3:], t_["C"], t_["R"][-3:], t_["K"], o["actions"]), dict(rep, record=t_))
            else:
                tstat["refused"] += 1
                drift.append("free run %s: no behaviour of SubscriptionImpl explains the hook events of subscription %s beyond %d of %d: %s" % (
                    o["id"], t_["key"], prog, total, json.dumps(t_)))
    log("direction B (hook events vs SubscriptionImpl): %s" % tstat)

    # ---------------------------------------------------------------- negative controls
    # 1. a behaviour the model does not have must be reported as not followed by the code
    base = next(c for c in cases if len(c["steps"]) >= 6 and c["init"][3] is False)
    bad = json.loads(json.dumps(base))
    bad["id"] = "ctrl-swapped"
    k = next(i for i, s in enumerate(bad["steps"]) if s["act"][0] in ("LPrepare", "RExit", "LReturn", "HExit", "KClose", "CClose"))
    bad["steps"] = bad["steps"][:k] + [{"act": ["LWrite", True], "post": dict(bad["steps"][k]["post"], L="select")}] + bad["steps"][k:]
    byid[bad["id"]] = bad
    cr, _ = replay(sc, binary, [bad], "ctrl", workers=1)
    # (on a tree that crashes on this history the control ends in the crash, which is not "without complaint" either)
    if not cr or not (cr[0].get("deviation") or cr[0].get("crash")):
        raise vlib.MachineryError("negative control: a history outside the model was replayed without complaint: %s" % cr)
    # 2. the interleaved Write trace must be refused
    tr = sc.path("wr-bad.ndjson")
    with open(tr, "w") as fh:
        for e in [{"ev": "Conn", "kind": ""}] + [{"ev": "Write", "kind": k} for k in ("frame", "hdr", "hdr", "payload", "payload")]:
            fh.write(json.dumps(e) + "\n")
    t = vlib.run_tlc(sc, "SubscriptionFramesTrace", "SubscriptionFramesTrace.cfg", workers=1, serial=True, name="wr-bad", env={"VERIF_TRACE": tr}, timeout=300, allow_violation=True)
    if t.violated == "NotAccepted":
        raise vlib.MachineryError("negative control: interleaved Write trace accepted")

    if drift:
        # The property is about what the gateway does, not about how: a reworked handshake that still keeps the contract
        # must not raise an alarm.  Those behaviours are then decided by their end state (process alive, nothing left
        # behind, frames intact) and by the free runs only.  VERIF_STRICT=1 turns this into an error (model maintenance).
        V.note("SPEC-DRIFT: on %d of %d replayed behaviours / recorded subscriptions the code did not follow SubscriptionImpl step by step although it did nothing the "
               "property forbids; these were judged by their end state only. First: %s" % (len(drift), len(cases) + tstat["records"], drift[0][:400]))
        if os.environ.get("VERIF_STRICT") == "1":
            raise vlib.MachineryError("SPEC-DRIFT (VERIF_STRICT=1): %s" % drift[0])
    rc = V.finish()
    if mach and rc == 0:
        for m in mach[:5]:
            log("MACHINERY: " + m)
        raise vlib.MachineryError("%d behaviour(s) could not be decided: the code does not follow the model without doing anything the property forbids; first: %s" % (len(mach), mach[0]))
    sample = next((c for c in cases if len(c["steps"]) >= 12), cases[0])
    vlib.write_evidence(PID, tier, "model_checking", {
        "states": design["states"], "transitions": design["transitions"],
        "traces_validated_against_impl": counts["ok"] + tstat["accepted"],
        "samples": [{"direction": "A", "history": history(sample)}],
        "design_level": design, "direction_A": dict(gstat, results=counts, actions_exercised=acts),
        "frames": fstat, "negative_controls_rejected": 2 + tstat.get("negative_controls_refused", 0), "direction_B_stress": sstat, "direction_B_hook_traces": tstat, "spec_drift_behaviours": len(drift),
        "evaluations": len(cases) + len(frames) + sstat["runs"],
        "distinct_nontrivial": len({json.dumps(history(c)) for c in cases if len(c["init"][1]) + len(c["init"][2]) > 0}),
        "rule": "maximal behaviours of SubscriptionImpl (Forceable) over 9 client scripts x 10 upstream scripts x {start succeeds, upstream handshake fails}; "
                "non-trivial = the client or the upstream does something; distinct by full action history",
        "exhaustive": False, "edge_cover_complete": gstat["edge_cover_complete"],
        "known_findings_hit": sorted(V.hit_known), "notes": V.notes, "repo_head": vlib.repo_head(),
    }, time.time() - t0, violations=len(V.violations), assumptions=[
        "one subscription per connection in the forced behaviours; several connections and subscriptions in the free-running stress (seeded delays at the hook points, nothing forced)",
        "the client's abrupt disconnect is a TCP reset: the gateway's reads and writes fail from then on",
        "the select between a ready upstream event and a closed closeCh cannot be forced; the model shows the states reached are the same",
        "a goroutine counts as left behind if it still runs repository code 400 ms after every gate was opened",
    ])
    return rc
