"""Direction A for the merge properties: TLC enumerates every set of service schemas over the
grammar of spec/MergeGen.tla (and checks that Merge.tla's contract is order free on each);
the Go driver runs the real merger on each set in every order."""
import json
import os

import vlib

CFG = """INIT Init
NEXT Next
CONSTANTS NSvc = %d Rich = %s
INVARIANT OrderFree
CHECK_DEADLOCK FALSE
"""


def enumerate_and_run(sc, binary, thorough):
    stats = []
    runs = []
    from checks import mergecheck
    def one(arg):
        nsvc, rich = arg
        res = vlib.run_tlc(sc, "MergeGen", "gen%d.cfg" % nsvc, workers=1, serial=True, heap="6g", cfg_text=CFG % (nsvc, rich),
                           name="mergegen%d" % nsvc, timeout=1800)
        cases = res.printed
        if not cases:
            raise vlib.MachineryError("MergeGen printed no cases")
        # quick tier: a seeded slice of the enumeration; thorough: all of it
        if not thorough and len(cases) > 1500:
            import random
            rng = random.Random(vlib.seed())
            cases = rng.sample(cases, 1500)
        cf = sc.path("mergegen%d.cases" % nsvc)
        with open(cf, "w") as f:
            for k, c in enumerate(cases):
                svcs = []
                for s in c["svcs"]:
                    # ToJson renders an empty function as [] : restore the objects
                    d = lambda x: x if isinstance(x, dict) else {}
                    s["types"] = d(s["types"])
                    s["directives"] = d(s["directives"])
                    s["roots"] = {r: d(s["roots"].get(r, {})) for r in ("Query", "Mutation", "Subscription")}
                    for t in s["types"].values():
                        t["fields"] = d(t["fields"])
                        for key in ("values", "members", "impl"):
                            t[key] = list(t[key]) if isinstance(t[key], list) else []
                        for fd in t["fields"].values():
                            fd["args"] = d(fd["args"])
                    for r in s["roots"].values():
                        for fd in r.values():
                            fd["args"] = d(fd["args"])
                    svcs.append(s)
                f.write(json.dumps({"id": 900000 + nsvc * 100000 + k, "svcs": svcs, "tags": ["tlc-enumerated"]}) + "\n")
        out = sc.path("mergegen%d.trace" % nsvc)
        r = vlib.run([binary, "run", "-in", cf, "-out", out], timeout=1800)
        if r.returncode != 0:
            raise vlib.MachineryError("merge run on TLC-enumerated sets failed: %s" % r.stderr[-2000:])
        rs = mergecheck.load(out)
        return rs, (dict(services=nsvc, rich=rich, enumerated=len(res.printed), run=len(cases), tlc_states=res.distinct, exhaustive=len(cases) == len(res.printed)))
    # the two enumerations are single-threaded TLC runs: side by side
    from concurrent.futures import ThreadPoolExecutor
    with ThreadPoolExecutor(max_workers=2) as ex:
        for rs, st in ex.map(one, [(2, "TRUE"), (3, "FALSE")]):
            runs += rs
            stats.append(st)
    return stats, runs
