"""C02 - every sub-request is valid for, and owned by, the service it is sent to.

Spec: FederationAbs!PlanOK (per translation, data independent: every plan step's text parses and
validates against the RECEIVING service's own schema - established by that service's gqlparser -,
declares the variables it uses, root steps keep the operation kind and name, child steps are node
queries; the steps together cover every client-selected field at a service that declares it; what
is added is only id/__typename, registered for removal; nothing the client asked for is registered
for removal) and FederationAbs!ReqOK (every request actually received is an instance of a plan
step, valid for its service, and carries the client's value or declared default of every variable
it uses).  Checked by TLC on traces of the real planner/executor (FederationTrace, Enforce={C02}).
"""
from checks import fedcheck

PID = "C02"


def _drop_step(runs):
    for r in runs:
        for e in r["events"]:
            real = [i for i, st in enumerate(e["steps"])] if e["ev"] == "Plan" else []
            real = [i for i in real if not e["steps"][i]["internal"]]
            if len(real) >= 3:
                # the last step that goes to a service (steps the gateway answers itself are not judged by PlanOK)
                del e["steps"][real[-1]]
                return True
    return False


def _wrong_service(runs):
    for r in runs:
        urls = [s["url"] for s in r["reset"]["services"]]
        for e in r["events"]:
            if e["ev"] == "Plan" and len([x for x in e["steps"] if not x["internal"]]) >= 2 and len(urls) > 1:
                st = [x for x in e["steps"] if not x["internal"]][-1]
                st["url"] = [u for u in urls if u != st["url"]][0]
                return True
    return False


def _no_scrub(runs):
    for r in runs:
        for e in r["events"]:
            if e["ev"] == "Plan" and e["scrub"]:
                e["scrub"] = {}
                return True
    return False


def _wrong_var(runs):
    for r in runs:
        for e in r["events"]:
            if e["ev"] == "Call":
                for q in e["reqs"]:
                    for k in q["passed"]:
                        if k != "id":
                            q["passed"][k] = "changed-by-negative-control"
                            return True
    return False


def _invalid(runs):
    for r in runs:
        for e in r["events"]:
            if e["ev"] == "Call" and e["reqs"]:
                e["reqs"][0]["validates"] = False
                return True
    return False


def run(sc, tier, replay):
    return fedcheck.run_fed_check(
        sc, tier, PID, ["C02"], "translation_validation",
        {"quick": (420, 12), "thorough": (6000, 25)},
        [("step-dropped", _drop_step), ("step-at-wrong-service", _wrong_service), ("helper-unregistered", _no_scrub),
         ("variable-value-changed", _wrong_var), ("invalid-sub-request", _invalid)],
        ["\"is valid GraphQL for schema X\" is decided by gqlparser's parser and validator on the receiving service's own SDL (trusted base)",
         "ownership, coverage, helper and variable accounting are decided by the specification on the abstract projection of plans and requests (harness: fakesvc.AbsSel / Facts)",
         "argument values are scalars; input objects and list-valued variables are not generated yet"])
