"""C17 - subscription events are delivered once, in order, fully stitched.

Specs: spec/SubscriptionAbs.tla (the delivery contract per (connection, id): frame k = Stitch(world,
subscription, k-th emitted event), errors forwarded, nothing under another id, everything delivered
when quiet), spec/SubscriptionAbsMC.tla (the contract model-checked on an abstract payload domain
against a FIFO-forwarder design and a faulty one), spec/SubscriptionTrace.tla (Stitch = GQL!Ref on the
world whose Subscription root field carries the event's value; R7 cross-check of the harness's own
evaluator on every event).

Direction B: generated worlds with a Subscription root (schemas split over up to 3 services), real
gateway behind a real HTTP server, real websocket clients (1-2 connections, 1-4 subscriptions, the
same operation subscribed several times, the same id on two connections), fake upstreams over real
TCP emitting seeded event histories (data, data-with-errors, error messages) interleaved at random;
every Emit and every frame read is recorded and validated by TLC.
"""
import json
import os
import random
import time
from concurrent.futures import ThreadPoolExecutor

import vlib
from vlib import log

PID = "C17"
CORE = "nodirid,nofragdirs"
CFGS = "default,cached,sanitize,idhint"


def untag(v):
    t = v.get("t")
    if t == "m":
        return {k: untag(x) for k, x in v["v"].items()}
    if t == "l":
        return [untag(x) for x in v["v"]]
    if t == "z":
        return None
    return v.get("v")


def load(path):
    """-> (runs, other) ; one run per World line"""
    runs, cur, other = [], None, []
    cfg = run = None
    for line in open(path):
        try:
            e = json.loads(line)
        except ValueError:
            continue          # line cut by a crash
        k = e["ev"]
        if k == "World":
            cur = {"id": "w%s" % e["id"], "reset": e, "events": [], "cfg": None, "run": None}
            runs.append(cur)
        elif k == "Run":
            cur["cfg"], cur["run"] = e["cfg"], e["run"]
        elif k in ("Start", "Emit", "Frame", "End"):
            if k == "Start":
                e["field"] = e["op"]["sel"][0]["name"]
            cur["events"].append(e)
        else:
            other.append((cur, e))
    return runs, other


def touches_abstract(types, op):
    """does the operation select through an interface / union typed field or fragment?"""
    def walk(sels, pt):
        for x in sels:
            if x["k"] == "F":
                fd = (types.get(pt) or {}).get("fields", {}).get(x["name"])
                ft = fd["type"]["ty"] if fd else ""
                if (types.get(ft) or {}).get("kind") in ("INTERFACE", "UNION"):
                    return True
                if x["sub"] and walk(x["sub"], ft):
                    return True
            else:
                on = x["on"] or pt
                if (types.get(on) or {}).get("kind") in ("INTERFACE", "UNION"):
                    return True
                if walk(x["sub"], on):
                    return True
        return False
    return walk(op["sel"], "Subscription")


def classify(r, idx, ev, payload):
    sig, what = classify0(r, idx, ev, payload)
    key = ev.get("key")
    mine = next((e for e in r["events"] if e["ev"] == "Start" and e["key"] == key), None)
    stratum = "abstract" if mine is not None and touches_abstract(r["reset"]["types"], mine["op"]) else "core"
    return stratum + "/" + sig, what


def classify0(r, idx, ev, payload):
    evs = r["events"]
    cfg = r["cfg"]
    if ev["ev"] == "End":
        return "event-not-delivered/%s" % cfg, "events of %s were not (all) forwarded to the client" % payload
    key = ev["key"]
    starts = [e for e in evs if e["ev"] == "Start"]
    mine = next((e for e in starts if e["key"] == key), None)
    if mine is None:
        return "frame-under-unknown-id/%s" % cfg, "a client read a frame under id %s that it never subscribed with" % ev["sid"]
    nth = len([e for e in evs[:idx + 1] if e["ev"] == "Frame" and e["key"] == key])
    emits = [e for e in evs if e["ev"] == "Emit" and e["key"] == key]
    twice = len([e for e in starts if e["text"] == mine["text"]]) > 1
    tag = "%s%s" % (cfg, "+same-operation-subscribed-twice" if twice else "")
    if nth > len(emits):
        return "more-frames-than-events/%s" % tag, "frame %d under %s but only %d events were emitted" % (nth, key, len(emits))
    em = emits[nth - 1]
    if ev.get("bad") or ev["type"] != "data":
        return "not-a-data-message/%s" % tag, "frame %s %s" % (ev["type"], ev.get("bad"))
    if em["kind"] != "data":
        return "upstream-error-not-forwarded/%s" % tag, "upstream sent %s %s, the client got errors %s" % (em["kind"], em["errs"], ev["errors"])
    if ev["errors"]:
        return "errors-for-a-good-event/%s" % tag, "event %d of %s: client got errors %s" % (nth, key, ev["errors"])
    got = untag(ev["data"])
    try:
        exp = untag(json.loads(payload))
    except Exception:
        exp = payload
    other = [e for e in emits if e is not em and untag(e["mono"]) == got]
    sym = "data-differs"
    if other:
        sym = "event-out-of-order-or-duplicated"
    elif got in ({}, None):
        sym = "data-empty"
    return "%s/%s" % (sym, tag), "event %d of %s (%s):\n   operation %s\n   expected %s\n   got      %s" % (
        nth, key, r["run"], mine["text"].replace("\n", " ")[:400], json.dumps(exp)[:600], json.dumps(got)[:600])


def run(sc, tier, replay):
    t0 = time.time()
    V = vlib.Verdicts(PID)
    thorough = tier == "thorough"
    binary = vlib.go_build(sc, "./cmd/sub", "sub")
    d1 = vlib.run_tlc(sc, "SubscriptionAbsMC", "SubscriptionAbsMC.cfg", workers=4, name="design", timeout=900)
    d2 = vlib.run_tlc(sc, "SubscriptionAbsMC", "SubscriptionAbsMC_faulty.cfg", workers=4, name="design-faulty", timeout=900, allow_violation=True)
    if d2.violated != "ContractHolds":
        raise vlib.MachineryError("the faulty forwarder satisfies the contract: the contract is vacuous")
    design = dict(states=d1.distinct, transitions=d1.generated, faulty_forwarder_violates=d2.violated)

    if replay:
        o = json.load(open(replay))["case"]
        shards = [(o["seed"], o["runs"], o["features"])]
    else:
        nsh = 14
        runs_per = 4000 if thorough else 60
        shards = [(vlib.seed() * 1000 + k, runs_per, CORE + (",abstract" if (thorough and k % 7 == 6) else "") + (",oddids,richargs" if k % 2 else "")) for k in range(nsh)]
        # the pinned shard of the recorded finding C17-K1 (interface / union typed selections)
        shards.append((1006, 200, CORE + ",abstract"))

    def one(k):
        seed, n, feat = shards[k]
        out = sc.path("deliver%d.ndjson" % k)
        return vlib.run([binary, "deliver", "-seed", str(seed), "-runs", str(n), "-out", out, "-cfgs", CFGS, "-features", feat], timeout=3000)
    with ThreadPoolExecutor(max_workers=14) as ex:
        rs = list(ex.map(one, range(len(shards))))
    runs = []
    stats = {"runs": 0, "subscriptions": 0, "events": 0, "frames": 0, "same_op_twice": 0, "error_events": 0, "with_followup": 0}
    for k, r in enumerate(rs):
        seed, n, feat = shards[k]
        if r.timed_out:
            raise vlib.MachineryError("deliver shard %d timed out" % k)
        rr, other = load(sc.path("deliver%d.ndjson" % k))
        for x in rr:
            x["shard"] = {"seed": seed, "runs": n, "features": feat}
        if r.returncode != 0:
            if vlib.panic_in_code_under_test(r.stderr):
                msg = [l for l in r.stderr.splitlines() if l.startswith("panic:") or l.startswith("fatal error:")]
                last = rr[-1] if rr else None
                V.violation("crash:" + (msg[0] if msg else "exit %d" % r.returncode)[:100],
                            "the gateway process died while forwarding subscription events (run %s)\n%s" % (last and last["run"], r.stderr[:1500]),
                            {"seed": seed, "runs": n, "features": feat, "stderr": r.stderr[:4000]})
                if rr:
                    rr.pop()      # the run in flight is incomplete
            else:
                raise vlib.MachineryError("deliver shard %d failed (exit %s): %s" % (k, r.returncode, r.stderr[-2000:]))
        for cur, e in other:
            if e["ev"] == "HarnessError":
                raise vlib.MachineryError("deliver: %s" % e["what"])
            if e["ev"] == "StartFailed":
                V.violation("gateway-does-not-start/%s" % e["cfg"], "the gateway did not start over a generated world: %s" % e["err"], {"seed": seed, "runs": n, "features": feat, "run": e["run"]})
            if e["ev"] == "NoUpstream":
                V.violation("subscription-not-started/%s" % (cur and cur["cfg"]), "a valid subscription (%s) was not forwarded to the owning service" % e["key"],
                            {"seed": seed, "runs": n, "features": feat, "run": cur and cur["run"]})
        runs += [x for x in rr if x["events"] and x["events"][-1]["ev"] == "End"]
    for x in runs:
        stats["runs"] += 1
        st = [e for e in x["events"] if e["ev"] == "Start"]
        stats["subscriptions"] += len(st)
        stats["same_op_twice"] += 1 if len({e["text"] for e in st}) < len(st) else 0
        for e in x["events"]:
            if e["ev"] == "Emit":
                stats["events"] += 1
                if e["kind"] != "data":
                    stats["error_events"] += 1
                elif untag(e["sent"]) != untag(e["mono"]):
                    stats["with_followup"] += 1     # what the owning service sent is not yet what the client must see
            elif e["ev"] == "Frame":
                stats["frames"] += 1
    log("direction B: %s" % stats)
    rej, mono, tstats = vlib.validate_lenient(sc, "SubscriptionTrace", "SubscriptionTrace.cfg", runs, "deliver", chunk_events=6000, parallel=8)
    if mono:
        r, idx = mono[0]
        raise vlib.MachineryError("R7: the harness's evaluator and GQL!Ref disagree on %s event %s" % (r["run"], json.dumps(r["events"][idx])[:600]))
    for r, idx, ev, payload in rej:
        sig, what = classify(r, idx, ev, payload)
        V.violation(sig, what, dict(r["shard"], run=r["run"], event=ev))
    log("refused lines: %d" % len(rej))

    # negative controls: a tampered frame, two frames swapped, a frame under another id
    # (a run of plain data events only: the data of a frame that answers an event with errors is not judged)
    base = next((x for x in runs if len([e for e in x["events"] if e["ev"] == "Frame" and e["hasData"]]) >= 2
                 and all(e["kind"] == "data" for e in x["events"] if e["ev"] == "Emit")), None)
    if base is None:
        raise vlib.MachineryError("no run usable as negative control")
    nctrl = 0
    fi = [i for i, e in enumerate(base["events"]) if e["ev"] == "Frame" and e["hasData"]]
    c1 = json.loads(json.dumps(base))
    c1["events"][fi[0]]["data"] = {"t": "m", "v": {"tampered": {"t": "s", "v": 1}}}
    c2 = json.loads(json.dumps(base))
    c2["events"][fi[0]]["key"] = "c9/nobody"
    c3 = json.loads(json.dumps(base))
    del c3["events"][fi[0]]
    for name, c in (("tampered", c1), ("unknown-id", c2), ("dropped-frame", c3)):
        rj, _, _ = vlib.validate_lenient(sc, "SubscriptionTrace", "SubscriptionTrace.cfg", [c], "ctrl-" + name)
        if not rj:
            raise vlib.MachineryError("negative control %s accepted" % name)
        nctrl += 1

    rc = V.finish()
    sample = runs[len(runs) // 2]
    vlib.write_evidence(PID, tier, "model_checking", {
        "states": design["states"] + tstats["states"], "transitions": design["transitions"],
        "traces_validated_against_impl": stats["runs"],
        "samples": [{"run": sample["run"], "cfg": sample["cfg"], "events": [{k: v for k, v in e.items() if k in ("ev", "key", "k", "kind", "text", "type", "errors")} for e in sample["events"][:12]]}],
        "design_level": design, "direction_B": dict(stats, tlc=tstats, shards=len(shards), refused=len(rej)),
        "negative_controls_rejected": nctrl,
        "evaluations": stats["frames"], "distinct_nontrivial": stats["with_followup"],
        "rule": "one evaluation = one frame read by a client and judged by TLC; non-trivial = events whose upstream payload differs from what the client must see (follow-up steps / helper removal needed)",
        "exhaustive": False, "known_findings_hit": sorted(V.hit_known), "notes": V.notes, "repo_head": vlib.repo_head(),
    }, time.time() - t0, violations=len(V.violations), assumptions=[
        "operations from the core stratum of the C01 generator (root __typename, duplicate response keys, directives on id / on object fragments are C01's recorded findings and switched off here)",
        "follow-up services answer honestly (failures of follow-up calls are C09/C10)",
        "the schedule is not forced: emission order across subscriptions and client/goroutine timing are whatever the seeded delays and the runtime produce",
    ])
    return rc
