"""C08 - batched requests are answered in order and independently.

Spec: spec/BatchFront.tla - the batch fan-out of gateway.go as an instance of MapReduceAbs:
Run(i) (operation i's goroutine finished executing), Place(i) (the reducer stored its result at
index i), Emit; TLC checks InOrder for every interleaving and its behaviours are the schedules
forced on the REAL handler through the hook gates of the batch-level AsyncMapReduce instance
(direction A, n <= 3 all behaviours / n = 4 sampled).  spec/BatchTrace.tla - the contract on what is
observed: status 200, an array of exactly N results, result i = the result the same operation gets
when sent alone to the same gateway (both sides observed on the real code).  Direction B: perturbed
free batches of 0..30 operations mixing queries, a mutation, introspection, invalid operations, an
operation whose downstream fails and a slow one, on a plain and a caching gateway.
"""
import json
import random
import time
from concurrent.futures import ThreadPoolExecutor

import vlib
from vlib import log

PID = "C08"
CFG = "SPECIFICATION Spec\nCONSTANT N = %d\nINVARIANT InOrder\nPROPERTY Done\nCHECK_DEADLOCK FALSE\n"


def run(sc, tier, replay):
    t0 = time.time()
    rng = random.Random(vlib.seed())
    V = vlib.Verdicts(PID)
    thorough = tier == "thorough"
    binary = vlib.go_build(sc, "./cmd/batch", "batch")
    paths = []
    design = []
    for n in ([1, 2, 3, 4] if thorough else [1, 2, 3]):
        dot = sc.path("b%d.dot" % n)
        r = vlib.run_tlc(sc, "BatchFront", "b%d.cfg" % n, workers=2, cfg_text=CFG % n, extra=["-dump", "dot", dot], name="bf%d" % n)
        g = vlib.Graph(dot, keep=("act",))
        total = g.total_paths()
        if total <= 400:
            ps = list(g.all_paths())
            ex = True
        else:
            ps = g.edge_cover_paths(rng) + [g.nth_path(rng.randrange(total)) for _ in range(300)]
            ex = False
        for p in ps:
            paths.append({"n": n, "steps": g.acts(p)})
        design.append(dict(n=n, states=r.distinct, transitions=r.generated, behaviours=total, forced=len(ps), exhaustive=ex))
    log("BatchFront: %s" % design)
    nsh = 12
    for k in range(nsh):
        with open(sc.path("paths%d.ndjson" % k), "w") as f:
            for p in paths[k::nsh]:
                f.write(json.dumps(p) + "\n")

    def one(k):
        return vlib.run([binary, "-in", sc.path("paths%d.ndjson" % k), "-out", sc.path("batch%d.trace" % k), "-seed", str(vlib.seed() * 100 + k),
                         "-worlds", "3" if thorough else "1", "-free", "400" if thorough else "60"], timeout=3000)
    with ThreadPoolExecutor(max_workers=nsh) as ex:
        rs = list(ex.map(one, range(nsh)))
    # one more shard under the Go race detector: operations of one batch are answered by concurrent goroutines,
    # and state they share by accident is an access the detector sees even when the outcome happens to be right
    race_binary = vlib.go_build(sc, "./cmd/batch", "batch-race", race=True)
    rr = vlib.run([race_binary, "-out", sc.path("batch-race.trace"), "-seed", str(vlib.seed() * 100 + 99), "-worlds", "2" if thorough else "1",
                   "-free", "200" if thorough else "30"], timeout=3000, env={"GORACE": "halt_on_error=1 exitcode=66"})
    if rr.returncode == 66:
        if not vlib.race_in_code_under_test(rr.stderr):
            raise vlib.MachineryError("data race inside the harness itself:\n" + rr.stderr[:3000])
        where = ""
        for line in rr.stderr.splitlines():
            line = line.strip()
            if line.startswith("github.com/buildbuildio/pebbles"):
                where = line[:-2].replace("github.com/buildbuildio/pebbles", "") if line.endswith("()") else line.replace("github.com/buildbuildio/pebbles", "")
                break
        V.violation("data-race:%s" % where, "the operations of one batch share state: the Go race detector reports unsynchronised accesses from the goroutines "
                    "answering different operations\n%s" % rr.stderr[:2500], {"mode": "race", "stderr": rr.stderr[:6000]})
    elif rr.returncode != 0 or rr.timed_out:
        if rr.returncode != 0 and vlib.panic_in_code_under_test(rr.stderr):
            V.violation("process-dies:race-build", "the gateway died under the race-detector build", {"stderr": rr.stderr[:4000]})
        else:
            raise vlib.MachineryError("race-detector shard failed (exit %s): %s" % (rr.returncode, rr.stderr[-2000:]))
    runs = []
    counts = {"forced": 0, "perturbed": 0, "burst": 0, "drift": 0}
    classes = {}
    for k, r in enumerate(rs):
        evs = []
        for line in open(sc.path("batch%d.trace" % k)):
            try:
                evs.append(json.loads(line))
            except ValueError:
                pass
        if r.returncode == 4:
            raise vlib.MachineryError("batch driver: %s" % r.stderr[-1000:])
        if r.returncode != 0:
            if not vlib.panic_in_code_under_test(r.stderr):
                raise vlib.MachineryError("the batch driver itself failed:\n" + r.stderr[-3000:])
            msg = [l for l in r.stderr.splitlines() if l.startswith("panic:") or l.startswith("fatal error:")]
            last = next((e for e in reversed(evs) if e["ev"] == "Begin"), None)
            V.violation("process-dies:" + (msg[0] if msg else "exit %d" % r.returncode)[:90], "the gateway process died while serving a batch", {"begin": last, "stderr": r.stderr[-4000:]})
        for e in evs:
            if e["ev"] == "Batch":
                counts[e["mode"]] += 1
                if e["drift"]:
                    counts["drift"] += 1
                    if "HANG" in e["drift"]:
                        V.violation("hang:" + e["mode"], "the batch was not answered within 30 s", e)
                for c in e["classes"]:
                    classes[c] = classes.get(c, 0) + 1
        runs.append({"id": "shard%d" % k, "reset": {"ev": "Reset"}, "events": [e for e in evs if not (e["ev"] == "Batch" and e["status"] == -1)]})
    rej, _, st = vlib.validate_lenient(sc, "BatchTrace", "BatchTrace.cfg", runs, "batch")
    for r, idx, ev, why in rej:
        bad = [i for i, (a, b) in enumerate(zip(ev["results"], ev["singles"])) if a != b]
        cls = ev["classes"][bad[0]] if bad and bad[0] < len(ev["classes"]) else "?"
        sig = "%s[%s]:%s" % (why, ev["mode"], cls)
        V.violation(sig, "batch of %d %s on the %s gateway, schedule %s\nfirst differing result #%s\n  in batch: %s\n  alone:    %s" % (
            ev["n"], ev["classes"], ev["cfg"], ev["order"] or ev["mode"], bad[:1], (ev["results"][bad[0]] if bad and bad[0] < len(ev["results"]) else "")[:400],
            (ev["singles"][bad[0]] if bad else "")[:400]), ev)
    if counts["drift"]:
        V.note("SPEC-DRIFT: %d forced batch(es) did not follow BatchFront's schedule and were completed free" % counts["drift"])
    log("batches: %s, refused %d" % (counts, len(rej)))
    # negative control: swapped results must be refused
    import copy
    ctrl = None
    for r in runs:
        for e in r["events"]:
            if e["ev"] == "Batch" and e["n"] >= 2 and len(set(e["results"])) >= 2:
                c = copy.deepcopy(e)
                c["results"] = list(reversed(c["results"]))
                ctrl = [{"id": "ctrl", "reset": {"ev": "Reset"}, "events": [c]}]
                break
        if ctrl:
            break
    if not ctrl:
        raise vlib.MachineryError("no batch usable as negative control")
    rj, _, _ = vlib.validate_lenient(sc, "BatchTrace", "BatchTrace.cfg", ctrl, "ctrl")
    if not rj:
        raise vlib.MachineryError("negative control accepted")
    rc = V.finish()
    sample = next(e for r in runs for e in r["events"] if e["ev"] == "Batch" and e["n"] >= 2)
    nb = counts["forced"] + counts["perturbed"] + counts["burst"]
    vlib.write_evidence(PID, tier, "model_checking", {
        "states": sum(d["states"] for d in design), "transitions": sum(d["transitions"] for d in design),
        "traces_validated_against_impl": nb,
        "samples": [{"n": sample["n"], "classes": sample["classes"], "mode": sample["mode"], "order": sample["order"], "result0": sample["results"][0][:200]}],
        "design_level": design, "batches": counts, "operation_classes": classes,
        "evaluations": nb, "distinct_nontrivial": sum(1 for r in runs for e in r["events"] if e["ev"] == "Batch" and e["n"] >= 2),
        "rule": "a case = one batch (operations drawn from a per-world pool) under one schedule; non-trivial = batches of >= 2 operations",
        "known_findings_hit": sorted(V.hit_known), "notes": V.notes, "repo_head": vlib.repo_head(),
    }, time.time() - t0, violations=len(V.violations), assumptions=[
        "\"what operation i would have received alone\" is observed by sending it alone to the same gateway right after the batch; fake services are deterministic, a failing / slow downstream is selected by operation name",
        "only the batch-level AsyncMapReduce instance is gated; nested fan-outs run free",
    ])
    return rc
