"""C10 - invalid operations never reach a service; service errors reach the client intact.

Spec: FederationAbs (Enforce={C10}): (a) for an operation marked invalid no Call / QCall action is
enabled and the response must carry errors and data:null; invalid operations are derived from
valid generated ones by ONE mutation (unknown field / argument / type, undeclared variable, wrong
variable type, selection on a leaf, object without selection, fragment cycle, two operations
without operationName, unknown operationName, syntax error) and their invalidity is confirmed by
gqlparser against the merged schema; (b) every GraphQL error a service answers with (Fault kind
`errors`, 1-3 errors with/without extensions, path, locations) must appear in the client's errors
with the same message, extensions and path.
"""
from checks import fedcheck

PID = "C10"


def _leak_call(runs):
    for r in runs:
        evs = r["events"]
        for i, e in enumerate(evs):
            if e["ev"] == "Req" and e.get("invalid"):
                evs.insert(i + 1, {"ev": "QCall", "svc": r["reset"]["services"][0]["url"], "n": 1, "dup": False})
                return True
    return False


def _drop_ext(runs):
    for r in runs:
        evs = r["events"]
        for i, e in enumerate(evs):
            if e["ev"] == "Fault" and e["payload"]:
                for f in evs[i:]:
                    if f["ev"] == "Resp" and f["errorsFull"]:
                        for x in f["errorsFull"]:
                            x["message"] = "rewritten"
                        return True
    return False


def run(sc, tier, replay):
    off = ["nodirid", "nofragdirs"]
    strata = {"core-invalid": (off + ["oddids", "richargs"], 0.5, "invalid"),
              "core-faults": (off, 0.5, "faults")}
    return fedcheck.run_fed_check(
        sc, tier, PID, ["C10"], "model_checking",
        {"quick": (160, 10), "thorough": (2400, 20)},
        [("invalid-operation-reaches-a-service", _leak_call), ("service-error-rewritten", _drop_ext)],
        ["whether a mutated operation is invalid is decided by gqlparser's validator on the merged schema (trusted base); the two operation-name mutations are invalid by construction",
         "error payloads: message, extensions (nested object), path, locations over small alphabets"],
        strata=strata)
