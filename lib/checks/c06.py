"""C06 - each mutation root field reaches its owning service exactly once.

Spec: FederationAbs!ReqOK/RespOK with Enforce={C06}: a request with the `mutation` keyword is only
sent for a mutation operation, to a service that declares every root field it carries; every other
request of a mutation operation is a `query` whose root field is `node`; when the operation is
answered every root field the client selected (after @skip/@include) was carried by exactly one
request, and never by more than one - under batch sizes 1, 2 and 3000, with the caching planner,
with the same mutation sent twice in a row.
"""
from checks import fedcheck

PID = "C06"


def _dup_mutation(runs):
    for r in runs:
        for i, e in enumerate(r["events"]):
            if e["ev"] == "Call" and any(q["kw"] == "mutation" for q in e["reqs"]):
                r["events"].insert(i, dict(e))
                return True
    return False


def _child_as_mutation(runs):
    for r in runs:
        for e in r["events"]:
            if e["ev"] == "Call":
                for q in e["reqs"]:
                    if q["kw"] == "query" and any(x["name"] == "node" for x in q["roots"]):
                        q["kw"] = "mutation"
                        return True
    return False


def _lost_mutation(runs):
    for r in runs:
        for i, e in enumerate(r["events"]):
            if e["ev"] == "Call" and any(q["kw"] == "mutation" for q in e["reqs"]):
                del r["events"][i]
                return True
    return False


def run(sc, tier, replay):
    off = ["nodirid", "nofragdirs"]
    strata = {"core": (off + ["noqueries", "oddids", "richargs"], 0.6),
              "core-faults": (off + ["noqueries"], 0.2, "faults"),
              "core-varid": (off + ["noqueries", "varid"], 0.1),
              "abstract": (off + ["noqueries", "abstract"], 0.2)}
    return fedcheck.run_fed_check(
        sc, tier, PID, ["C06"], "model_checking",
        {"quick": (420, 12), "thorough": (6000, 25)},
        [("mutation-sent-twice", _dup_mutation), ("child-step-as-mutation", _child_as_mutation), ("mutation-not-sent", _lost_mutation)],
        ["mutations are pure echoes in the fake services; what is counted is which requests carried which root field, as logged by the receiving service",
         "downstream failures in sibling and child steps are covered by the fault strata of C09"],
        strata=strata)
