"""C20 - the parallel map/reduce helper (common.AsyncMapReduce).

Spec: spec/MapReduceAbs.tla (contract), spec/MapReduceImpl.tla (the code's protocol; TLC checks
Impl => Abs, no crash, no leak, termination), spec/MapReduceTrace.tla (trace validation).
Direction A: every behaviour of MapReduceImpl for n <= 2 and (quick: edge cover + seeded sample /
thorough: all 93,072) for n = 3, sampled for n = 4, is forced on the real helper through the
`verif` hook gates; observable events are compared with the model's prediction after the run and
any deviating run is judged by TLC against MapReduceAbs.
Direction B: perturbed free runs (n <= 64) whose observable-event traces TLC validates against
MapReduceAbs; negative controls must be rejected.
"""
import json
import os
import random
import subprocess
import time
from concurrent.futures import ThreadPoolExecutor

import vlib
from vlib import log

PID = "C20"

GEN_CFG = """SPECIFICATION Spec
CONSTANT N = %d
INVARIANTS TypeOK NoCrash NoLeak
CHECK_DEADLOCK FALSE
"""
DESIGN_CFG = """SPECIFICATION FairSpec
CONSTANT N = %d
INVARIANTS TypeOK NoCrash NoLeak RetComplete WgInv
PROPERTIES Refines QuietAfter Termination
CHECK_DEADLOCK FALSE
"""


def gen_paths(sc, n, mode, rng, sample):
    """TLC enumerates MapReduceImpl for N = n; returns (graph stats, list of action sequences)."""
    dot = sc.path("g%d.dot" % n)
    res = vlib.run_tlc(sc, "MapReduceImpl", "gen%d.cfg" % n, workers=4, cfg_text=GEN_CFG % n,
                       extra=["-dump", "dot", dot], name="gen%d" % n, timeout=900)
    g = vlib.Graph(dot, keep=("act", "outcome"))
    total = g.total_paths()
    paths = []
    if mode == "all" or total <= sample:
        paths = list(g.all_paths())
        exhaustive = True
    else:
        exhaustive = False
        paths = g.edge_cover_paths(rng)
        for _ in range(sample):
            paths.append(g.nth_path(rng.randrange(total)))
    out = []
    for p in paths:
        oc = vlib.fn_to_list(g.state[p[0]]["outcome"]) if n > 0 else []
        out.append({"n": n, "outcome": oc, "steps": g.acts(p)})
    edges = sum(len(v) for v in g.succ.values())
    return dict(n=n, states=res.distinct, transitions=res.generated, graph_edges=edges, behaviours=total,
                replayed=len(out), exhaustive=exhaustive), out


def shard_run(binary, args_for, nshards, timeout):
    def one(k):
        return vlib.run([binary] + args_for(k), timeout=timeout)
    with ThreadPoolExecutor(max_workers=nshards) as ex:
        return list(ex.map(one, range(nshards)))


def to_tlc_events(trace):
    out = []
    for e in trace:
        ev = dict(e)
        if ev["ev"] == "Return":
            ev.setdefault("acc", [])
            ev.setdefault("errs", [])
            ev.setdefault("left", 0)
            ev.pop("i", None)
        out.append(ev)
    return out


def classify_reject(run, idx, ev):
    evs = run["events"]
    if idx < 0:
        return "abs-reject:Reset", "run could not be started"
    kind = ev["ev"]
    what = "event #%d %s is not allowed by MapReduceAbs after %s" % (idx, json.dumps(ev), json.dumps(evs[max(0, idx - 3):idx]))
    if kind == "Return":
        # why is Return refused? recompute the contract's view
        st = {}
        order = []
        for e in evs[:idx]:
            if e["ev"] == "MapStart":
                st[e["i"]] = "mapping"
            elif e["ev"] == "MapEnd":
                st[e["i"]] = e["o"]
            elif e["ev"] == "ReduceStart":
                st[e["i"]] = "reducing"
            elif e["ev"] == "ReduceEnd":
                st[e["i"]] = "reduced"
                order.append(e["i"])
        n = run["reset"]["n"]
        if any(st.get(i, "idle") not in ("reduced", "err") for i in range(n)):
            return "abs-reject:Return:before-all-mapped-and-reduced", what
        if ev.get("acc", []) != order:
            return "abs-reject:Return:acc-is-not-the-fold", what
        if sorted(ev.get("errs", [])) != sorted(i for i in range(n) if st.get(i) == "err"):
            return "abs-reject:Return:errors-not-all-returned", what
        if ev.get("left", 0) != 0:
            return "abs-reject:Return:goroutine-left", what
        return "abs-reject:Return:other", what
    return "abs-reject:" + kind, what


def run(sc, tier, replay):
    t0 = time.time()
    rng = random.Random(vlib.seed())
    V = vlib.Verdicts(PID)
    thorough = tier == "thorough"

    binary = vlib.go_build(sc, "./cmd/c20", "c20")
    race_binary = vlib.go_build(sc, "./cmd/c20", "c20race", race=True) if thorough else None

    # ---- design level: Impl => Abs, no crash, no leak, termination
    design = []
    for n in ([0, 1, 2, 3, 4] if thorough else [0, 1, 2, 3]):
        r = vlib.run_tlc(sc, "MapReduceImpl", "design%d.cfg" % n, workers=8, cfg_text=DESIGN_CFG % n,
                         name="design%d" % n, coverage=thorough and n == 3, timeout=1200)
        design.append(dict(n=n, states=r.distinct, transitions=r.generated, depth=r.depth))
        if thorough and n == 3:
            never = [a for a, c in r.coverage.items() if c == 0 and a.startswith("MapReduceImpl.") and
                     a.split(".")[1] not in ("WSendOnClosed", "RExitOnClosed")]
            if never:
                raise vlib.MachineryError("actions never taken in MapReduceImpl: %s" % never)
    log("design-level TLC: %s" % design)

    # ---- direction A
    plans = [(0, "all", 0), (1, "all", 0), (2, "all", 0)]
    if thorough:
        plans += [(3, "all", 0), (4, "sample", 40000)]
    else:
        plans += [(3, "sample", 6000)]
    gstats = []
    paths = []
    for n, mode, sample in plans:
        st, ps = gen_paths(sc, n, mode, rng, sample)
        gstats.append(st)
        paths += ps
    # variation: the same behaviours with the caller's gates opened at a random step
    extra = []
    for p in paths:
        if p["n"] >= 1 and (len(paths) < 1000 or rng.random() < 0.3):
            q = dict(p)
            q["free_main_at"] = rng.randrange(1, len(p["steps"]))
            extra.append(q)
    paths += extra
    for k, p in enumerate(paths):
        p["id"] = k
    log("direction A: %d behaviours to replay: %s" % (len(paths), gstats))
    nsh = 14
    for k in range(nsh):
        with open(sc.path("paths%d.ndjson" % k), "w") as f:
            for p in paths[k::nsh]:
                f.write(json.dumps(p) + "\n")
    rs = shard_run(binary, lambda k: ["replay", "-in", sc.path("paths%d.ndjson" % k), "-out", sc.path("res%d.ndjson" % k),
                                      "-keep", "25"], nsh, timeout=3000 if thorough else 600)
    counts = {"ok": 0, "mismatch": 0, "drift": 0, "hang": 0, "crash": 0}
    to_validate = []
    deviating = []
    done_ids = set()
    skipped = 0
    for k, r in enumerate(rs):
        begun = None
        for line in open(sc.path("res%d.ndjson" % k)):
            try:
                o = json.loads(line)
            except ValueError:
                continue
            if "begin" in o:
                begun = o["begin"]
                continue
            if "skipped_rest" in o:
                skipped += 1
                continue
            begun = None
            done_ids.add(o["id"])
            counts[o["status"]] += 1
            if o["status"] == "hang":
                V.violation("hang:replay", "the helper did not return with every gate open; goroutine dump in the replay file",
                            {"path": paths[o["id"]], "result": o})
            elif o["status"] in ("mismatch", "drift"):
                deviating.append(o)
            elif o.get("trace"):
                to_validate.append(o)
        if r.timed_out:
            raise vlib.MachineryError("replay shard %d timed out" % k)
        if r.returncode not in (0, 3):
            counts["crash"] += 1
            msg = [l for l in r.stderr.splitlines() if l.startswith("panic:") or l.startswith("fatal error:")]
            sig = "crash:" + (msg[0] if msg else "exit %d" % r.returncode)
            V.violation(sig, "the process died while replaying a model behaviour: %s" % (msg[:1] or r.stderr[-400:]),
                        {"path": paths[begun] if begun is not None else None, "stderr": r.stderr[-3000:]})
    if skipped:
        V.note("%d replay shard(s) stopped early after too many runs deviating from the model; %d of %d behaviours replayed"
               % (skipped, len(done_ids), len(paths)))
    if counts["crash"] == 0 and counts["hang"] == 0 and not skipped and len(done_ids) != len(paths):
        raise vlib.MachineryError("replay lost behaviours: %d of %d done" % (len(done_ids), len(paths)))
    log("direction A results: %s" % counts)

    # deviating runs are judged by the contract (TLC), not by the harness
    runs = [{"id": o["id"], "reset": {"ev": "Reset", "n": paths[o["id"]]["n"], "run": o["id"]},
             "events": to_tlc_events(o.get("trace") or []), "o": o} for o in deviating]
    if runs:
        acc, rej, _ = vlib.validate_runs(sc, "MapReduceTrace", "MapReduceTrace.cfg", runs, "deviating")
        for r, idx, ev in rej:
            sig, what = classify_reject(r, idx, ev)
            V.violation(sig, what, {"path": paths[r["id"]], "observed": r["events"], "detail": r["o"].get("detail")})
        if acc:
            V.note("SPEC-DRIFT: %d replayed behaviour(s) deviated from MapReduceImpl's schedule/prediction but satisfy "
                   "MapReduceAbs (first: %s)" % (acc, (deviating[0].get("detail") or "")[:200]))
    # binding sanity: sampled ok traces must be accepted, corrupted ones rejected
    okruns = [{"id": o["id"], "reset": {"ev": "Reset", "n": paths[o["id"]]["n"], "run": o["id"]},
               "events": to_tlc_events(o["trace"])} for o in to_validate]
    accA = 0
    tstatsA = {}
    if okruns:
        accA, rej, tstatsA = vlib.validate_runs(sc, "MapReduceTrace", "MapReduceTrace.cfg", okruns, "okA")
        for r, idx, ev in rej:
            sig, what = classify_reject(r, idx, ev)
            V.violation(sig, what, {"path": paths[r["id"]], "observed": r["events"]})

    # ---- direction B: perturbed stress, traces validated by TLC
    runs_per = (6000 if thorough else 300)
    maxn = 64 if thorough else 24
    bins = [race_binary if (thorough and k % 2 == 0) else binary for k in range(nsh)]

    def one(k):
        return vlib.run([bins[k], "stress", "-runs", str(runs_per), "-maxn", str(maxn), "-seed", str(vlib.seed() * 1000 + k),
                         "-out", sc.path("stress%d.ndjson" % k)], timeout=3000,
                        env={"GORACE": "halt_on_error=1 exitcode=66"})
    with ThreadPoolExecutor(max_workers=nsh) as ex:
        srs = list(ex.map(one, range(nsh)))
    bruns = []
    for k, r in enumerate(srs):
        begun = None
        for line in open(sc.path("stress%d.ndjson" % k)):
            try:
                o = json.loads(line)
            except ValueError:
                continue
            if "begin" in o:
                begun = o["begin"]
                continue
            begun = None
            rid = "s%d.%d" % (k, o["run"])
            if o.get("hang"):
                V.violation("hang:stress", "the helper did not return within 30 s in a free run (n=%d); goroutine dump in the replay file" % o["n"],
                            {"run": rid, "n": o["n"], "stacks": o["hang"], "events": o["trace"]})
                continue
            bruns.append({"id": rid, "reset": {"ev": "Reset", "n": o["n"], "run": rid}, "events": to_tlc_events(o["trace"] or [])})
        if r.timed_out:
            raise vlib.MachineryError("stress shard %d timed out" % k)
        if r.returncode == 66 and not vlib.race_in_code_under_test(r.stderr):
            raise vlib.MachineryError("data race inside the harness itself:\n" + r.stderr[:3000])
        if r.returncode == 66:
            V.violation("race:stress", "the Go race detector reported a data race inside the helper during a free run",
                        {"stderr": r.stderr[-4000:]})
        elif r.returncode not in (0, 3):
            msg = [l for l in r.stderr.splitlines() if l.startswith("panic:") or l.startswith("fatal error:")]
            V.violation("crash:" + (msg[0] if msg else "exit %d" % r.returncode), "the process died during a free run",
                        {"stderr": r.stderr[-3000:], "run": begun})
    accB, rej, tstatsB = vlib.validate_runs(sc, "MapReduceTrace", "MapReduceTrace.cfg", bruns, "stress")
    for r, idx, ev in rej:
        sig, what = classify_reject(r, idx, ev)
        V.violation(sig, what, {"run": r["id"], "n": r["reset"]["n"], "observed": r["events"]})
    log("direction B: %d free runs, %d accepted by MapReduceAbs" % (len(bruns), accB))

    # ---- negative controls (R7): a corrupted trace must be rejected
    ctrl_ok = 0
    base = next((r for r in bruns if r["reset"]["n"] >= 2 and any(e["ev"] == "ReduceEnd" for e in r["events"])), None)
    if base is None:
        raise vlib.MachineryError("no stress run usable as negative control")
    controls = []
    ev = [dict(e) for e in base["events"]]
    i = next(k for k, e in enumerate(ev) if e["ev"] == "ReduceEnd")
    controls.append(("drop-ReduceEnd", ev[:i] + ev[i + 1:]))
    ev2 = [dict(e) for e in base["events"]]
    ev2[-1] = dict(ev2[-1], left=1)
    controls.append(("goroutine-left", ev2))
    ev3 = [dict(e) for e in base["events"]]
    j = next(k for k, e in enumerate(ev3) if e["ev"] == "MapStart")
    controls.append(("double-map", ev3[:j + 1] + [ev3[j]] + ev3[j + 1:]))
    ev4 = [dict(e) for e in base["events"]]
    controls.append(("return-early", [ev4[-1]] + ev4[:-1]))
    for cname, evs in controls:
        a, rj, _ = vlib.validate_runs(sc, "MapReduceTrace", "MapReduceTrace.cfg",
                                      [{"id": cname, "reset": base["reset"], "events": evs}], "ctrl-" + cname)
        if not rj:
            raise vlib.MachineryError("negative control %s was accepted by the trace spec" % cname)
        ctrl_ok += 1

    rc = V.finish()
    nontrivial = sum(1 for p in paths if p["n"] >= 2) + sum(1 for r in bruns if r["reset"]["n"] >= 2)
    sample = [{"direction": "A", "n": paths[-1]["n"], "outcome": paths[-1]["outcome"], "steps": paths[-1]["steps"]},
              {"direction": "B", "n": base["reset"]["n"], "events": base["events"][:40]}]
    vlib.write_evidence(PID, tier, "model_checking", {
        "states": sum(d["states"] for d in design),
        "transitions": sum(d["transitions"] for d in design),
        "traces_validated_against_impl": len(paths) + accB,
        "samples": sample,
        "design_level": design,
        "direction_A": {"graphs": gstats, "results": counts, "ok_traces_revalidated_by_tlc": accA},
        "direction_B": {"free_runs": len(bruns), "accepted": accB, "max_n": maxn, "race_detector_shards": sum(1 for b in bins if b == race_binary) if thorough else 0,
                        "tlc": tstatsB},
        "negative_controls_rejected": ctrl_ok,
        "evaluations": len(paths) + len(bruns),
        "distinct_nontrivial": nontrivial,
        "rule": "A: maximal behaviours of MapReduceImpl (distinct by construction), non-trivial = n >= 2 items; "
                "B: seeded perturbed free runs, non-trivial = n >= 2 (not de-duplicated: counted conservatively as runs with distinct seeds)",
        "exhaustive": all(g["exhaustive"] for g in gstats),
        "known_findings_hit": sorted(V.hit_known),
        "notes": V.notes,
        "repo_head": vlib.repo_head(),
    }, time.time() - t0, violations=len(V.violations), assumptions=[
        "the map and reduce functions are the harness's; they do not panic",
        "schedules below the hook points (inside the Go runtime) are not controlled",
        "goroutine accounting uses runtime.NumGoroutine with a 500 ms settle time",
    ])
    return rc
