"""C14 - the plan cache never changes an answer.

Spec: spec/PlanCache.tla (+ PlanCacheMC.tla) - the caching planner as the code is written: key =
KeyOf(operation) taken before planning, eviction of expired entries on every call, lookup, compute
+ in-place sanitisation + store, two requests in flight; an operation pool whose members differ
pairwise in exactly one component (selection, operation type, name, variable defaults, fragment
body, helper ids written out).  TLC checks that every request uses the plain planner's plan for
ITS operation (and, as a regression of finding C14-X1, that the key the code used to hash violates
it), and prints every complete history.  Direction A: every history x TTL in {0, short, long} is
replayed on a REAL caching gateway and in lockstep on a real plain gateway; spec/CacheTrace.tla
demands equal responses and equal per-service sub-request bags.  Direction B: long random histories
with 1-8 concurrent clients and varying variable values.
"""
import copy
import json
import random
import time
from concurrent.futures import ThreadPoolExecutor

import vlib
from vlib import log

PID = "C14"


def run(sc, tier, replay):
    t0 = time.time()
    rng = random.Random(vlib.seed())
    V = vlib.Verdicts(PID)
    thorough = tier == "thorough"
    binary = vlib.go_build(sc, "./cmd/cache", "cache")
    res = vlib.run_tlc(sc, "PlanCacheMC", "PlanCacheMC.cfg", workers=8, name="pc", timeout=1200)
    hists = []
    seen = set()
    for h in res.printed:
        k = json.dumps(h, sort_keys=True)
        if k not in seen:
            seen.add(k)
            hists.append(h)
    if len(hists) < 50:
        raise vlib.MachineryError("PlanCache printed only %d histories" % len(hists))
    # regression of the design-level finding: with the key the code used to hash the invariant fails
    old = vlib.run_tlc(sc, "PlanCacheMC", "PlanCacheMC_old.cfg", workers=4, name="pcold", timeout=600, allow_violation=True)
    if old.violated != "UsesRightPlan":
        raise vlib.MachineryError("PlanCache with the old key fields should violate UsesRightPlan (vacuity guard)")
    total = len(hists)
    if not thorough and total > 700:
        hists = rng.sample(hists, 700)
    nsh = 14
    for k in range(nsh):
        with open(sc.path("hist%d.ndjson" % k), "w") as f:
            for h in hists[k::nsh]:
                f.write(json.dumps(h) + "\n")

    def one(k):
        return vlib.run([binary, "-in", sc.path("hist%d.ndjson" % k), "-out", sc.path("cache%d.trace" % k), "-seed", str(vlib.seed() * 100 + k),
                         "-random", "60" if thorough else "6"], timeout=3000)
    with ThreadPoolExecutor(max_workers=nsh) as ex:
        rs = list(ex.map(one, range(nsh)))
    runs = []
    nsteps = {"history": 0, "concurrent": 0}
    for k, r in enumerate(rs):
        if r.returncode == 4:
            raise vlib.MachineryError("cache driver: %s" % r.stderr[-1000:])
        evs = []
        for line in open(sc.path("cache%d.trace" % k)):
            try:
                evs.append(json.loads(line))
            except ValueError:
                pass
        if r.returncode != 0:
            if not vlib.panic_in_code_under_test(r.stderr):
                raise vlib.MachineryError("the cache driver itself failed:\n" + r.stderr[-3000:])
            msg = [l for l in r.stderr.splitlines() if l.startswith("panic:") or l.startswith("fatal error:")]
            V.violation("process-dies:" + (msg[0] if msg else "exit %d" % r.returncode)[:90], "the gateway process died", {"stderr": r.stderr[-4000:]})
        for e in evs:
            nsteps["history" if e["mode"] == "history" else "concurrent"] += 1
        runs.append({"id": "shard%d" % k, "reset": {"ev": "Reset"}, "events": evs})
    rej, _, st = vlib.validate_lenient(sc, "CacheTrace", "CacheTrace.cfg", runs, "cache")
    for r, idx, ev, why in rej:
        mode = "history-ttl%s" % ev["ttl"] if ev["mode"] == "history" else "concurrent"
        sig = "%s-differs[%s]" % (why, mode)
        V.violation(sig, "request #%s of history %s (%s):\n%s variables %s\ncached gateway: %s\nplain gateway:  %s" % (
            ev["k"], ev["hist"], mode, ev["text"], ev["vars"], ev["cached"][:300], ev["plain"][:300]), ev)
    log("histories from TLC %d (replayed %d x 3 TTLs), steps %s, refused %d" % (total, len(hists), nsteps, len(rej)))
    ctrl = copy.deepcopy(runs[:1])
    ctrl[0]["events"] = ctrl[0]["events"][:5]
    ctrl[0]["events"][0]["cached"] += "x"
    rj, _, _ = vlib.validate_lenient(sc, "CacheTrace", "CacheTrace.cfg", ctrl, "ctrl")
    if not rj:
        raise vlib.MachineryError("negative control accepted")
    rc = V.finish()
    n = nsteps["history"] + nsteps["concurrent"]
    vlib.write_evidence(PID, tier, "model_checking", {
        "states": res.distinct, "transitions": res.generated, "traces_validated_against_impl": n,
        "samples": [{"history": hists[0]["hist"]}, {"step": {k: runs[0]["events"][0][k] for k in ("text", "cached", "plain")}}],
        "histories_enumerated_by_tlc": total, "histories_replayed": len(hists), "ttls": [0, "3 units (expires between two ticks)", "long"],
        "steps": nsteps, "old_key_violates_invariant": True,
        "evaluations": n, "distinct_nontrivial": len(hists) * 3,
        "rule": "a case = one history (<= 3 operations from a pool of 7 that differ pairwise in one component, clock ticks between them) x one TTL; all are non-trivial (each contains a cache lookup)",
        "known_findings_hit": sorted(V.hit_known), "notes": V.notes, "repo_head": vlib.repo_head(),
    }, time.time() - t0, violations=len(V.violations), assumptions=[
        "expiry is straddled with real TTLs of a few milliseconds and sleeps (no clock hook); a tick is 2 units of 15 ms, the short TTL 3 units",
        "in concurrent histories only responses are compared (the services' logs of concurrent requests interleave)",
        "subscriptions interleaved with queries are covered by C17/C18's drivers, which run on a caching gateway as well",
    ])
    return rc
