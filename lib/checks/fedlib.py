"""Shared parts of the federation checks (C01, C02, C06, C12, ...): running the fed driver,
grouping its trace into per-world runs, validating with FederationTrace, diffing."""
import json
import os
import re
from concurrent.futures import ThreadPoolExecutor

import vlib


def gen_traces(sc, binary, nshards, worlds, ops, features="", cfgs="default", seed_base=None, extra=None, timeout=1800):
    seed_base = vlib.seed() * 1000 if seed_base is None else seed_base

    def one(k):
        out = sc.path("fed%d.ndjson" % k)
        cmd = [binary, "gen", "-seed", str(seed_base + k), "-worlds", str(worlds), "-ops", str(ops), "-out", out,
               "-features", features, "-cfgs", cfgs] + list(extra or [])
        r = vlib.run(cmd, timeout=timeout)
        return out, r
    with ThreadPoolExecutor(max_workers=nshards) as ex:
        return list(ex.map(one, range(nshards)))


def trim_unfinished(run):
    evs = run["events"]
    k = len(evs)
    while k > 0 and evs[k - 1]["ev"] != "Resp":
        k -= 1
    run["events"] = evs[:k]


def load_runs(path):
    """-> (runs, other) ; a run = one world with all events up to the next World line"""
    runs, other = [], []
    cur = None
    for line in open(path):
        try:
            e = json.loads(line)
        except ValueError:
            continue
        k = e["ev"]
        if k == "World":
            cur = {"id": "w%s" % e["id"], "reset": e, "events": []}
            runs.append(cur)
        elif k in ("StartFailed", "HarnessError", "GenInvalid"):
            other.append(e)
        elif cur is not None:
            cur["events"].append(e)
    return runs, other


def op_bounds(run, idx):
    evs = run["events"]
    a = idx
    while a > 0 and evs[a]["ev"] != "Req":
        a -= 1
    b = idx
    while b < len(evs) - 1 and evs[b]["ev"] != "Resp":
        b += 1
    return a, b


def remainder(run, idx):
    a, b = op_bounds(run, idx)
    rest = run["events"][b + 1:]
    # skip to the next Req
    while rest and rest[0]["ev"] != "Req":
        rest = rest[1:]
    return {"id": run["id"], "reset": run["reset"], "events": rest}


def untag(v):
    t = v.get("t")
    if t == "m":
        if isinstance(v["v"], list):      # ToJson renders an empty function as []
            return {}
        return {k: untag(x) for k, x in v["v"].items()}
    if t == "l":
        return [untag(x) for x in v["v"]]
    if t == "z":
        return None
    if t == "s":
        return v["v"]
    return v


def norm(v):
    """Python twin of GQL!Norm, used only to DESCRIBE a mismatch (verdicts come from TLC)."""
    if isinstance(v, dict):
        out = {}
        for k, x in v.items():
            nx = norm(x)
            if nx == {}:
                continue
            if isinstance(nx, list) and nx and all(e == {} for e in nx):
                continue
            out[k] = nx
        return out
    if isinstance(v, list):
        return [norm(x) for x in v]
    return v


def first_diff(exp, obs, path=()):
    """-> (path, kind) of the first difference between expected and observed JSON values"""
    if type(exp) != type(obs) and not (isinstance(exp, (int, float)) and isinstance(obs, (int, float))):
        def kind(x):
            return "null" if x is None else "object" if isinstance(x, dict) else "list" if isinstance(x, list) else "scalar"
        return path, "%s-instead-of-%s" % (kind(obs), kind(exp))
    if isinstance(exp, dict):
        for k in sorted(exp):
            if k not in obs:
                return path + (k,), "missing-key"
        for k in sorted(obs):
            if k not in exp:
                return path + (k,), "extra-key"
        for k in sorted(exp):
            d = first_diff(exp[k], obs[k], path + (k,))
            if d:
                return d
        return None
    if isinstance(exp, list):
        if len(exp) != len(obs):
            return path, "list-length-%d-instead-of-%d" % (len(obs), len(exp))
        for i, (a, b) in enumerate(zip(exp, obs)):
            d = first_diff(a, b, path + (i,))
            if d:
                return d
        return None
    if exp != obs:
        return path, "wrong-value"
    return None


def expected_from_payload(payload):
    if not payload:
        return None
    try:
        return untag(json.loads(payload))
    except Exception:
        return None


ERR_CLASSES = [
    (r'Variable "\$\w+" is not defined', "variable-not-declared-in-sub-request"),
    (r'Variable "\$\w+" of type "[^"]+" used in position expecting type', "variable-declared-with-wrong-type"),
    (r"entry in result wasn't a map", "null-entry-in-list-aborts-stitching"),
    (r"item in root list isn't a map", "null-entry-in-list-aborts-stitching"),
    (r"could not find the id for elements in target list", "id-helper-missing-in-list"),
    (r"could not find id in path", "id-helper-missing"),
    (r'parse "%": invalid URL escape', "internal-service-url-queried"),
    (r"received null for required field", "null-for-required-field"),
    (r"Cannot query field", "field-unknown-to-the-service"),
    (r"fake service rejects the request", "sub-request-rejected-by-service"),
    (r"fake service: variables rejected", "sub-request-variables-rejected-by-service"),
    (r"root value of result chunk was not", "result-shape-confusion"),
    (r"did not encounter a (list|map) when expected", "result-shape-confusion"),
    (r"missing node key", "missing-node-key"),
]


def err_class(msg):
    for pat, name in ERR_CLASSES:
        if re.search(pat, msg):
            return name
    return "other:" + re.sub(r"\s+", " ", re.sub(r'"[^"]*"|\d+', "#", msg)).strip()[:60]


def symptom(ev, expected):
    """canonical description of HOW a response deviates (used in known-finding signatures)"""
    if not ev.get("wellformed", True):
        return "malformed-response"
    if ev.get("status") != 200:
        return "status-%s" % ev.get("status")
    if ev["errors"]:
        return "errors:" + "+".join(sorted({err_class(m) for m in ev["errors"]}))
    if expected is None:
        return "data-mismatch:unknown"
    obs = norm(untag(ev["data"]))
    d = first_diff(expected, obs)
    if d is None:
        return "data-mismatch:none?"
    path, kind = d
    leaf = path[-1] if path else ""
    lc = "id" if leaf == "id" else "__typename" if leaf == "__typename" else "field" if isinstance(leaf, str) else "entry"
    return "data-mismatch:%s:%s" % (kind, lc)


# ------------------------------------------------------------------------------------------------
# strata: the generator features with a known defect are switched off in the core stratum and
# switched on one at a time; a violation's signature is "<defective features of the case>/<symptom>"

CORE_OFF = ["nodirid", "nofragdirs"]
DEFECT_TAGS = {"dir-on-id": "dirid", "frag-dir": "fragdirs", "abstract": "abstract", "rootnode": "rootnode", "nested-list": "nestedlists", "var-named-id": "varid"}
STRATA = {
    # name: (features, share of the budget)
    "core": (CORE_OFF + ["oddids", "biglists", "richargs", "wide"], 0.5),
    "dirid": ([f for f in CORE_OFF if f != "nodirid"], 0.08),
    "fragdirs": ([f for f in CORE_OFF if f != "nofragdirs"], 0.08),
    "abstract": (CORE_OFF + ["abstract", "richargs", "wide"], 0.2),
    # queries through the Relay entry point node(id:) at the root
    "rootnode": (CORE_OFF + ["rootnode"], 0.1),
    # fields of type [[T]]
    "nestedlists": (CORE_OFF + ["nestedlists"], 0.06),
    # stitched lists nested two deep, every level owned by another service
    "chain": (["chain"], 0.03),
    # a client variable called id
    "varid": (CORE_OFF + ["varid"], 0.04),
}


def case_prefix(run, req):
    tags = set(req["op"].get("tags", []))
    feats = sorted(DEFECT_TAGS[t] for t in tags if t in DEFECT_TAGS)
    return "+".join(feats) if feats else "core"


def cfg_text(enforce):
    return 'SPECIFICATION TraceSpec\nCONSTANT Enforce = {%s}\nPOSTCONDITION TraceAccepted\nCHECK_DEADLOCK FALSE\n' % \
        ",".join('"%s"' % e for e in enforce)


def run_strata(sc, binary, enforce, total_worlds, ops, cfgs_core="default", nshards=14, strata=None, pinned_prefix=None):
    """Generates and validates every stratum.  Returns (stats, rejections, other, samples, sample runs)
    where a rejection is (stratum, run, idx, event, payload)."""
    cfgt = cfg_text(enforce)
    runs_sample = []
    crashes = []
    stats = {}
    rejections = []
    other_all = []
    samples = []
    only = os.environ.get("VERIF_STRATA")
    # the pinned inputs of the recorded findings (findings/<id>.json) are replayed on every run
    pinned = sorted(f for f in os.listdir(os.path.join(vlib.VERIF, "findings")) if f.startswith(pinned_prefix + "-K")) if pinned_prefix else []
    if pinned and not only:
        sub = vlib.Scratch("st-pinned")
        try:
            cases = sub.path("pinned.ndjson")
            with open(cases, "w") as f:
                for fn in pinned:
                    c = json.load(open(os.path.join(vlib.VERIF, "findings", fn)))
                    f.write(json.dumps({"world": c["world"], "ops": c["ops"], "cfgs": c.get("cfgs", ["default"])}) + "\n")
            out = sub.path("pinned.trace")
            r = vlib.run([binary, "run", "-in", cases, "-out", out], timeout=300)
            if r.returncode != 0:
                raise vlib.MachineryError("fed run on pinned findings failed: %s" % r.stderr[-2000:])
            runs, other = load_runs(out)
            rej, mono, st = vlib.validate_lenient(sub, "FederationTrace", "fed.cfg", runs, "pinned", cfg_text=cfgt)
            for r2, idx, ev, payload in rej:
                rejections.append(("pinned", r2, idx, ev, payload))
            stats["pinned"] = dict(worlds=len(runs), ops=len(pinned), rejected=len(rej), tlc=st, op_tags={}, nontrivial=0, start_failed=0, gen_invalid=0)
        finally:
            sub.cleanup()
    for name, spec in (strata or STRATA).items():
        feats, share = spec[0], spec[1]
        mode = spec[2] if len(spec) > 2 else "plain"
        if only and name not in only.split(","):
            continue
        worlds = max(1, int(total_worlds * share / nshards))
        sub = vlib.Scratch("st-" + name)
        try:
            outs = gen_traces(sub, binary, nshards, worlds, ops, ",".join(feats), cfgs=cfgs_core if name.startswith("core") else "default",
                              extra=["-mode", mode])
            runs, other = [], []
            for o, r in outs:
                if r.timed_out:
                    raise vlib.MachineryError("fed driver timed out")
                a, b = load_runs(o)
                if r.returncode != 0:
                    # the gateway under test took the driver process down (panic in a goroutine) or hung:
                    # the last Req line written names the case
                    last = None
                    for rr in a:
                        for e in rr["events"]:
                            if e["ev"] == "Req":
                                last = (rr, e)
                    crashes.append((name, last, r.returncode, r.stderr[-6000:]))
                    if a:
                        trim_unfinished(a[-1])
                runs += a
                other += b
            nops = sum(1 for r in runs for e in r["events"] if e["ev"] == "Req")
            rej, mono, st = vlib.validate_lenient(sub, "FederationTrace", "fed.cfg", runs, name, cfg_text=cfgt)
            if name == "core":
                runs_sample = [r for r in runs if len(r["events"]) > 20][:4]
            if mono:
                r, idx = mono[0]
                raise vlib.MachineryError("R7: the harness evaluator and Ref disagree (gateway not involved) on\n%s" %
                                          r["events"][op_bounds(r, idx)[0]]["text"])
            for r, idx, ev, payload in rej:
                rejections.append((name, r, idx, ev, payload))
            tags = {}
            nontrivial = 0
            fkinds, ikinds = {}, {}
            for r in runs:
                for i, e in enumerate(r["events"]):
                    if e["ev"] == "Req":
                        for t in e["op"].get("tags", []):
                            tags[t] = tags.get(t, 0) + 1
                    if e["ev"] == "Fault":
                        fkinds[e["kind"]] = fkinds.get(e["kind"], 0) + 1
                    if e["ev"] == "Req" and e.get("invalid"):
                        ikinds[e["invalid"]] = ikinds.get(e["invalid"], 0) + 1
                    if e["ev"] == "Plan" and len(e.get("levels", {})) >= 2 and max(e["levels"].values()) >= 1 and sum(e["levels"].values()) >= 3:
                        nontrivial += 1
            stats[name] = dict(worlds=len(runs), ops=nops, rejected=len(rej), tlc=st, op_tags=tags, nontrivial=nontrivial, faults_applied=fkinds, invalid_kinds=ikinds,
                               start_failed=sum(1 for o in other if o["ev"] == "StartFailed"),
                               gen_invalid=sum(1 for o in other if o["ev"] == "GenInvalid"))
            other_all += [o for o in other if o["ev"] != "GenInvalid"]
            if runs and not samples:
                r0 = runs[0]
                req = next((e for e in r0["events"] if e["ev"] == "Req"), None)
                if req:
                    samples.append({"world": {"services": r0["reset"]["services"], "ents": list(r0["reset"]["ents"])[:6]},
                                    "operation": req["text"], "variables": req["op"]["vars"]})
        finally:
            sub.cleanup()
    return stats, rejections, other_all, samples, runs_sample, crashes
