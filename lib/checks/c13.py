"""C13 - planning and responses are deterministic.

Spec: spec/Determinism.tla - an observation of one execution is (data, set of error messages, per
service the bag of sub-requests); for one gateway and one (operation, fault plan) every execution
must yield the same observation.  Each generated operation is executed k times (quick 6,
thorough 25) on the same gateway - Go randomises map iteration per range statement, the fake
transport perturbs the completion order of concurrent calls with seeded delays, a third of the
operations run under a fixed injected fault - and TLC validates the recorded observations.
"""
import copy
import json
import time

import vlib
from vlib import log
from checks import fedlib

PID = "C13"


def load(path):
    runs, cur = [], None
    for line in open(path):
        try:
            e = json.loads(line)
        except ValueError:
            continue
        if e["ev"] == "World":
            cur = {"id": "w%s" % e["id"], "reset": {"ev": "World", "id": e["id"]}, "events": [], "world": e}
            runs.append(cur)
        elif e["ev"] == "Obs" and cur is not None:
            cur["events"].append(e)
        elif e["ev"] in ("StartFailed", "HarnessError"):
            raise vlib.MachineryError("fed driver: %s" % json.dumps(e)[:300])
    return runs


def run(sc, tier, replay):
    t0 = time.time()
    V = vlib.Verdicts(PID)
    thorough = tier == "thorough"
    binary = vlib.go_build(sc, "./cmd/fed", "fed")
    off = ["nodirid", "nofragdirs"]
    strata = {"core": (off + ["oddids", "richargs"], 0.3), "skeleton": (off + ["skeleton"], 0.3), "abstract": (off + ["abstract"], 0.2),
              "rootnode": (off + ["rootnode"], 0.2),
              # stitched lists nested two deep, every level owned by another service (spec: same contract; the generator's
              # chain worlds): with services that do not know every entity both levels are left with helper-only objects
              "chain": (["chain"], 0.12)}
    total_worlds, ops, repeats = (1400, 12, 25) if thorough else (280, 10, 6)
    stats = {}
    sample = None
    sample_runs = None
    def handle(name, outs):
        nonlocal sample, sample_runs
        runs = []
        for o, r in outs:
            if r.timed_out:
                raise vlib.MachineryError("fed driver timed out")
            if r.returncode != 0:
                msg = [l for l in r.stderr.splitlines() if l.startswith("panic:") or l.startswith("fatal error:")]
                if r.returncode == 3 or vlib.panic_in_code_under_test(r.stderr):
                    V.violation("%s/%s" % (name, ("hang" if r.returncode == 3 else "crash:" + (msg[0] if msg else "exit %d" % r.returncode))[:80]),
                                "the gateway process died or hung during repeated execution", {"stderr": r.stderr[-4000:]})
                else:
                    raise vlib.MachineryError("fed driver failed: %s" % r.stderr[-2000:])
            runs += load(o)
        rej, mono, st = vlib.validate_lenient(sc, "Determinism", "Determinism.cfg", runs, name.replace("/", "-"))
        keys = set()
        for r in runs:
            for e in r["events"]:
                keys.add((r["id"], e["key"]))
        for r, idx, ev, payload in rej:
            first = next(e for e in r["events"] if e["key"] == ev["key"])
            tags = set(ev.get("tags") or [])
            feats2 = sorted(fedlib.DEFECT_TAGS[t] for t in tags if t in fedlib.DEFECT_TAGS)
            prefix = "+".join(feats2) if feats2 else "core"
            sig = "%s/nondeterministic-%s%s%s" % (prefix, payload, "-under-fault" if ev.get("fault") else "", "-by-completion-order" if "waves" in ev else "")
            what = "execution %d of\n%s\ndiffers from execution 0 in %s%s" % (ev["k"], ev["text"], payload,
                                                                           ("\n(calls per wave: %s; completion order forced)" % ev["waves"]) if "waves" in ev else "")
            V.violation(sig, what, {"world": r["world"], "first": first, "later": ev})
        stats[name] = dict(worlds=len(runs), operations=len(keys), executions=sum(len(r["events"]) for r in runs), refused=len(rej), tlc=st,
                           with_fault=len({(r["id"], e["key"]) for r in runs for e in r["events"] if e.get("fault")}),
                           concurrent_waves=sum(1 for r in runs for e in r["events"] if e.get("k") == 0 and any(x > 1 for x in e.get("waves", []))))
        log("stratum %-16s worlds %4d operations %6d executions %7d refused %d" % (name, len(runs), len(keys), stats[name]["executions"], len(rej)))
        if sample is None and runs and runs[0]["events"]:
            e = runs[0]["events"][0]
            sample = {"key": e["key"], "operation": e["text"], "errors": e["errors"], "reqs": e["reqs"]}
            sample_runs = runs[:2]

    nsh = 14
    for name, (feats, share) in strata.items():
        worlds = max(1, int(total_worlds * share / nsh))
        outs = fedlib.gen_traces(sc, binary, nsh, worlds, ops, ",".join(feats), cfgs="default,cached",
                                 extra=["-mode", "repeat", "-repeats", str(repeats)], seed_base=vlib.seed() * 1000 + {"core": 0, "skeleton": 250, "rootnode": 750, "chain": 850}.get(name, 500))
        handle(name, outs)

    # ---- completion orders: spec/ExecMerge.tla.  Design level: merging in completion order is order-independent with the
    # rule the code uses now and is not with "last one wins"; TLC enumerates the completion orders of 2..4 concurrent calls,
    # which are forced on the real executor through gated service calls
    d_ok = vlib.run_tlc(sc, "ExecMerge", "ExecMerge_nullkeeps.cfg", workers=2, name="merge-ok", timeout=600)
    d_bad = vlib.run_tlc(sc, "ExecMerge", "ExecMerge_lastwins.cfg", workers=2, name="merge-lastwins", timeout=600, allow_violation=True)
    if d_bad.violated != "OrderIndependent":
        raise vlib.MachineryError("ExecMerge: last-one-wins merging is order-independent?")
    orders_path = sc.path("orders.ndjson")
    norders = 0
    with open(orders_path, "w") as f:
        for n in (2, 3, 4):
            r = vlib.run_tlc(sc, "ExecMerge", "ExecMergeOrders%d.cfg" % n, workers=1, serial=True, name="orders%d" % n, timeout=300)
            for o in r.printed:
                f.write(json.dumps(o) + "\n")
                norders += 1
    if norders != 2 + 6 + 24:
        raise vlib.MachineryError("ExecMerge printed %d completion orders" % norders)
    for name, feats in (("orders/core", off + ["richargs"]), ("orders/rootnode", off + ["rootnode"]), ("orders/abstract", off + ["abstract"])):
        worlds = max(1, int((total_worlds // 4) / nsh))
        outs = fedlib.gen_traces(sc, binary, nsh, worlds, ops, ",".join(feats), cfgs="default",
                                 extra=["-mode", "orders", "-orders", orders_path], seed_base=vlib.seed() * 1000 + 900 + len(name))
        handle(name, outs)
    stats["design"] = {"tlc": {"states": d_ok.distinct + d_bad.distinct}, "executions": 0, "operations": 0,
                       "ExecMerge": {"nullkeeps": "OrderIndependent holds (%d states)" % d_ok.distinct, "lastwins": "violated", "completion_orders": norders}}
    # negative control: a differing later observation must be refused
    ctrl = copy.deepcopy(sample_runs)
    done = False
    for r in ctrl:
        evs = r["events"]
        for e in evs:
            if e["k"] == 1 and not done:
                e["errors"] = e["errors"] + ["injected by the negative control"]
                done = True
    if not done:
        raise vlib.MachineryError("no run usable as negative control")
    rej, _, _ = vlib.validate_lenient(sc, "Determinism", "Determinism.cfg", ctrl, "ctrl")
    if not rej:
        raise vlib.MachineryError("negative control accepted by Determinism")
    rc = V.finish()
    total = sum(s["executions"] for s in stats.values())
    vlib.write_evidence(PID, tier, "model_checking", {
        "states": sum(s["tlc"]["states"] for s in stats.values()), "transitions": sum(s["tlc"]["states"] for s in stats.values()),
        "traces_validated_against_impl": total, "samples": [sample], "strata": stats, "repeats": repeats,
        "evaluations": total, "distinct_nontrivial": sum(s["operations"] for s in stats.values()),
        "rule": "every generated (operation, configuration, fault plan) is one case, executed `repeats` times; distinct = distinct keys; all are non-trivial in the sense that each is compared across executions",
        "negative_controls_refused": 1, "known_findings_hit": sorted(V.hit_known), "notes": V.notes, "repo_head": vlib.repo_head(),
    }, time.time() - t0, violations=len(V.violations), assumptions=[
        "services answer the same way on every execution (the fake services are deterministic); completion order is perturbed by seeded delays in the transport",
        "schedules inside the Go runtime are not enumerated: determinism is sampled over k executions",
    ])
    return rc
