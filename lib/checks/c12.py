"""C12 - downstream round trips are bounded by plan shape, not by result size.

Spec: FederationAbs!QCall - a batched call (Queryer.Query) to service s is allowed only while
#calls(s) < #levels of the OBSERVED plan at which s appears, and only if it does not carry two
identical lookups (same sub-query, {id} as the only variable).  A second call at one level (the
N+1 regression) or a duplicated lookup has no enabled action and is refused.  C01 (checked on the
same kind of traces) guarantees that de-duplicated answers are still stitched into every place.
Generated data contains result lists with repeated entities and root lists of 20..220 entries.
"""
from checks import fedcheck

PID = "C12"


def _extra_call(runs):
    for r in runs:
        for i, e in enumerate(r["events"]):
            if e["ev"] == "QCall":
                r["events"].insert(i, dict(e))
                return True
    return False


def _dup(runs):
    for r in runs:
        for e in r["events"]:
            if e["ev"] == "QCall":
                e["dup"] = True
                return True
    return False


def run(sc, tier, replay):
    strata = {"core": (["nodirid", "nofragdirs", "oddids", "biglists", "richargs"], 0.75),
              "abstract": (["nodirid", "nofragdirs", "abstract", "biglists"], 0.25)}
    return fedcheck.run_fed_check(
        sc, tier, PID, ["C12"], "model_checking",
        {"quick": (420, 12), "thorough": (2600, 20)},     # the traces of one stratum are held in memory: 6000 x 25 needed 48 GB
        [("second-call-at-one-level", _extra_call), ("duplicate-lookup", _dup)],
        ["plan levels are taken from the plan the real planner produced (a planner that uses more levels is allowed more calls)",
         "a call = one Queryer.Query invocation on the gateway's queryer for that service (HTTP chunking by the batch size is C11's concern)"],
        strata=strata)
