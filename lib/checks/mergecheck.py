"""Common driver of C03, C04, C05: sets of service schemas (seeded generator with conflict-introducing
edits, and sets enumerated by TLC from spec/MergeGen.tla) are merged by the REAL merger in every
order of the service list; TLC validates each outcome against Merge.tla (MergeTrace, Enforce={Cxx})."""
import copy
import json
import os
import re
import time
from concurrent.futures import ThreadPoolExecutor

import vlib
from vlib import log

CFG = 'SPECIFICATION TraceSpec\nCONSTANT Enforce = {%s}\nPOSTCONDITION TraceAccepted\nCHECK_DEADLOCK FALSE\n'


def load(path):
    runs, cur = [], None
    for line in open(path):
        try:
            e = json.loads(line)
        except ValueError:
            continue
        if e["ev"] == "Set":
            cur = {"id": "set%s" % e["id"], "reset": e, "events": []}
            runs.append(cur)
        elif e["ev"] == "Result" and cur is not None:
            cur["events"].append(e)
        elif e["ev"] == "HarnessError":
            raise vlib.MachineryError("merge driver: %s" % e["what"][:1500])
    return runs


def classify(pid, r, idx, ev, why):
    results = [e for e in r["events"] if e["merger"] == ev["merger"]]
    oks = {e["ok"] for e in results}
    order = "order-dependent:" if len(oks) > 1 else ""
    if ev["panic"]:
        sym = "panic"
    elif why.startswith("{"):
        confl = "+".join(sorted(re.findall(r'"(\w+)"', why)))
        sym = "conflict-accepted:" + confl
    else:
        sym = why
    sig = "%s%s[%s]" % (order, sym, ev["merger"])
    what = "%d services %s, listed in order %s, merger %s: ok=%s err=%s\nrefused because: %s" % (
        len(r["reset"]["svcs"]), r["reset"].get("tags"), ev["perm"], ev["merger"], ev["ok"], ev["err"][:200], why)
    return sig, what


def run_merge_check(sc, tier, pid, enforce, level, text_extra, controls):
    t0 = time.time()
    V = vlib.Verdicts(pid)
    thorough = tier == "thorough"
    binary = vlib.go_build(sc, "./cmd/merge", "merge", tags="")
    cfg_text = CFG % ",".join('"%s"' % e for e in enforce)
    nsh = 14
    sets_per = 1500 if thorough else 120

    def one(k):
        out = sc.path("merge%d.ndjson" % k)
        r = vlib.run([binary, "gen", "-seed", str(vlib.seed() * 1000 + k), "-sets", str(sets_per), "-out", out], timeout=1800)
        return out, r
    with ThreadPoolExecutor(max_workers=nsh) as ex:
        outs = list(ex.map(one, range(nsh)))
    runs = []
    for o, r in outs:
        if r.returncode != 0:
            if vlib.panic_in_code_under_test(r.stderr):
                msg = [l for l in r.stderr.splitlines() if l.startswith("panic:") or l.startswith("fatal error:")]
                V.violation("crash:" + (msg[0] if msg else "exit %d" % r.returncode)[:100], "the merge driver process died", {"stderr": r.stderr[-4000:]})
            else:
                raise vlib.MachineryError("merge driver failed: %s" % r.stderr[-2000:])
        runs += load(o)
    # cases enumerated by TLC (direction A)
    gen_stats = None
    gen_runs = []
    if os.path.exists(os.path.join(vlib.SPEC, "MergeGen.tla")):
        from checks import mergegen
        gen_stats, gen_runs = mergegen.enumerate_and_run(sc, binary, thorough)
        runs_all = runs + gen_runs
    else:
        runs_all = runs
    log("merged %d sets on the real merger after %.0f s; TLC validates" % (len(runs_all), time.time() - t0))
    rej, mono, st = vlib.validate_lenient(sc, "MergeTrace", "merge.cfg", runs_all, "merge", cfg_text=cfg_text, chunk_events=8000, parallel=14)
    for r, idx, ev, why in rej:
        sig, what = classify(pid, r, idx, ev, why)
        V.violation(sig, what, {"set": r["reset"], "result": {k: ev[k] for k in ("perm", "merger", "ok", "panic", "err")}, "why": why,
                                "all_orders": [{k: e[k] for k in ("perm", "merger", "ok", "err")} for e in r["events"]]})
    nres = sum(len(r["events"]) for r in runs_all)
    tags = {}
    conflicts = 0
    for r in runs_all:
        for t in r["reset"].get("tags", []):
            tags[t] = tags.get(t, 0) + 1
        if any(t.startswith("edit:") for t in r["reset"].get("tags", [])):
            conflicts += 1
    log("sets %d (with conflict edits %d), merge results %d, refused %d" % (len(runs_all), conflicts, nres, len(rej)))
    # negative controls
    nctrl = 0
    for cname, mutate in controls:
        rs = copy.deepcopy(runs[:40])
        if not mutate(rs):
            continue
        rj, _, _ = vlib.validate_lenient(sc, "MergeTrace", "merge.cfg", rs, "ctrl-" + cname, cfg_text=cfg_text)
        if not rj:
            raise vlib.MachineryError("negative control '%s' accepted by MergeTrace" % cname)
        nctrl += 1
    if nctrl == 0:
        raise vlib.MachineryError("no negative control applicable")
    rc = V.finish()
    sample_run = next((r for r in runs if len(r["reset"]["svcs"]) >= 2), runs[0])
    cov = {
        "states": st["states"], "transitions": st["states"], "traces_validated_against_impl": nres,
        "samples": [{"services": [s["url"] for s in sample_run["reset"]["svcs"]], "tags": sample_run["reset"].get("tags"),
                     "schemas": sample_run["reset"]["svcs"][:2], "results": [{k: e[k] for k in ("perm", "merger", "ok", "err")} for e in sample_run["events"][:6]]}],
        "sets": len(runs_all), "sets_with_conflict_edits": conflicts, "set_tags": tags, "tlc_enumerated": gen_stats,
        "negative_controls_refused": nctrl,
        "evaluations": nres, "distinct_nontrivial": sum(1 for r in runs_all if len(r["reset"]["svcs"]) >= 2),
        "rule": "a case = a set of service schemas; every permutation of the service list x {ExtendMergerFunc, SanitizeNodeMergerFunc, NewGateway} is one evaluation; "
                "non-trivial = sets of >= 2 services (counted sets, not de-duplicated across seeds)",
        "known_findings_hit": sorted(V.hit_known), "notes": V.notes, "repo_head": vlib.repo_head(),
    }
    vlib.write_evidence(pid, tier, level, cov, time.time() - t0, violations=len(V.violations), assumptions=[
        "every generated service schema is valid on its own (checked with gqlparser before merging)",
        "signatures are compared as rendered by gqlparser (type, argument types and defaults); descriptions are not generated",
    ] + text_extra)
    return rc
