"""C15 - introspecting a service reproduces its schema.

Spec: spec/Introspect.tla - IntroOK: the schema reconstructed from a spec-compliant introspection
answer for S equals S in the abstract view (kinds, descriptions, fields with arbitrarily nested
wrappers, argument names / types / default values, deprecations, enum values, union members,
interfaces, input fields and defaults, custom scalars, directives with arguments and locations,
root operation type names).  S = base + every set of at most two type-system features (742 sets,
enumerated by TLC); the answer comes from the harness's own spec-compliant responder
(harness/introresp), the reconstruction from the REAL introspection.ParallelRemoteSchemaIntrospector.
"""
from checks import introcheck

PID = "C15"


def run(sc, tier, replay):
    return introcheck.run_intro_check(sc, tier, PID, "c15", [
        "the responder is the harness's own (not the repository's resolver); it answers defaultValue as a GraphQL literal string, deprecationReason 'No longer supported' when no reason is given, as the specification prescribes",
        "both schemas are compared through the same projection (harness/mschema.Abs) of gqlparser schemas; strings are over a small alphabet",
    ])
