"""Shared machinery of the /verif checks: scratch dirs, TLC runs, TLA+ value parsing,
state-graph walking, Go harness builds, evidence files, known findings.

Exit codes of a check (DESIGN.md R1): 0 = property held on everything explored,
1 = VIOLATION line printed, 2 = machinery problem (never a verdict).
"""
import collections
import hashlib
import json
import os
import random
import re
import shutil
import subprocess
import sys
import time

VERIF = os.path.dirname(os.path.dirname(os.path.abspath(__file__)))
REPO = os.environ.get("VERIF_REPO", "/repo")
SPEC = os.path.join(VERIF, "spec")
HARNESS = os.path.join(VERIF, "harness")
JAR = "/opt/veriftools/tla/tla2tools.jar:/opt/veriftools/tla/CommunityModules-deps.jar"

GOENV = dict(GOFLAGS="-mod=mod", GOPROXY="off", GOSUMDB="off", GOTOOLCHAIN="local")


class MachineryError(Exception):
    """Something in the checking machinery failed: exit 2, never a verdict."""


def log(*a):
    print(*a, flush=True)


def seed():
    try:
        return int(os.environ.get("VERIF_SEED", "1"))
    except ValueError:
        return 1


# ----------------------------------------------------------------------------- scratch

class Scratch:
    def __init__(self, name):
        base = os.path.join(VERIF, ".scratch")
        os.makedirs(base, exist_ok=True)
        self.dir = os.path.join(base, "%s-%d-%d" % (name, os.getpid(), int(time.time() * 1000) % 100000))
        os.makedirs(self.dir)

    def path(self, *p):
        return os.path.join(self.dir, *p)

    def sub(self, name):
        d = self.path(name)
        os.makedirs(d, exist_ok=True)
        return d

    def cleanup(self):
        shutil.rmtree(self.dir, ignore_errors=True)


# ----------------------------------------------------------------------------- TLC

TLCResult = collections.namedtuple("TLCResult", "ok out generated distinct depth violated error_kind wall printed coverage")


def _copy_specs(dst):
    for f in os.listdir(SPEC):
        if f.endswith(".tla") or f.endswith(".cfg"):
            shutil.copy(os.path.join(SPEC, f), dst)


def run_tlc(scratch, module, cfg, workers=8, extra=None, env=None, timeout=600, heap="6g",
            serial=False, deque=False, name=None, coverage=False, allow_violation=False, cfg_text=None):
    """Runs TLC on spec/<module>.tla with spec/<cfg> in a scratch copy of the spec dir.
    Returns TLCResult.  A TLC crash / timeout raises MachineryError."""
    name = name or (cfg.replace(".cfg", ""))
    d = scratch.sub("tlc-" + name)
    _copy_specs(d)
    if cfg_text is not None:
        with open(os.path.join(d, cfg), "w") as f:
            f.write(cfg_text)
    cmd = ["java"]
    if serial:
        cmd += ["-XX:+UseSerialGC"]
    else:
        cmd += ["-XX:+UseParallelGC"]
    cmd += ["-Xmx" + heap, "-Xss64m"]
    if deque:
        cmd += ["-Dtlc2.tool.queue.IStateQueue=StateDeque"]
    cmd += ["-cp", JAR, "tlc2.TLC", "-workers", str(workers), "-metadir", os.path.join(d, "md"),
            "-config", cfg]
    if coverage:
        cmd += ["-coverage", "1"]
    cmd += list(extra or [])
    cmd += [module + ".tla"]
    e = dict(os.environ)
    e.update(env or {})
    t0 = time.time()
    try:
        p = subprocess.run(cmd, cwd=d, env=e, stdout=subprocess.PIPE, stderr=subprocess.STDOUT,
                           timeout=timeout, text=True, errors="replace")
    except subprocess.TimeoutExpired:
        raise MachineryError("TLC timed out after %ss on %s/%s" % (timeout, module, cfg))
    wall = time.time() - t0
    out = p.stdout
    with open(os.path.join(d, "tlc.out"), "w") as f:
        f.write(out)
    gen = dist = depth = 0
    m = re.findall(r"(\d[\d,]*) states generated, (\d[\d,]*) distinct states found", out)
    if m:
        gen, dist = (int(x.replace(",", "")) for x in m[-1])
    m = re.search(r"depth of the complete state graph search is (\d+)", out)
    if m:
        depth = int(m.group(1))
    violated = None
    kind = None
    m = re.search(r"Error: Invariant (\S+) is violated", out)
    if m:
        violated, kind = m.group(1), "invariant"
    elif re.search(r"Error: Action property (\S+)", out):
        violated, kind = re.search(r"Error: Action property (\S+)", out).group(1), "action-property"
    elif "Error: Temporal properties were violated" in out:
        violated, kind = "temporal", "temporal"
    elif "Error: Deadlock reached" in out:
        violated, kind = "deadlock", "deadlock"
    elif re.search(r"Error: Postcondition \S+ .* is false", out):
        violated, kind = "postcondition", "postcondition"
    elif "Error:" in out:
        kind = "error"
    printed = []
    for line in out.splitlines():
        line = line.strip()
        if line.startswith('"@@') and line.endswith('"'):
            # PrintT of a string that starts with @@: payload is TLA-string-escaped JSON
            try:
                printed.append(json.loads(_tla_unescape(line[3:-1])))
            except Exception:
                pass
    cov = {}
    if coverage:
        for m in re.finditer(r"<(\w+) line (\d+), col \d+ to line \d+, col \d+ of module (\w+)>: (\d+):(\d+)", out):
            cov[m.group(3) + "." + m.group(1)] = cov.get(m.group(3) + "." + m.group(1), 0) + int(m.group(5))
    ok = (kind is None) and ("Model checking completed" in out or "Finished in" in out or "simulation" in out.lower())
    if kind == "error" or (not ok and kind is None):
        raise MachineryError("TLC failed on %s/%s (exit %s); output in %s:\n%s" % (module, cfg, p.returncode, d, out[-3000:]))
    if kind is not None and not allow_violation:
        raise MachineryError("TLC reports %s %s on %s/%s (design-level; see %s/tlc.out):\n%s" % (kind, violated, module, cfg, d, out[-3000:]))
    return TLCResult(ok, out, gen, dist, depth, violated, kind, wall, printed, cov)


def _tla_unescape(s):
    return s.replace('\\"', '"').replace("\\\\", "\\")


def sany(module_paths):
    for mp in module_paths:
        p = subprocess.run(["java", "-cp", JAR, "tla2sany.SANY", mp], stdout=subprocess.PIPE, stderr=subprocess.STDOUT, text=True,
                           cwd=os.path.dirname(mp))
        if p.returncode != 0 or "Semantic errors" in p.stdout or "*** Errors" in p.stdout or "Abort" in p.stdout:
            raise MachineryError("SANY rejects %s:\n%s" % (mp, p.stdout[-2000:]))


# ----------------------------------------------------------------------------- trace validation

def validate_runs(scratch, module, cfg, runs, name, max_reject=5, chunk_events=150000, timeout=900, deque=False, env=None, remainder=None):
    """Direction B.  runs: list of {"id":…, "reset": {reset event}, "events": [event dicts]}.
    Concatenates them (each preceded by its Reset line) into NDJSON files of at most
    chunk_events lines, has TLC check each file against the trace spec, and returns
    (accepted, rejected, stats) where rejected = [(run, index_of_rejected_event_in_run, event)]
    (index -1 = the Reset line itself).  A rejected run is removed and the rest of its chunk is
    re-validated, so one rejection does not leave the remainder unexamined."""
    accepted = 0
    rejected = []
    stats = {"tlc_runs": 0, "events": 0, "states": 0}
    chunks = []
    cur, n = [], 0
    for r in runs:
        cur.append(r)
        n += len(r["events"]) + 1
        if n >= chunk_events:
            chunks.append(cur)
            cur, n = [], 0
    if cur:
        chunks.append(cur)
    for ci, chunk in enumerate(chunks):
        chunk = list(chunk)
        while chunk:
            if len(rejected) >= max_reject:
                return accepted, rejected, stats
            d = scratch.sub("trace-%s-%d-%d" % (name, ci, stats["tlc_runs"]))
            tf = os.path.join(d, "trace.ndjson")
            starts = []
            line = 0
            with open(tf, "w") as f:
                for r in chunk:
                    line += 1
                    starts.append(line)
                    f.write(json.dumps(r["reset"]) + "\n")
                    for e in r["events"]:
                        line += 1
                        f.write(json.dumps(e) + "\n")
            e2 = {"VERIF_TRACE": tf}
            e2.update(env or {})
            res = run_tlc(scratch, module, cfg, workers=1, serial=True, heap="8g", env=e2, timeout=timeout,
                          name="%s-%d-%d" % (name, ci, stats["tlc_runs"]), allow_violation=True, deque=deque)
            stats["tlc_runs"] += 1
            stats["states"] += res.distinct
            if res.error_kind is None:
                accepted += len(chunk)
                stats["events"] += line
                break
            m = re.search(r'"@@REJECTED-AT-LINE", (\d+)', res.out)
            if res.error_kind != "postcondition" or not m:
                raise MachineryError("trace validation of %s failed in an unexpected way (%s):\n%s" % (name, res.error_kind, res.out[-2000:]))
            bad_line = int(m.group(1))
            k = max(i for i, st in enumerate(starts) if st <= bad_line)
            r = chunk[k]
            idx = bad_line - starts[k] - 1
            ev = r["reset"] if idx < 0 else r["events"][idx]
            r = dict(r, _tlc_out=res.out[-20000:])
            rejected.append((r, idx, ev))
            accepted += k
            stats["events"] += starts[k] - 1
            chunk = chunk[k + 1:]
            if remainder is not None and idx >= 0:
                rest = remainder(r, idx)      # what is left of the rejected run, so that it is examined too
                if rest is not None and rest["events"]:
                    chunk = [rest] + chunk
    return accepted, rejected, stats


def validate_lenient(scratch, module, cfg, runs, name, chunk_events=40000, parallel=6, env=None, timeout=1200, cfg_text=None):
    """Like validate_runs for trace specs that REPORT refused lines (Print <<"@@REFUSED", line, payload>>)
    and go on: one TLC pass per chunk, chunks in parallel.  Returns (refusals, mono, stats) with
    refusals = [(run, idx, event, payload)], mono = [(run, idx)] for @@MONO-MISMATCH lines."""
    from concurrent.futures import ThreadPoolExecutor
    chunks, cur, n = [], [], 0
    for r in runs:
        cur.append(r)
        n += len(r["events"]) + 1
        if n >= chunk_events:
            chunks.append(cur)
            cur, n = [], 0
    if cur:
        chunks.append(cur)
    stats = {"tlc_runs": len(chunks), "events": 0, "states": 0}

    def one(ci):
        chunk = chunks[ci]
        d = scratch.sub("ltrace-%s-%d" % (name, ci))
        tf = os.path.join(d, "trace.ndjson")
        index = []     # line -> (run, idx)
        with open(tf, "w") as f:
            for r in chunk:
                index.append((r, -1))
                f.write(json.dumps(r["reset"]) + "\n")
                for i, e in enumerate(r["events"]):
                    index.append((r, i))
                    f.write(json.dumps(e) + "\n")
        e2 = {"VERIF_TRACE": tf}
        e2.update(env or {})
        res = run_tlc(scratch, module, cfg, workers=1, serial=True, heap="6g", env=e2, timeout=timeout,
                      name="l%s-%d" % (name, ci), allow_violation=True, cfg_text=cfg_text)
        if res.error_kind is not None:
            m = re.search(r'"@@REJECTED-AT-LINE", (\d+)', res.out)
            where = index[int(m.group(1)) - 1] if m and int(m.group(1)) - 1 < len(index) else None
            raise MachineryError("trace %s could not be consumed (%s) at %s:\n%s" % (
                name, res.error_kind, json.dumps(where[0]["events"][where[1]])[:500] if where and where[1] >= 0 else where, res.out[-1500:]))
        refusals, mono = [], []
        for line in res.out.splitlines():
            if line.startswith('<<"@@REFUSED", '):
                m = re.match(r'<<"@@REFUSED", (\d+), "(.*)">>\s+TRUE\s*$', line)
                if not m:
                    raise MachineryError("cannot parse refusal line: %s" % line[:300])
                r, idx = index[int(m.group(1)) - 1]
                refusals.append((r, idx, r["events"][idx] if idx >= 0 else r["reset"], _tla_unescape(m.group(2))))
            elif line.startswith('<<"@@MONO-MISMATCH", '):
                m = re.match(r'<<"@@MONO-MISMATCH", (\d+)>>', line)
                mono.append(index[int(m.group(1)) - 1])
        return refusals, mono, len(index), res.distinct
    refusals, mono = [], []
    with ThreadPoolExecutor(max_workers=parallel) as ex:
        for rf, mn, nl, st in ex.map(one, range(len(chunks))):
            refusals += rf
            mono += mn
            stats["events"] += nl
            stats["states"] += st
    return refusals, mono, stats


# ----------------------------------------------------------------------------- TLA+ value parser

class _P:
    def __init__(self, s):
        self.s = s
        self.i = 0

    def ws(self):
        while self.i < len(self.s) and self.s[self.i] in " \t\r\n":
            self.i += 1

    def peek(self, k=1):
        self.ws()
        return self.s[self.i:self.i + k]

    def eat(self, tok):
        self.ws()
        if not self.s.startswith(tok, self.i):
            raise ValueError("expected %r at %d in %r" % (tok, self.i, self.s[max(0, self.i - 20):self.i + 20]))
        self.i += len(tok)

    def value(self):
        self.ws()
        c = self.peek()
        if self.peek(2) == "<<":
            self.eat("<<")
            out = []
            if self.peek(2) != ">>":
                while True:
                    out.append(self.value())
                    if self.peek() == ",":
                        self.eat(",")
                    else:
                        break
            self.eat(">>")
            return out
        if c == "{":
            self.eat("{")
            out = []
            if self.peek() != "}":
                while True:
                    out.append(self.value())
                    if self.peek() == ",":
                        self.eat(",")
                    else:
                        break
            self.eat("}")
            return {"__set__": out}
        if c == "[":
            self.eat("[")
            rec = {}
            while True:
                self.ws()
                m = re.compile(r"\w+").match(self.s, self.i)
                k = m.group(0)
                self.i = m.end()
                self.eat("|->")
                rec[k] = self.value()
                if self.peek() == ",":
                    self.eat(",")
                else:
                    break
            self.eat("]")
            return rec
        if c == "(":
            self.eat("(")
            fn = []
            while True:
                k = self.value()
                self.eat(":>")
                v = self.value()
                fn.append((k, v))
                if self.peek(2) == "@@":
                    self.eat("@@")
                else:
                    break
            self.eat(")")
            if all(isinstance(k, str) for k, _ in fn):
                return dict(fn)
            return {"__fn__": fn}
        if c == '"':
            j = self.i + 1
            buf = []
            while self.s[j] != '"':
                if self.s[j] == "\\":
                    j += 1
                buf.append(self.s[j])
                j += 1
            self.i = j + 1
            return "".join(buf)
        m = re.compile(r"-?\d+").match(self.s, self.i)
        if m:
            self.i = m.end()
            return int(m.group(0))
        m = re.compile(r"TRUE|FALSE").match(self.s, self.i)
        if m:
            self.i = m.end()
            return m.group(0) == "TRUE"
        m = re.compile(r"\w+").match(self.s, self.i)
        if m:
            self.i = m.end()
            return {"__mv__": m.group(0)}
        raise ValueError("cannot parse TLA+ value at %d: %r" % (self.i, self.s[self.i:self.i + 40]))


def parse_tla(s):
    return _P(s).value()


def fn_to_list(v):
    """TLA+ function with integer domain 0..n-1 or 1..n -> python list."""
    if isinstance(v, list):
        return v
    if isinstance(v, dict) and "__fn__" in v:
        return [x for _, x in sorted(v["__fn__"])]
    raise ValueError(v)


def parse_state(label):
    """'/\\ a = 1\n/\\ b = <<>>' -> {a: 1, b: []}"""
    out = {}
    for part in re.split(r"(?:^|\n)\s*/\\ ", label):
        part = part.strip()
        if not part:
            continue
        k, v = part.split(" = ", 1)
        out[k.strip()] = parse_tla(v)
    return out


# ----------------------------------------------------------------------------- state graphs

class Graph:
    """State graph dumped by TLC (-dump dot).  Only the variables named in `keep` are parsed."""

    def __init__(self, dot_path, keep=("act",)):
        self.succ = collections.defaultdict(list)
        self.state = {}
        self.inits = []
        edge = re.compile(r"^(-?\d+) -> (-?\d+)")
        node = re.compile(r'^(-?\d+) \[label="(.*)"(,style = filled)?\]\s*;?\s*$')
        with open(dot_path) as f:
            for line in f:
                m = edge.match(line)
                if m:
                    a, b = m.group(1), m.group(2)
                    if a != b:
                        self.succ[a].append(b)
                    continue
                m = node.match(line)
                if m:
                    lab = m.group(2).replace("\\n", "\n").replace('\\"', '"').replace("\\\\", "\\")
                    st = {}
                    for part in re.split(r"(?:^|\n)\s*/\\ ", lab):
                        part = part.strip()
                        if not part:
                            continue
                        k, v = part.split(" = ", 1)
                        if keep is None or k in keep:
                            st[k] = parse_tla(v)
                    self.state[m.group(1)] = st
                    if m.group(3):
                        self.inits.append(m.group(1))
        for a in self.succ:
            self.succ[a] = sorted(set(self.succ[a]))
        self._cnt = {}

    def count_paths(self, n):
        """number of maximal paths from n (graph must be acyclic)"""
        stack = [n]
        while stack:
            x = stack[-1]
            if x in self._cnt:
                stack.pop()
                continue
            todo = [y for y in self.succ.get(x, []) if y not in self._cnt]
            if todo:
                stack.extend(todo)
                continue
            ss = self.succ.get(x, [])
            self._cnt[x] = 1 if not ss else sum(self._cnt[y] for y in ss)
            stack.pop()
        return self._cnt[n]

    def total_paths(self):
        return sum(self.count_paths(i) for i in self.inits)

    def all_paths(self):
        for i in self.inits:
            stack = [(i, [i])]
            while stack:
                x, path = stack.pop()
                ss = self.succ.get(x, [])
                if not ss:
                    yield path
                for y in ss:
                    stack.append((y, path + [y]))

    def nth_path(self, k):
        """the k-th maximal path in a fixed enumeration order (uniform sampling over paths)"""
        for i in self.inits:
            c = self.count_paths(i)
            if k < c:
                path = [i]
                x = i
                while self.succ.get(x):
                    for y in self.succ[x]:
                        cy = self.count_paths(y)
                        if k < cy:
                            path.append(y)
                            x = y
                            break
                        k -= cy
                return path
            k -= c
        raise IndexError(k)

    def edge_cover_paths(self, rng):
        """a set of maximal paths covering every edge at least once"""
        uncovered = {(a, b) for a in self.succ for b in self.succ[a]}
        pred = collections.defaultdict(list)
        for a in self.succ:
            for b in self.succ[a]:
                pred[b].append(a)
        initset = set(self.inits)
        paths = []
        while uncovered:
            a, b = next(iter(uncovered))
            # walk back to an initial state
            back = [a]
            x = a
            while x not in initset:
                ps = pred[x]
                cand = [p for p in ps if (p, x) in uncovered] or ps
                x = rng.choice(cand)
                back.append(x)
            path = list(reversed(back)) + [b]
            x = b
            while self.succ.get(x):
                cand = [y for y in self.succ[x] if (x, y) in uncovered] or self.succ[x]
                y = rng.choice(cand)
                path.append(y)
                x = y
            for e in zip(path, path[1:]):
                uncovered.discard(e)
            paths.append(path)
        return paths

    def acts(self, path):
        return [self.state[s]["act"] for s in path[1:]]


def parse_sim_traces(dirpath, keep=("act",)):
    """TLC -simulate file=<prefix> writes one text file per behaviour; yields lists of states."""
    for fn in sorted(os.listdir(dirpath)):
        p = os.path.join(dirpath, fn)
        if not os.path.isfile(p):
            continue
        txt = open(p).read()
        states = []
        for block in re.split(r"\n\s*\n", txt):
            block = block.strip()
            if not block.startswith("STATE") and "/\\" not in block:
                continue
            block = re.sub(r"^STATE[^\n]*\n", "", block)
            st = {}
            for part in re.split(r"(?:^|\n)\s*/\\ ", block):
                part = part.strip()
                if not part or " = " not in part:
                    continue
                k, v = part.split(" = ", 1)
                if keep is None or k in keep:
                    try:
                        st[k] = parse_tla(v)
                    except Exception:
                        pass
            if st:
                states.append(st)
        if states:
            yield states


# ----------------------------------------------------------------------------- Go harness

def go_build(scratch, pkg, out_name, tags="verif", race=False, test=False):
    """Builds a harness program (or test binary) against /repo's current working tree."""
    out = scratch.path(out_name)
    env = dict(os.environ)
    env.update(GOENV)
    env["GOCACHE"] = os.environ.get("GOCACHE", os.path.join(VERIF, ".gocache"))
    # a scratch copy of go.mod/go.sum whose replace directive points at the tree under test
    modfile = scratch.path("harness.go.mod")
    txt = open(os.path.join(HARNESS, "go.mod")).read()
    txt = re.sub(r"replace github.com/buildbuildio/pebbles => \S+", "replace github.com/buildbuildio/pebbles => %s" % REPO, txt)
    open(modfile, "w").write(txt)
    sums = set(open(os.path.join(HARNESS, "go.sum")).read().splitlines())
    try:
        sums |= set(open(os.path.join(REPO, "go.sum")).read().splitlines())
    except OSError:
        pass
    open(scratch.path("harness.go.sum"), "w").write("\n".join(sorted(x for x in sums if x)) + "\n")
    cmd = ["go", "test", "-c"] if test else ["go", "build"]
    if tags:
        cmd += ["-tags", tags]
    if race:
        cmd += ["-race"]
    cmd += ["-modfile", modfile, "-o", out, pkg]
    p = subprocess.run(cmd, cwd=HARNESS, env=env, stdout=subprocess.PIPE, stderr=subprocess.STDOUT, text=True)
    if p.returncode != 0:
        raise MachineryError("go build of %s failed (does /repo still compile with -tags %s?):\n%s" % (pkg, tags, p.stdout[-4000:]))
    return out


def run(cmd, timeout=600, env=None, cwd=None, stdin=None):
    e = dict(os.environ)
    e.update(env or {})
    try:
        p = subprocess.run(cmd, cwd=cwd, env=e, stdout=subprocess.PIPE, stderr=subprocess.PIPE, timeout=timeout,
                           text=True, errors="replace", input=stdin)
    except subprocess.TimeoutExpired as ex:
        return collections.namedtuple("R", "returncode stdout stderr timed_out")(-9, (ex.stdout or b"").decode("utf8", "replace") if isinstance(ex.stdout, bytes) else (ex.stdout or ""), (ex.stderr or b"").decode("utf8", "replace") if isinstance(ex.stderr, bytes) else (ex.stderr or ""), True)
    return collections.namedtuple("R", "returncode stdout stderr timed_out")(p.returncode, p.stdout, p.stderr, False)


def panic_in_code_under_test(stderr):
    """For a Go process that died with a panic: True if the innermost non-runtime frame of the
    panicking goroutine belongs to the code under test, False if it belongs to the harness."""
    m = re.search(r"\n(goroutine \d+ \[running\]:\n(?:.*\n)*?)\n", stderr + "\n\n")
    block = m.group(1) if m else stderr
    for fn in re.findall(r"\n([\w./*()\[\]{}-]+)\(.*\)\n\t", "\n" + block):
        if fn.startswith("runtime.") or fn.startswith("panic(") or fn.startswith("sync.") or fn.startswith("internal/"):
            continue
        return not (fn.startswith("verifharness/") or fn.startswith("main."))
    return True


def race_in_code_under_test(stderr):
    """True if a Go race report names an access whose innermost non-runtime frame is in the code under
    test (not in the harness / standard library driven by the harness)."""
    blocks = re.split(r"\n(?=(?:Read|Write|Previous read|Previous write) at )", stderr)
    found = False
    for b in blocks:
        if not re.match(r"(Read|Write|Previous read|Previous write) at ", b):
            continue
        frames = re.findall(r"\n  (\S+)\(\)\n      (\S+):\d+", b.split("\n\n")[0])
        for fn, path in frames:
            if path.startswith("/usr/lib/go") or "/go/pkg/mod/" in path or "/veriftools/" in path:
                continue
            if "buildbuildio/pebbles" in fn and "/harness/" not in path:
                found = True
            break
    return found


# ----------------------------------------------------------------------------- findings / evidence

def load_known():
    p = os.path.join(VERIF, "known_findings.json")
    if not os.path.exists(p):
        return []
    return json.load(open(p)).get("findings", [])


class Verdicts:
    """Collects violations of one property, classifies them against known_findings.json, prints the
    interface lines and computes the exit status."""

    def __init__(self, pid):
        self.pid = pid
        self.known = [k for k in load_known() if k.get("property") == pid and k.get("status") == "known"]
        self.hit_known = {}
        self.violations = []
        self.notes = []
        self.sig_count = {}
        self.sig_first = {}

    def violation(self, signature, what, replay_obj):
        """signature: canonical descriptor string computed by the check's classifier."""
        for k in self.known:
            if re.fullmatch(k["signature"], signature):
                self.hit_known.setdefault(k["id"], (k, 0))
                kk, n = self.hit_known[k["id"]]
                self.hit_known[k["id"]] = (kk, n + 1)
                return False
        self.sig_count[signature] = self.sig_count.get(signature, 0) + 1
        if self.sig_count[signature] > 2:       # at most two replay files per signature
            self.violations.append((signature, what, self.sig_first[signature]))
            return True
        os.makedirs(os.path.join(VERIF, "replays"), exist_ok=True)
        h = hashlib.sha1((signature + json.dumps(replay_obj, sort_keys=True, default=str)).encode()).hexdigest()[:12]
        path = os.path.join(VERIF, "replays", "%s-%s.json" % (self.pid, h))
        with open(path, "w") as f:
            json.dump({"property": self.pid, "signature": signature, "what": what, "case": replay_obj}, f, indent=1, default=str)
        self.sig_first.setdefault(signature, path)
        self.violations.append((signature, what, path))
        return True

    def note(self, s):
        self.notes.append(s)
        log("NOTE: " + s)

    def finish(self):
        for kid, (k, n) in sorted(self.hit_known.items()):
            log("KNOWN-FINDING: property=%s %s [%s, %d occurrence(s) this run]" % (self.pid, k["what"], kid, n))
        for k in self.known:
            if k["id"] not in self.hit_known:
                log("NOTE: recorded finding %s did not reproduce in this run (%s)" % (k["id"], k["what"][:80]))
        seen = set()
        for sig, what, path in self.violations:
            if sig in seen:
                continue
            seen.add(sig)
            log("VIOLATION property=%s replay=%s" % (self.pid, path))
            log("  signature: %s (%d occurrence(s))\n  %s" % (sig, self.sig_count.get(sig, 1), what))
        return 1 if self.violations else 0


def write_evidence(pid, tier, level, coverage, wall, violations=0, assumptions=None):
    os.makedirs(os.path.join(VERIF, "evidence"), exist_ok=True)
    ev = {
        "property_id": pid,
        "tier": tier,
        "seed": seed(),
        "level": level,
        "coverage": coverage,
        "assumptions": assumptions or [],
        "wall_s": round(wall, 2),
        "violations": violations,
    }
    p = os.path.join(VERIF, "evidence", pid + ".json")
    with open(p, "w") as f:
        json.dump(ev, f, indent=1, default=str)
    return p


def repo_head():
    try:
        return subprocess.run(["git", "-C", REPO, "rev-parse", "--short", "HEAD"], stdout=subprocess.PIPE, text=True).stdout.strip()
    except Exception:
        return "?"
